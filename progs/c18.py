#!/usr/bin/env python3
"""C18 - misusing keys, purposes or versions fails to compile; secrets cannot be printed.

A generated catalogue of misuse programs and their well-typed counterparts.  A small type
model (written from the property text) predicts accept / reject for every program; ground
truth is rustc (`cargo check --message-format=json`).  All programs predicted to compile live
in one crate that must compile without errors; all programs predicted to be rejected live in
a second crate where every one of them must produce an error on its marked line.
"""
import itertools, json, os, shutil, sys, time
sys.path.insert(0, os.path.dirname(os.path.abspath(__file__)))
from common import *

BACKENDS = [
    ("paseto-v1", "paseto_v1", "V1"), ("paseto-v2", "paseto_v2", "V2"), ("paseto-v3", "paseto_v3", "V3"),
    ("paseto-v3-aws-lc", "paseto_v3_aws_lc", "V3"), ("paseto-v4", "paseto_v4", "V4"), ("paseto-v4-sodium", "paseto_v4_sodium", "V4"),
]
KINDS = ["Local", "Public", "Secret", "PkePublic", "PkeSecret"]
PURPOSES = ["Local", "Public"]
SEALING = {"Local": "Local", "Public": "Secret"}
ALLOWED_CODES = {"E0277", "E0308", "E0599", "E0616", "E0609", "E0369", "E0282", "E0271"}

FORBIDDEN_KEY_TRAITS = [
    ("Display", "std::fmt::Display"), ("ToString", "std::string::ToString"), ("Debug", "std::fmt::Debug"),
    ("LowerHex", "std::fmt::LowerHex"), ("Serialize", "serde::Serialize"), ("Hash", "std::hash::Hash"),
    ("PartialEq", "PartialEq"), ("PartialOrd", "PartialOrd"), ("AsRefBytes", "AsRef<[u8]>"),
    ("BorrowBytes", "std::borrow::Borrow<[u8]>"), ("DerefBytes", "std::ops::Deref<Target = [u8]>"),
    ("Copy", "Copy"), ("Default", "Default"), ("Clone", "Clone"),
]

# traits through which the decoded footer / payload of a not-yet-verified token could be reached
SEALED_TOKEN_LEAK_TRAITS = [
    ("Debug", "std::fmt::Debug"), ("LowerHex", "std::fmt::LowerHex"), ("AsRefBytes", "AsRef<[u8]>"), ("AsRefFooter", "AsRef<Vec<u8>>"),
    ("BorrowFooter", "std::borrow::Borrow<Vec<u8>>"), ("DerefFooter", "std::ops::Deref<Target = Vec<u8>>"), ("IntoFooter", "Clone + Into<Vec<u8>>"),
]

def vty(b):
    return f"{b[1]}::core::{b[2]}"

PRELUDE = '''#![allow(unused, dead_code, clippy::all)]
use paseto_core::key::Key;
use paseto_core::paserk::{KeyId, KeyText, PasswordWrappedKey, PieWrappedKey, SealedKey};
use paseto_core::tokens::{SealedToken, UnsealedToken};
use paseto_core::validation::NoValidation;
use paseto_core::version::{Local, PkePublic, PkeSecret, Public, Secret};
use paseto_core::encodings::{Payload, WriteBytes};

pub struct M(pub Vec<u8>);
impl Payload for M {
    const SUFFIX: &'static str = "";
    fn encode(self, mut w: impl WriteBytes) -> Result<(), Box<dyn std::error::Error + Send + Sync>> { w.write(&self.0); Ok(()) }
    fn decode(p: &[u8]) -> Result<Self, Box<dyn std::error::Error + Send + Sync>> { Ok(M(p.to_vec())) }
}
/// a payload type that is itself printable and serialisable (what a user's claims type may well be):
/// the token holding it must still be neither
pub struct MS(pub Vec<u8>);
impl serde::Serialize for MS { fn serialize<S: serde::Serializer>(&self, s: S) -> Result<S::Ok, S::Error> { s.serialize_bytes(&self.0) } }
impl std::fmt::Display for MS { fn fmt(&self, f: &mut std::fmt::Formatter<'_>) -> std::fmt::Result { write!(f, "{:?}", self.0) } }
impl Payload for MS {
    const SUFFIX: &'static str = "";
    fn encode(self, mut w: impl WriteBytes) -> Result<(), Box<dyn std::error::Error + Send + Sync>> { w.write(&self.0); Ok(()) }
    fn decode(p: &[u8]) -> Result<Self, Box<dyn std::error::Error + Send + Sync>> { Ok(MS(p.to_vec())) }
}
fn nv() -> NoValidation<M> { NoValidation::dangerous_no_validation() }
fn main() {}
'''

class Prog:
    __slots__ = ("pid", "cls", "desc", "params", "stmt", "expect")
    def __init__(self, cls, desc, params, stmt, expect):
        self.cls, self.desc, self.params, self.stmt, self.expect = cls, desc, params, stmt, expect

# module paths under which the supertrait that seals KeyType / Purpose / SealingKey might be exported
SEALED_PATHS = ["paseto_core::sealed::Sealed", "paseto_core::Sealed", "paseto_core::version::Sealed", "paseto_core::key::Sealed",
                "paseto_core::version::sealed::Sealed", "paseto_core::key::sealed::Sealed", "paseto_core::private::Sealed",
                "paseto_core::version::private::Sealed", "paseto_core::tokens::Sealed", "paseto_core::encodings::Sealed"]

def catalogue():
    """(class, description, fn parameters, marked statement, model verdict)"""
    progs = []
    add = lambda *a: progs.append(Prog(*a))
    # --- the key kinds and purposes are a closed set: a downstream crate can neither name the sealing
    # supertrait nor add a kind / purpose of its own (which would receive the back end's inner key)
    for path in SEALED_PATHS:
        add("closed-set-name", f"name the sealing supertrait as {path}", "", f"{{ use {path} as _; }}", False)
        add("closed-set-name", f"implement {path} for a downstream type", "", f"{{ struct Mine; impl {path} for Mine {{}} }}", False)
    add("closed-set-impl", "implement KeyType for a downstream type", "", "{ struct Mine; impl paseto_core::key::KeyType for Mine { const HEADER: &'static str = \".mine.\"; const ID_HEADER: &'static str = \".mid.\"; } }", False)
    add("closed-set-impl", "implement Purpose for a downstream type", "", "{ struct Mine; impl paseto_core::version::Purpose for Mine { type SealingKey = Local; const HEADER: &'static str = \".mine.\"; } }", False)
    # --- seal / unseal across every pair of back-end crates, purposes and key kinds
    for kb, tb in itertools.product(BACKENDS, BACKENDS):
        same_v = kb[0] == tb[0]
        for purpose in PURPOSES:
            for kind in KINDS:
                k = f"k: &Key<{vty(kb)}, {kind}>"
                ok = same_v and kind == SEALING[purpose]
                add("seal", f"seal a {tb[0]} {purpose} token with a {kb[0]} {kind} key", f"{k}, u: UnsealedToken<{vty(tb)}, {purpose}, M>", "let _ = u.seal(k, &[]);", ok)
                ok = same_v and kind == purpose
                add("unseal", f"unseal a {tb[0]} {purpose} token with a {kb[0]} {kind} key", f"{k}, t: SealedToken<{vty(tb)}, {purpose}, M>", "let _ = t.unseal(k, &[], &nv());", ok)
    # --- purpose-specific aliases (same crate, plus the sibling / next crate as the foreign version)
    for i, b in enumerate(BACKENDS):
        foreign = BACKENDS[(i + 1) % len(BACKENDS)]
        for kb in (b, foreign):
            same_v = kb[0] == b[0]
            for purpose in PURPOSES:
                for kind in KINDS:
                    k = f"k: &Key<{vty(kb)}, {kind}>"
                    u = f"u: UnsealedToken<{vty(b)}, {purpose}, M>"
                    t = f"t: SealedToken<{vty(b)}, {purpose}, M>"
                    add("alias-sign", f"sign() a {b[0]} {purpose} token with a {kb[0]} {kind} key", f"{k}, {u}", "let _ = u.sign(k);", same_v and purpose == "Public" and kind == "Secret")
                    add("alias-encrypt", f"encrypt() a {b[0]} {purpose} token with a {kb[0]} {kind} key", f"{k}, {u}", "let _ = u.encrypt(k);", same_v and purpose == "Local" and kind == "Local")
                    add("alias-verify", f"verify() a {b[0]} {purpose} token with a {kb[0]} {kind} key", f"{k}, {t}", "let _ = t.verify(k, &nv());", same_v and purpose == "Public" and kind == "Public")
                    add("alias-decrypt", f"decrypt() a {b[0]} {purpose} token with a {kb[0]} {kind} key", f"{k}, {t}", "let _ = t.decrypt(k, &nv());", same_v and purpose == "Local" and kind == "Local")
                    add("alias-sign-aad", f"sign_with_aad() {purpose}/{kind}", f"{k}, {u}", "let _ = u.sign_with_aad(k, b\"a\");", same_v and purpose == "Public" and kind == "Secret")
                    add("alias-decrypt-aad", f"decrypt_with_aad() {purpose}/{kind}", f"{k}, {t}", "let _ = t.decrypt_with_aad(k, b\"a\", &nv());", same_v and purpose == "Local" and kind == "Local")
        # --- wrapping
        for kind in KINDS:
            for wkind in KINDS:
                for wb in (b, foreign):
                    ok = kind in ("Local", "Secret") and wkind == "Local" and wb[0] == b[0]
                    add("wrap-pie", f"wrap a {b[0]} {kind} key with a {wb[0]} {wkind} key", f"k: Key<{vty(b)}, {kind}>, w: &Key<{vty(wb)}, {wkind}>", "let _ = k.wrap_pie(w);", ok)
            add("password-wrap", f"password-wrap a {b[0]} {kind} key", f"k: Key<{vty(b)}, {kind}>", "let _ = k.password_wrap(b\"pw\");", kind in ("Local", "Secret"))
            # key sealing (PKE)
            for kb in (b, foreign):
                same_v = kb[0] == b[0]
                add("seal-key", f"seal a {b[0]} local key to a {kb[0]} {kind} key", f"k: &Key<{vty(kb)}, {kind}>, lk: Key<{vty(b)}, Local>", "let _ = lk.seal(k);", same_v and kind == "PkePublic")
                add("unseal-key", f"unseal a {b[0]} sealed key with a {kb[0]} {kind} key", f"k: &Key<{vty(kb)}, {kind}>, s: SealedKey<{vty(b)}>", "let _ = s.unseal(k);", same_v and kind == "PkeSecret")
            add("seal-nonlocal-key", f"seal a {b[0]} {kind} key (only local keys can be sealed)", f"k: Key<{vty(b)}, {kind}>, p: &Key<{vty(b)}, PkePublic>", "let _ = k.seal(p);", kind == "Local")
            add("unwrap-pie-with", f"unwrap a PIE-wrapped {b[0]} secret key with a {kind} key", f"k: &Key<{vty(b)}, {kind}>, w: PieWrappedKey<{vty(b)}, Secret>", "let _ = w.unwrap(k);", kind == "Local")
            # --- printing / serialising key material
            kk = f"k: &Key<{vty(b)}, {kind}>"
            add("key-display", f"format a {b[0]} {kind} key with Display", kk, "let _ = format!(\"{}\", k);", kind == "Public")
            add("key-to-string", f"to_string() a {b[0]} {kind} key", kk, "let _ = k.to_string();", kind == "Public")
            add("key-debug", f"format a {b[0]} {kind} key with Debug", kk, "let _ = format!(\"{:?}\", k);", False)
            add("key-serde", f"serde-serialise a {b[0]} {kind} key", kk, "let _ = serde_json::to_string(k);", False)
            add("key-field", f"read the inner field of a {b[0]} {kind} key", kk, "let _ = &k.0;", False)
            add("key-expose", f"expose_key() of a {b[0]} {kind} key (the explicit way)", kk, "let _ = k.expose_key().to_string();", True)
            add("key-as-bytes", f"AsRef<[u8]> on a {b[0]} {kind} key", kk, "let _: &[u8] = k.as_ref();", False)
            add("key-eq", f"compare {b[0]} {kind} keys with ==", f"{kk}, k2: &Key<{vty(b)}, {kind}>", "let _ = k == k2;", False)
            add("key-id", f"id() of a {b[0]} {kind} key", kk, "let _ = k.id().to_string();", True)
            # no trait through which key material could leak or be compared / hashed / copied implicitly
            for tname, bound in FORBIDDEN_KEY_TRAITS:
                ok = (tname in ("Display", "ToString") and kind == "Public") or (tname == "Clone")
                add(f"key-trait-{tname}", f"{b[0]} {kind} key used where `{bound}` is required", kk, f"needs::<Key<{vty(b)}, {kind}>, dyn Probe{tname}>(k);" if False else f"fn needs<T: {bound}>(_: &T) {{}} needs(k);", ok)
        # (sealed marker traits: see the `sealed-trait-name` class after the loop)
        # --- secret key material cannot travel inside a token: no secret kind of key is a footer or a payload
        # (public kinds are left without a verdict: carrying a public key would leak nothing)
        for kind in ("Local", "Secret", "PkeSecret"):
            kk = f"k: Key<{vty(b)}, {kind}>"
            for tname, bound in [("Footer", "paseto_core::encodings::Footer"), ("Payload", "paseto_core::encodings::Payload")]:
                add("key-in-token", f"{b[0]} {kind} key used where `{bound}` is required", kk, f"fn needs<T: {bound}>(_: T) {{}} needs(k);", False)
                add("key-in-token", f"reference to a {b[0]} {kind} key used where `{bound}` is required", f"k: &Key<{vty(b)}, {kind}>", f"fn needs<T: {bound}>(_: T) {{}} needs(k);", False)
            for purpose in PURPOSES:
                s_kind = SEALING[purpose]
                add("key-in-token", f"seal a {b[0]} {purpose} token whose footer is a {kind} key", f"{kk}, s: &Key<{vty(b)}, {s_kind}>, u: UnsealedToken<{vty(b)}, {purpose}, M>", "let _ = u.with_footer(k).seal(s, &[]);", False)
                add("key-in-token", f"seal a {b[0]} {purpose} token whose claims are a {kind} key", f"{kk}, s: &Key<{vty(b)}, {s_kind}>", f"let _ = UnsealedToken::<{vty(b)}, {purpose}, _>::new(k).seal(s, &[]);", False)
        for purpose in PURPOSES:
            # control: the same chains with a byte footer / M claims compile
            s_kind = SEALING[purpose]
            add("key-in-token", f"control: seal a {b[0]} {purpose} token with a byte footer", f"s: &Key<{vty(b)}, {s_kind}>, u: UnsealedToken<{vty(b)}, {purpose}, M>", "let _ = u.with_footer(b\"kid\".to_vec()).seal(s, &[]);", True)
        # --- unsealed (plaintext) tokens cannot be serialised; sealed ones can
        for purpose in PURPOSES:
            u = f"u: &UnsealedToken<{vty(b)}, {purpose}, M>"
            t = f"t: &SealedToken<{vty(b)}, {purpose}, M>"
            add("unsealed-display", f"Display an unsealed {b[0]} {purpose} token", u, "let _ = format!(\"{}\", u);", False)
            add("unsealed-to-string", f"to_string() an unsealed {b[0]} {purpose} token", u, "let _ = u.to_string();", False)
            add("unsealed-serde", f"serde-serialise an unsealed {b[0]} {purpose} token", u, "let _ = serde_json::to_string(u);", False)
            add("unsealed-claims", f"read claims of an unsealed {b[0]} {purpose} token", u, "let _ = &u.claims.0;", True)
            for tname, bound in [("Display", "std::fmt::Display"), ("Serialize", "serde::Serialize"), ("ToString", "std::string::ToString")]:
                add(f"unsealed-trait-{tname}", f"unsealed {b[0]} {purpose} token used where `{bound}` is required", u, f"fn needs<T: {bound}>(_: &T) {{}} needs(u);", False)
            # ... not even by standing in for its claims (Deref / deref coercion / method auto-deref)
            us = f"u: &UnsealedToken<{vty(b)}, {purpose}, MS>"
            add("unsealed-deref", f"unsealed {b[0]} {purpose} token used where `std::ops::Deref` is required", u, "fn needs<T: std::ops::Deref>(_: &T) {} needs(u);", False)
            add("unsealed-deref", f"coerce an unsealed {b[0]} {purpose} token to its claims", u, "let _: &M = u;", False)
            add("unsealed-deref", f"to_string() an unsealed {b[0]} {purpose} token whose claims are Display", us, "let _ = u.to_string();", False)
            add("unsealed-deref", f"method-call serialise an unsealed {b[0]} {purpose} token whose claims are Serialize", us, "{ use serde::Serialize; let _ = u.serialize(serde_json::value::Serializer); }", False)
            add("unsealed-deref", f"pass an unsealed {b[0]} {purpose} token where its Serialize claims are expected", us, "let _ = serde_json::to_string::<MS>(u);", False)
            add("unsealed-claims", f"read the Display / Serialize claims of an unsealed {b[0]} {purpose} token explicitly", us, "let _ = (u.claims.to_string(), serde_json::to_string(&u.claims));", True)
            add("sealed-display", f"Display a sealed {b[0]} {purpose} token", t, "let _ = format!(\"{}\", t);", True)
            add("sealed-serde", f"serde-serialise a sealed {b[0]} {purpose} token", t, "let _ = serde_json::to_string(t);", True)
            # C12 accessor clause: the footer of a not-yet-verified token only through unverified_footer()
            add("sealed-token-field", f"read .footer of a sealed {b[0]} {purpose} token", t, "let _ = &t.footer;", False)
            add("sealed-token-field", f"read .payload of a sealed {b[0]} {purpose} token", t, "let _ = &t.payload;", False)
            add("sealed-token-field", f"read .encoded_footer of a sealed {b[0]} {purpose} token", t, "let _ = &t.encoded_footer;", False)
            add("sealed-token-field", f"read .claims of a sealed {b[0]} {purpose} token", t, "let _ = &t.claims;", False)
            add("sealed-unverified-footer", f"unverified_footer() of a sealed {b[0]} {purpose} token", t, "let _ = t.unverified_footer();", True)
            # ... nor through a formatting / conversion trait (only Display / Serialize of the token text itself)
            add("sealed-token-debug", f"format a sealed {b[0]} {purpose} token with Debug", t, "let _ = format!(\"{:?}\", t);", False)
            for tname, bound in SEALED_TOKEN_LEAK_TRAITS:
                add(f"sealed-token-trait-{tname}", f"sealed {b[0]} {purpose} token used where `{bound}` is required", t, f"fn needs<T: {bound}>(_: &T) {{}} needs(t);", False)
            # a sealed token of one purpose is not one of the other
            other = "Public" if purpose == "Local" else "Local"
            add("token-purpose-confusion", f"pass a {purpose} token where a {other} token is expected", f"t: SealedToken<{vty(b)}, {purpose}, M>", f"let _: SealedToken<{vty(b)}, {other}, M> = t;", False)
        # keys of one kind are not keys of another
        for a_, b_ in itertools.permutations(KINDS, 2):
            add("key-kind-confusion", f"use a {b[0]} {a_} key as a {b_} key", f"k: Key<{vty(b)}, {a_}>", f"let _: Key<{vty(b)}, {b_}> = k;", False)
        add("key-version-confusion", f"use a {b[0]} local key as a {foreign[0]} local key", f"k: Key<{vty(b)}, Local>", f"let _: Key<{vty(foreign)}, Local> = k;", False)
    for i, p in enumerate(progs):
        p.pid = i
    return progs

CARGO = '''[package]
name = "{name}"
version = "0.0.0"
edition = "2024"
publish = false
[workspace]
[dependencies]
paseto-core = {{ path = "/repo/paseto-core", features = ["serde"] }}
paseto-v1 = {{ path = "/repo/paseto-v1" }}
paseto-v2 = {{ path = "/repo/paseto-v2" }}
paseto-v3 = {{ path = "/repo/paseto-v3" }}
paseto-v3-aws-lc = {{ path = "/repo/paseto-v3-aws-lc" }}
paseto-v4 = {{ path = "/repo/paseto-v4" }}
paseto-v4-sodium = {{ path = "/repo/paseto-v4-sodium" }}
serde_json = "1"
serde = "1"
'''

# the well-typed counterparts must also compile where only part of a back end is built: one crate per
# feature of the four feature-gated back ends, holding what that feature alone offers
REDUCED = {
    "verifying": [("display a public key", "k: &Key<{V}, Public>", "let _ = format!(\"{}\", k);"),
                  ("to_string() a public key", "k: &Key<{V}, Public>", "let _ = k.to_string();"),
                  ("parse a public key text", "s: &str", "let _ = s.parse::<Key<{V}, Public>>();"),
                  ("serde-serialise a signed token", "t: &SealedToken<{V}, Public, M>", "let _ = serde_json::to_string(t);"),
                  ("verify a token", "k: &Key<{V}, Public>, t: SealedToken<{V}, Public, M>", "let _ = t.unseal(k, &[], &nv());"),
                  ("verify() a token", "k: &Key<{V}, Public>, t: SealedToken<{V}, Public, M>", "let _ = t.verify(k, &nv());")],
    "decrypting": [("decrypt a token", "k: &Key<{V}, Local>, t: SealedToken<{V}, Local, M>", "let _ = t.unseal(k, &[], &nv());"),
                   ("decrypt() a token", "k: &Key<{V}, Local>, t: SealedToken<{V}, Local, M>", "let _ = t.decrypt(k, &nv());"),
                   ("expose a local key", "k: &Key<{V}, Local>", "let _ = k.expose_key().to_string();"),
                   ("display an encrypted token", "t: &SealedToken<{V}, Local, M>", "let _ = t.to_string();")],
    "signing": [("sign a token", "k: &Key<{V}, Secret>, u: UnsealedToken<{V}, Public, M>", "let _ = u.seal(k, &[]);"),
                ("sign() a token", "k: &Key<{V}, Secret>, u: UnsealedToken<{V}, Public, M>", "let _ = u.sign(k);"),
                ("derive and display the public key", "k: &Key<{V}, Secret>", "let _ = k.public_key().to_string();"),
                ("expose a secret key", "k: &Key<{V}, Secret>", "let _ = k.expose_key().to_string();")],
    "encrypting": [("encrypt a token", "k: &Key<{V}, Local>, u: UnsealedToken<{V}, Local, M>", "let _ = u.seal(k, &[]);"),
                   ("encrypt() a token", "k: &Key<{V}, Local>, u: UnsealedToken<{V}, Local, M>", "let _ = u.encrypt(k);")],
}
GATED = [b for b in BACKENDS if b[0] in ("paseto-v1", "paseto-v2", "paseto-v3", "paseto-v4")]

CARGO_REDUCED = '''[package]
name = "{name}"
version = "0.0.0"
edition = "2024"
publish = false
[workspace]
[dependencies]
paseto-core = {{ path = "/repo/paseto-core", features = ["serde"] }}
{deps}
serde_json = "1"
serde = "1"
'''

def reduced_twins(sub, report, harness):
    """Returns the number of programs compiled."""
    n = 0
    for feat, entries in REDUCED.items():
        progs = []
        for b in GATED:
            for desc, params, stmt in entries:
                p = Prog("reduced-build-twin", f"{desc} ({b[0]} built with only `{feat}`)", params.replace("{V}", vty(b)), stmt.replace("{V}", vty(b)), True)
                p.pid = 900000 + n
                n += 1
                progs.append(p)
        d = os.path.join(TARGET, "c18", f"reduced-{feat}{sub}")
        os.makedirs(os.path.join(d, "src"), exist_ok=True)
        deps = "\n".join(f'{b[0]} = {{ path = "/repo/{b[0]}", default-features = false, features = ["{feat}"] }}' for b in GATED)
        open(os.path.join(d, "Cargo.toml"), "w").write(CARGO_REDUCED.format(name=f"c18-reduced-{feat}", deps=deps))
        shutil.copy(os.path.join(REPO, "Cargo.lock"), os.path.join(d, "Cargo.lock"))
        lines = PRELUDE.split("\n")
        mark = {}
        for p in progs:
            lines.append(f"// P{p.pid} [{p.cls}] {p.desc}")
            lines.append(f"pub fn p{p.pid}({p.params}) {{")
            lines.append(f"    {p.stmt}")
            mark[len(lines)] = p
            lines.append("}")
        open(os.path.join(d, "src", "main.rs"), "w").write("\n".join(lines) + "\n")
        rc, errors, dep, stderr = check(d, target=f"target-reduced-{feat}")
        if dep:
            harness.append(f"reduced build `{feat}`: cargo check failed outside the generated programs: {dep[:200]}")
            continue
        seen = set()
        for line, code, msg in errors:
            p = next((mark[l] for l in (line, line + 1, line - 1) if l in mark), None)
            if p is None:
                harness.append(f"reduced build `{feat}`: error outside a marked line ({line}): {code} {msg[:100]}")
            elif p.pid not in seen:
                seen.add(p.pid)
                report(f"C18/{p.cls}/correct-program-rejected", f"well-typed program does not compile: {p.desc}: `{p.stmt}` -> {code} {msg[:120]}", {"class": p.cls, "description": p.desc, "stmt": p.stmt, "params": p.params, "expect": "compiles"})
    return n

def emit(dirname, name, progs):
    d = os.path.join(TARGET, "c18", dirname)
    os.makedirs(os.path.join(d, "src"), exist_ok=True)
    open(os.path.join(d, "Cargo.toml"), "w").write(CARGO.format(name=name))
    shutil.copy(os.path.join(REPO, "Cargo.lock"), os.path.join(d, "Cargo.lock"))
    lines = PRELUDE.split("\n")
    mark = {}
    for p in progs:
        lines.append(f"// P{p.pid} [{p.cls}] {p.desc}")
        lines.append(f"pub fn p{p.pid}({p.params}) {{")
        lines.append(f"    {p.stmt}")
        mark[len(lines)] = p.pid   # 1-based line number of the statement
        lines.append("}")
    open(os.path.join(d, "src", "main.rs"), "w").write("\n".join(lines) + "\n")
    return d, mark

def check(d, target="target"):
    r = run(["cargo", "check", "--offline", "--message-format=json", "--target-dir", os.path.join(TARGET, "c18", target)], cwd=d)
    errors = []
    dep_failure = None
    for line in r.stdout.splitlines():
        try:
            m = json.loads(line)
        except Exception:
            continue
        if m.get("reason") == "compiler-message":
            msg = m["message"]
            if msg.get("level") != "error":
                continue
            target = m.get("target", {}).get("name", "")
            code = (msg.get("code") or {}).get("code")
            spans = [s for s in msg.get("spans", []) if s.get("is_primary")]
            if not target.startswith("c18"):
                dep_failure = f"{target}: {msg.get('message')}"
                continue
            if spans:
                errors.append((spans[0]["line_start"], code, msg.get("message", "")))
            elif "aborting due to" not in msg.get("message", ""):
                errors.append((0, code, msg.get("message", "")))
    return r.returncode, errors, dep_failure, r.stderr

def main():
    t0 = time.time()
    args = sys.argv[1:]
    tier = "thorough" if args and args[0] == "thorough" else "quick"
    replay = None
    if args and args[0] == "--replay":
        replay = json.load(open(args[1]))["case"]
    progs = catalogue()
    # `--only <class-prefix> --as <Cxx>`: run a slice of the catalogue on behalf of another property
    only = args[args.index("--only") + 1] if "--only" in args else None
    as_prop = args[args.index("--as") + 1] if "--as" in args else "C18"
    sub = f"-{as_prop.lower()}" if as_prop != "C18" else ""
    if replay is not None and replay.get("as"):
        as_prop = replay["as"]; only = replay.get("only"); sub = f"-{as_prop.lower()}"
    if only:
        progs = [p for p in progs if p.cls.startswith(only)]
    if replay is not None:
        progs = [p for p in progs if p.cls == replay["class"] and p.desc == replay["description"]]
        if not progs and replay["class"] != "reduced-build-twin":
            print("INCONCLUSIVE replay: no such program in the catalogue"); sys.exit(2)
    known = load_known()
    acc = [p for p in progs if p.expect]
    rej = [p for p in progs if not p.expect]
    violations, known_hits, harness = [], {}, []

    def report(sig, what, case):
        if sig in known:
            n, w = known_hits.get(sig, (0, known[sig])); known_hits[sig] = (n + 1, w); return
        if sum(1 for v in violations if v[1] == sig) >= 3:
            return
        case = dict(case, **({"as": as_prop, "only": only} if as_prop != "C18" else {}))
        violations.append((write_replay(as_prop, sig.replace("C18/", as_prop + "/", 1), what, case), sig.replace("C18/", as_prop + "/", 1), what))

    samples = []
    by_id = {p.pid: p for p in progs}
    # crate 1: everything predicted to compile
    d, mark = emit("accept" + sub, "c18-accept", acc)
    rc, errors, dep, stderr = check(d)
    if dep or (rc != 0 and not errors):
        print(f"INCONCLUSIVE cargo check failed outside the generated programs: {dep or stderr[-400:]}"); sys.exit(2)
    bad_lines = {}
    for line, code, msg in errors:
        # attribute the error to the program whose body contains the line
        pid = next((mark[l] for l in (line, line + 1, line - 1) if l in mark), None)
        bad_lines.setdefault(pid, []).append((code, msg))
    for pid, errs in bad_lines.items():
        if pid is None:
            harness.append(f"unattributed error in accept crate: {errs[0]}"); continue
        p = by_id[pid]
        report(f"C18/{p.cls}/correct-program-rejected", f"well-typed program does not compile: {p.desc}: `{p.stmt}` -> {errs[0][0]} {errs[0][1][:120]}", {"class": p.cls, "description": p.desc, "stmt": p.stmt, "params": p.params, "expect": "compiles"})
    # crate 3 (first, it is small): programs that must fail at NAME RESOLUTION (private / missing paths);
    # kept apart because resolution errors can end a compilation before the type errors of crate 2
    names = [p for p in rej if p.cls.startswith("closed-set-")]
    rej = [p for p in rej if not p.cls.startswith("closed-set-")]
    if names:
        # one crate per program: an unresolved path ends the compilation before the privacy errors
        # of its neighbours would be reported
        hit = {}
        for i, p in enumerate(names):
            d, mark = emit(f"names{sub}-{i}", "c18-names", [p])
            rc, errors, dep, stderr = check(d)
            if dep:
                print(f"INCONCLUSIVE cargo check failed outside the generated programs: {dep}"); sys.exit(2)
            for line, code, msg in errors:
                pid = next((mark[l] for l in (line, line + 1, line - 1) if l in mark), None)
                if pid is not None:
                    hit.setdefault(pid, []).append(code)
        for p in names:
            codes = hit.get(p.pid)
            if not codes:
                report(f"C18/{p.cls}/misuse-compiles", f"forbidden program compiles: {p.desc}: `{p.stmt}`", {"class": p.cls, "description": p.desc, "stmt": p.stmt, "params": p.params, "expect": "rejected"})
            elif not any(c in {"E0603", "E0432", "E0433", "E0405", "E0412", "E0277", "E0407", "E0437", "E0438", "E0046", "E0117"} for c in codes):
                harness.append(f"P{p.pid} {p.cls}: rejected with unexpected code(s) {codes} (probe defect, not a pass)")
    n_reduced = 0
    if only is None and (replay is None or replay.get("class") == "reduced-build-twin"):
        n_reduced = reduced_twins(sub, report, harness)
    # crate 2: everything predicted to be rejected
    d, mark = emit("reject" + sub, "c18-reject", rej)
    rc, errors, dep, stderr = check(d)
    if dep:
        print(f"INCONCLUSIVE cargo check failed outside the generated programs: {dep}"); sys.exit(2)
    hit = {}
    for line, code, msg in errors:
        pid = next((mark[l] for l in (line, line + 1, line - 1) if l in mark), None)
        if pid is None:
            harness.append(f"error outside a marked line ({line}): {code} {msg[:100]}"); continue
        hit.setdefault(pid, []).append(code)
    for p in rej:
        codes = hit.get(p.pid)
        if not codes:
            report(f"C18/{p.cls}/misuse-compiles", f"forbidden program compiles: {p.desc}: `{p.stmt}` with ({p.params})", {"class": p.cls, "description": p.desc, "stmt": p.stmt, "params": p.params, "expect": "rejected"})
        elif not any(c in ALLOWED_CODES for c in codes):
            harness.append(f"P{p.pid} {p.cls}: rejected with unexpected code(s) {codes} (probe defect, not a pass)")
        if len(samples) < 6 and codes and p.pid % 97 == 0:
            samples.append({"program": f"fn p({p.params}) {{ {p.stmt} }}", "model": "rejected", "rustc": codes[0]})
    for p in acc[:: max(1, len(acc) // 5)][:5]:
        samples.append({"program": f"fn p({p.params}) {{ {p.stmt} }}", "model": "compiles", "rustc": "ok" if p.pid not in bad_lines else "error"})
    rej = rej + names
    classes = {}
    for p in progs:
        classes[f"{p.cls}:{'accept' if p.expect else 'reject'}"] = classes.get(f"{p.cls}:{'accept' if p.expect else 'reject'}", 0) + 1
    if as_prop != "C18":
        # merge into the other property's evidence file (written just before by its own run)
        pth = os.path.join(VERIF, "evidence", f"{as_prop}.json")
        try:
            e = json.load(open(pth))
            c = e["coverage"]
            c["compile_probes"] = {"engine": "generated programs decided by rustc (progs/c18.py --only %s)" % only, "programs": len(progs), "predicted_reject": len(rej), "predicted_compile": len(acc),
                                   "classes": sorted(set(p.cls for p in progs)), "harness_errors": harness}
            c["evaluations"] = c.get("evaluations", 0) + len(progs)
            c["distinct_nontrivial"] = c.get("distinct_nontrivial", 0) + len(rej)
            e["violations"] = e.get("violations", 0) + len(violations)
            json.dump(e, open(pth, "w"), indent=1)
        except Exception as ex:
            print("note: evidence not merged:", ex)
        if harness and not violations:
            for h in harness[:10]:
                print(f"INCONCLUSIVE harness error: {h}")
            sys.exit(2)
        finish(as_prop, tier, violations, known_hits, f"{as_prop} {tier} compile probes: {len(progs)} programs ({len(rej)} predicted rejected, {len(acc)} predicted to compile), {len(violations)} violation(s), {time.time()-t0:.1f}s")
    write_evidence("C18", tier, "exploration", {
        "evaluations": len(progs) + n_reduced,
        "distinct_nontrivial": n_reduced + len(rej) + sum(1 for p in acc if p.cls in ("seal", "unseal", "wrap-pie", "seal-key", "unseal-key")),
        "rule": "generated catalogue: product of (back-end crate of the key) x (back-end crate of the token) x purpose x key kind {Local, Public, Secret, PkePublic, PkeSecret} x operation {seal, unseal, sign/encrypt/verify/decrypt aliases (+_with_aad), wrap_pie (by kind of wrapped and wrapping key), password_wrap, seal-key, unseal-key, Display / to_string / Debug / serde / field access / AsRef / == on keys, every key kind against a list of trait bounds through which key material could leak or be compared implicitly (Display, ToString, Debug, LowerHex, Serialize, Hash, PartialEq, PartialOrd, AsRef<[u8]>, Borrow<[u8]>, Deref<Target=[u8]>, Copy, Default; Clone allowed), Display / to_string / serde on unsealed tokens (also through Deref, deref coercion and method auto-deref onto printable claims), private fields of sealed tokens, Debug and conversion traits on sealed tokens, purpose / kind / version coercions, secret keys as footer / claims, naming or implementing the sealing supertrait under ten candidate paths and implementing KeyType / Purpose downstream}; the well-typed counterparts of each operation are additionally compiled against paseto-v1..v4 built with only the one feature that offers them (verifying / decrypting / signing / encrypting); each program is one function whose marked statement carries the (mis)use; a type model written from the property text predicts compile / reject; rustc is the ground truth: every predicted-reject program must have an error on its marked line (codes E0277/E0308/E0599/E0616/E0609/E0369), every predicted-compile program (the well-typed twins) must compile. Non-trivial iff predicted reject, or a well-typed twin of a key/token operation; distinct by program text",
        "samples": samples,
        "class_histogram": classes,
        "programs": len(progs) + n_reduced, "predicted_reject": len(rej), "predicted_compile": len(acc) + n_reduced, "compiled_against_single_feature_builds": n_reduced,
        "exhaustive": True,
        "harness_errors": harness,
    }, ["rustc's type checker is the ground truth", "programs are functions with the misused values as parameters (no constructors needed), all in two crates so that one cargo check decides each class"], time.time() - t0, len(violations))
    if harness and not violations:
        for h in harness[:10]:
            print(f"INCONCLUSIVE harness error: {h}")
        print(f"C18 {tier}: {len(progs)} programs"); sys.exit(2)
    finish("C18", tier, violations, known_hits, f"C18 {tier}: {len(progs) + n_reduced} programs ({len(rej)} predicted rejected, {len(acc) + n_reduced} predicted to compile, of which {n_reduced} against single-feature builds), {len(violations)} violation(s), {time.time()-t0:.1f}s")

if __name__ == "__main__":
    main()
