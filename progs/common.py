"""Shared helpers for the program-generating checks (C18, C19)."""
import json, os, subprocess, sys, time, hashlib

VERIF = os.path.dirname(os.path.dirname(os.path.abspath(__file__)))
REPO = "/repo"
TARGET = os.path.join(VERIF, "target")

def seed():
    try:
        return int(os.environ.get("VERIF_SEED", "20261002"))
    except ValueError:
        return 20261002

def load_known():
    p = os.path.join(VERIF, "known_findings.json")
    try:
        d = json.load(open(p))
    except Exception:
        return {}
    return {f["signature"]: f.get("what", "") for f in d.get("findings", []) if f.get("status") == "known"}

def write_evidence(pid, tier, level, coverage, assumptions, wall, violations):
    os.makedirs(os.path.join(VERIF, "evidence"), exist_ok=True)
    ev = {
        "property_id": pid, "tier": tier, "seed": seed(), "level": level,
        "coverage": coverage, "assumptions": assumptions,
        "wall_s": round(wall, 2), "violations": violations,
    }
    json.dump(ev, open(os.path.join(VERIF, "evidence", f"{pid}.json"), "w"), indent=1)

def write_replay(pid, sig, what, case):
    d = os.path.join(VERIF, "replays", pid)
    os.makedirs(d, exist_ok=True)
    body = {"property": pid, "signature": sig, "what": what, "case": case}
    h = hashlib.sha1(json.dumps(body, sort_keys=True).encode()).hexdigest()[:16]
    safe = "".join(c if c.isalnum() or c == "-" else "_" for c in sig)
    path = os.path.join(d, f"{safe}-{h}.json")
    json.dump(body, open(path, "w"), indent=1)
    return path

def cargo_env():
    e = dict(os.environ)
    e["CARGO_NET_OFFLINE"] = "true"
    e.pop("RUSTFLAGS", None)
    return e

def run(cmd, cwd=None, timeout=3000):
    return subprocess.run(cmd, cwd=cwd, env=cargo_env(), stdout=subprocess.PIPE, stderr=subprocess.PIPE, text=True, timeout=timeout)

def finish(pid, tier, violations, known_hits, summary):
    for sig, (n, what) in sorted(known_hits.items()):
        print(f"KNOWN-FINDING: property={pid} {what} [{sig}; {n} hit(s) this run]")
    for path, sig, what in violations:
        print(f"VIOLATION property={pid} replay={path}")
        print(f"  signature: {sig}")
        print(f"  what: {what}")
    print(summary)
    sys.exit(1 if violations else 0)
