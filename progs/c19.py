#!/usr/bin/env python3
"""C19 - every cargo feature subset builds; reduced builds behave like the full one.

(1) enumerate every subset of each RustCrypto crate's feature flags, collapse to distinct
    closures under the [features] implication graph read from Cargo.toml, and `cargo check`
    each closure (plus paseto-core +-serde, paseto-json +-claims);
(2) for a seeded choice of closures (all of them in the thorough tier) generate a probe crate
    that depends on the reduced build, replays fixtures produced by the FULL build (harness
    binary `pv c19-fixtures`) through every operation the reduced build offers, and prints what
    it produces; the full build and the reference model must accept that output (`pv c19-accept`).
"""
import itertools, json, os, random, shutil, subprocess, sys, time, tomllib, hashlib
from concurrent.futures import ThreadPoolExecutor
sys.path.insert(0, os.path.dirname(os.path.abspath(__file__)))
from common import *

CRATES = {"paseto-v1": 1, "paseto-v2": 2, "paseto-v3": 3, "paseto-v4": 4}
PV = os.path.join(TARGET, "harness", "release", "pv")

def feature_table(crate):
    t = tomllib.load(open(os.path.join(REPO, crate, "Cargo.toml"), "rb"))
    return t.get("features", {})

def closure(feats, table):
    out = set()
    todo = list(feats)
    while todo:
        f = todo.pop()
        if f in out:
            continue
        out.add(f)
        for item in table.get(f, []):
            if item in table:
                todo.append(item)
    return frozenset(out)

def closures(table):
    names = [f for f in table if f != "default"]
    seen = {}
    for r in range(len(names) + 1):
        for sub in itertools.combinations(names, r):
            c = closure(sub, table)
            if c not in seen:
                seen[c] = sub      # the smallest generating set first (r increases)
    return seen

def check_closure(crate, feats, tdir):
    cmd = ["cargo", "check", "--offline", "--quiet", "--manifest-path", os.path.join(REPO, crate, "Cargo.toml"),
           "--no-default-features", "--target-dir", tdir]
    if feats:
        cmd += ["--features", ",".join(sorted(feats))]
    r = run(cmd, timeout=1200)
    return r.returncode, r.stderr

# ---------------------------------------------------------------------------
# probe generation

PROBE_HEAD = '''#![allow(unused, dead_code)]
use paseto_core::encodings::{{Payload, WriteBytes}};
use paseto_core::key::Key;
use paseto_core::paserk::KeyText;
use paseto_core::validation::NoValidation;
use paseto_core::version::*;
type V = {crate_ident}::core::V{n};
pub struct M(pub Vec<u8>);
impl Payload for M {{
    const SUFFIX: &'static str = "";
    fn encode(self, mut w: impl WriteBytes) -> Result<(), Box<dyn std::error::Error + Send + Sync>> {{ w.write(&self.0); Ok(()) }}
    fn decode(p: &[u8]) -> Result<Self, Box<dyn std::error::Error + Send + Sync>> {{ Ok(M(p.to_vec())) }}
}}
fn hexd(s: &str) -> Vec<u8> {{ (0..s.len() / 2).map(|i| u8::from_str_radix(&s[2 * i..2 * i + 2], 16).unwrap()).collect() }}
fn key<K: paseto_core::key::KeyType>(hexs: &str) -> Key<V, K> where V: paseto_core::key::HasKey<K> {{
    KeyText::<V, K>::from_raw_bytes(&hexd(hexs)).try_into().expect("fixture key decodes in the reduced build")
}}
fn report(op: &str, ok: bool, detail: &str) {{ println!("{{}} {{}} {{}}", if ok {{ "PASS" }} else {{ "FAIL" }}, op, detail); }}
const MSG: &str = "{msg}";
const FOOTER: &str = "{footer}";
fn main() {{
'''

def probe_source(crate, n, feats, fx):
    ident = crate.replace("-", "_")
    s = PROBE_HEAD.format(crate_ident=ident, n=n, msg=fx["msg"], footer=fx["footer"])
    ops = []
    f = feats
    if "decrypting" in f:
        ops.append("decrypt")
        s += f'''    {{
        let k = key::<Local>("{fx["local_key"]}");
        report("local-key-text", k.expose_key().to_string() == "{fx["local_text"]}", &k.expose_key().to_string());
        report("local-key-parse", "{fx["local_text"]}".parse::<Key<V, Local>>().map(|p| p.expose_key().as_raw_bytes() == k.expose_key().as_raw_bytes()).unwrap_or(false), "full-build key text parses in the reduced build");
        let t: paseto_core::EncryptedToken<V, M, Vec<u8>> = "{fx["token_local"]}".parse().expect("full-build token parses");
        match t.decrypt(&k, &NoValidation::dangerous_no_validation()) {{
            Ok(u) => report("decrypt", u.claims.0 == hexd(MSG) && u.footer == hexd(FOOTER), "claims/footer compared"),
            Err(e) => report("decrypt", false, &format!("{{e}}")),
        }}
    }}
'''
    if "encrypting" in f:
        ops.append("encrypt")
        s += f'''    {{
        let k = key::<Local>("{fx["local_key"]}");
        let t = paseto_core::UnencryptedToken::<V, M>::new(M(hexd(MSG))).with_footer(hexd(FOOTER)).encrypt(&k).expect("encrypt");
        println!("OUT TOKEN_LOCAL {{}}", t);
    }}
'''
    if "verifying" in f:
        ops.append("verify")
        s += f'''    {{
        let k = key::<Public>("{fx["public_key"]}");
        let t: paseto_core::SignedToken<V, M, Vec<u8>> = "{fx["token_public"]}".parse().expect("full-build token parses");
        match t.verify(&k, &NoValidation::dangerous_no_validation()) {{
            Ok(u) => report("verify", u.claims.0 == hexd(MSG) && u.footer == hexd(FOOTER), "claims/footer compared"),
            Err(e) => report("verify", false, &format!("{{e}}")),
        }}
        report("public-key-text", k.to_string() == "{fx["public_text"]}", &k.to_string());
        report("public-key-parse", "{fx["public_text"]}".parse::<Key<V, Public>>().map(|p| p.to_string() == "{fx["public_text"]}").unwrap_or(false), "full-build key text parses in the reduced build");
    }}
'''
    if "signing" in f:
        ops.append("sign")
        s += f'''    {{
        let k = key::<Secret>("{fx["secret_key"]}");
        let t = paseto_core::UnsignedToken::<V, M>::new(M(hexd(MSG))).with_footer(hexd(FOOTER)).sign(&k).expect("sign");
        println!("OUT TOKEN_PUBLIC {{}}", t);
        report("public_key()", k.public_key().expose_key().as_raw_bytes() == &hexd("{fx["public_key"]}")[..], "");
        report("secret-key-text", k.expose_key().to_string() == "{fx["secret_text"]}", "secret key text differs from the full build's");
    }}
'''
    if "id" in f:
        if "decrypting" in f:
            ops.append("lid")
            s += f'    println!("OUT LID {{}}", key::<Local>("{fx["local_key"]}").id());\n'
        if "verifying" in f:
            ops.append("pid")
            s += f'    println!("OUT PID {{}}", key::<Public>("{fx["public_key"]}").id());\n'
        if "signing" in f:
            ops.append("sid")
            s += f'    println!("OUT SID {{}}", key::<Secret>("{fx["secret_key"]}").id());\n'
    if "pie-wrap" in f:
        ops.append("pie")
        s += f'''    {{
        let wk = key::<Local>("{fx["wrapping_key"]}");
        let w: paseto_core::paserk::PieWrappedKey<V, Local> = "{fx["pie_local"]}".parse().expect("pie parses");
        match w.unwrap(&wk) {{
            Ok(k) => report("pie-unwrap", k.expose_key().as_raw_bytes() == &hexd("{fx["local_key"]}")[..], ""),
            Err(e) => report("pie-unwrap", false, &format!("{{e}}")),
        }}
        println!("OUT PIE {{}}", key::<Local>("{fx["local_key"]}").wrap_pie(&wk).expect("wrap_pie"));
    }}
'''
    if "pbkw" in f:
        ops.append("pbkw")
        s += f'''    {{
        let w: paseto_core::paserk::PasswordWrappedKey<V, Local> = "{fx["pw_local"]}".parse().expect("pw parses");
        let params = w.params().expect("params");
        match w.unwrap(&hexd("{fx["password"]}")) {{
            Ok(k) => report("pw-unwrap", k.expose_key().as_raw_bytes() == &hexd("{fx["local_key"]}")[..], ""),
            Err(e) => report("pw-unwrap", false, &format!("{{e}}")),
        }}
        println!("OUT PW {{}}", key::<Local>("{fx["local_key"]}").password_wrap_with_params(&hexd("{fx["password"]}"), &params).expect("password_wrap"));
    }}
'''
    if "pke" in f:
        ops.append("pke")
        s += f'''    {{
        let sk = key::<PkeSecret>("{fx["pke_secret"]}");
        let pk = key::<PkePublic>("{fx["pke_public"]}");
        let w: paseto_core::paserk::SealedKey<V> = "{fx["seal"]}".parse().expect("sealed key parses");
        match w.unseal(&sk) {{
            Ok(k) => report("unseal-key", k.expose_key().as_raw_bytes() == &hexd("{fx["local_key"]}")[..], ""),
            Err(e) => report("unseal-key", false, &format!("{{e}}")),
        }}
        println!("OUT SEAL {{}}", key::<Local>("{fx["local_key"]}").seal(&pk).expect("seal"));
    }}
'''
    # the verdict corpus: valid, foreign-built and corrupted inputs with the full build's verdict
    want = {"public": "verifying", "local": "decrypting", "pie": "pie-wrap", "pbkw": "pbkw", "seal": "pke"}
    kind_feat = {"public": "verifying", "local": "decrypting", "pie": "pie-wrap", "pw": "pbkw", "seal": "pke",
                 "key-local": "decrypting", "key-public": "verifying", "key-secret": "signing", "key-pkepublic": "pke", "key-pkesecret": "pke"}
    key_kind = {"key-local": "Local", "key-public": "Public", "key-secret": "Secret", "key-pkepublic": "PkePublic", "key-pkesecret": "PkeSecret"}
    for i, e in enumerate(fx.get("corpus", [])):
        if e["kind"].startswith("public-under-key:"):
            if "verifying" not in f:
                continue
            t = e["text"]
            kh = e["kind"].split(":", 1)[1]
            body = f'Key::<V, Public>::try_from(KeyText::<V, Public>::from_raw_bytes(&hexd("{kh}"))).and_then(|k| "{t}".parse::<paseto_core::SignedToken<V, M, Vec<u8>>>().and_then(|t| t.verify(&k, &NoValidation::dangerous_no_validation()))).map(|u| u.claims.0)'
            s += f'    match {body} {{ Ok(b) => println!("VERDICT {i} ok:{{}}", b.iter().map(|x| format!("{{x:02x}}")).collect::<String>()), Err(_) => println!("VERDICT {i} err") }}\n'
            continue
        if kind_feat[e["kind"]] not in f:
            continue
        t = e["text"].replace("\\", "\\\\").replace('"', '\\"')
        if e["kind"] == "public":
            body = f'"{t}".parse::<paseto_core::SignedToken<V, M, Vec<u8>>>().and_then(|t| t.verify(&key::<Public>("{fx["public_key"]}"), &NoValidation::dangerous_no_validation())).map(|u| u.claims.0)'
        elif e["kind"] == "local":
            body = f'"{t}".parse::<paseto_core::EncryptedToken<V, M, Vec<u8>>>().and_then(|t| t.decrypt(&key::<Local>("{fx["local_key"]}"), &NoValidation::dangerous_no_validation())).map(|u| u.claims.0)'
        elif e["kind"] in key_kind:
            body = f'"{t}".parse::<Key<V, {key_kind[e["kind"]]}>>().map(|k| k.expose_key().as_raw_bytes().to_vec())'
        elif e["kind"] == "pie":
            body = f'"{t}".parse::<paseto_core::paserk::PieWrappedKey<V, Local>>().and_then(|w| w.unwrap(&key::<Local>("{fx["wrapping_key"]}"))).map(|k| k.expose_key().as_raw_bytes().to_vec())'
        elif e["kind"] == "pw":
            body = f'"{t}".parse::<paseto_core::paserk::PasswordWrappedKey<V, Local>>().and_then(|w| w.unwrap(&hexd("{fx["password"]}"))).map(|k| k.expose_key().as_raw_bytes().to_vec())'
        else:
            body = f'"{t}".parse::<paseto_core::paserk::SealedKey<V>>().and_then(|w| w.unseal(&key::<PkeSecret>("{fx["pke_secret"]}"))).map(|k| k.expose_key().as_raw_bytes().to_vec())'
        s += f'    match {body} {{ Ok(b) => println!("VERDICT {i} ok:{{}}", b.iter().map(|x| format!("{{x:02x}}")).collect::<String>()), Err(_) => println!("VERDICT {i} err") }}\n'
    if any(kind_feat.get(e["kind"], "verifying") in f for e in fx.get("corpus", [])):
        ops.append("verdict-corpus")
    s += '    println!("DONE");\n}\n'
    return s, ops

PROBE_CARGO = '''[package]
name = "c19-probe"
version = "0.0.0"
edition = "2024"
publish = false
[workspace]
[dependencies]
paseto-core = {{ path = "/repo/paseto-core" }}
{crate} = {{ path = "/repo/{crate}", default-features = false, features = [{feats}] }}
[profile.dev]
opt-level = 1
debug = false
'''

def run_probe(crate, n, feats, fx, fx_path, idx):
    d = os.path.join(TARGET, "c19", f"probe-{crate}-{idx}")
    shutil.rmtree(d, ignore_errors=True)
    os.makedirs(os.path.join(d, "src"))
    open(os.path.join(d, "Cargo.toml"), "w").write(PROBE_CARGO.format(crate=crate, feats=", ".join(f'"{x}"' for x in sorted(feats))))
    shutil.copy(os.path.join(REPO, "Cargo.lock"), os.path.join(d, "Cargo.lock"))
    src, ops = probe_source(crate, n, feats, fx)
    open(os.path.join(d, "src", "main.rs"), "w").write(src)
    r = run(["cargo", "run", "--offline", "--quiet", "--target-dir", os.path.join(TARGET, "c19", f"ptarget-{crate}")], cwd=d, timeout=2400)
    res = {"ops": ops, "build_ok": r.returncode == 0 and "DONE" in r.stdout, "stdout": r.stdout, "stderr": r.stderr[-1500:], "fails": [], "refused": []}
    if res["build_ok"]:
        for line in r.stdout.splitlines():
            if line.startswith("FAIL "):
                res["fails"].append(line)
            if line.startswith("VERDICT "):
                _, idx, verdict = line.split(" ", 2)
                e = fx["corpus"][int(idx)]
                res["verdicts"] = res.get("verdicts", 0) + 1
                if verdict != e["verdict"]:
                    res["fails"].append(f"FAIL verdict-{e['kind']} the reduced build says {verdict[:24]} where the full build says {e['verdict'][:24]} for a {e['kind']} input ({e['how']}): {e['text'][:60]}")
        a = subprocess.run([PV, "c19-accept", fx_path], input=r.stdout, stdout=subprocess.PIPE, stderr=subprocess.PIPE, text=True, env=cargo_env())
        for line in a.stdout.splitlines():
            if line.startswith("REFUSE "):
                res["refused"].append(line)
        res["accepted"] = sum(1 for l in a.stdout.splitlines() if l.startswith("ACCEPT "))
    shutil.rmtree(d, ignore_errors=True)
    return res

# ---- paseto-json: the same probe program built against the full and the reduced build ------
JSON_PROBE_CARGO = """[package]
name = "c19-json-probe"
version = "0.0.0"
edition = "2024"
publish = false
[workspace]
[dependencies]
paseto-core = {{ path = "/repo/paseto-core" }}
paseto-json = {{ path = "/repo/paseto-json", default-features = false, features = [{feats}] }}
serde_json = "1"
[profile.dev]
opt-level = 1
debug = false
"""

JSON_PROBE_SRC = r"""
use paseto_core::encodings::{Footer, Payload};
use paseto_json::Json;
use std::collections::BTreeMap;

fn lcg(s: &mut u64) -> u64 { *s = s.wrapping_mul(6364136223846793005).wrapping_add(1442695040888963407); *s ^ (*s >> 29) }

fn main() {
    let seed: u64 = std::env::args().nth(1).and_then(|x| x.parse().ok()).unwrap_or(1);
    let n: usize = std::env::args().nth(2).and_then(|x| x.parse().ok()).unwrap_or(1000);
    let mut s = seed;
    let mut texts: Vec<String> = Vec::new();
    for i in 0..n {
        let bits = lcg(&mut s);
        // doubles of every magnitude, and doubles of everyday magnitude (exponent near 0)
        let f = if i % 2 == 0 { f64::from_bits(bits) } else { f64::from_bits((bits & 0x800f_ffff_ffff_ffff) | ((1023 - 8 + (bits >> 52) % 24) << 52)) };
        if !f.is_finite() { continue; }
        texts.push(format!("{f:?}"));          // shortest round-trip spelling
        texts.push(format!("{f:.17e}"));       // 18 significant digits, exponent form
        if f.abs() < 1e15 && f.abs() > 1e-5 { texts.push(format!("{f:.20}")); }
        texts.push(serde_json::to_string(&f).unwrap()); // what serde_json itself prints
    }
    for t in ["0", "-0", "-0.0", "1e400", "1e-400", "18446744073709551615", "18446744073709551616", "-9223372036854775808", "-9223372036854775809",
              "0.1", "1E5", "1e+5", "123456789012345678901234567890", "4.9e-324", "2.2250738585072011e-308", "1.7976931348623157e308", "1.7976931348623159e308"] {
        texts.push(t.to_string());
    }
    for t in &texts {
        let doc = format!("{{\"x\":{t}}}");
        let as_f64 = <Json<BTreeMap<String, f64>> as Payload>::decode(doc.as_bytes());
        let as_val = <Json<serde_json::Value> as Footer>::decode(doc.as_bytes());
        let a = match as_f64 { Ok(m) => format!("{:016x}", m.0["x"].to_bits()), Err(_) => "ERR".to_string() };
        let b = match as_val {
            Ok(v) => { let mut w = Vec::new(); match Payload::encode(Json(v.0), &mut w) { Ok(()) => String::from_utf8_lossy(&w).into_owned(), Err(_) => "ENCODE-ERR".into() } }
            Err(_) => "ERR".to_string(),
        };
        println!("J {t} {a} {b}");
    }
    // strings and structure
    for t in ["\"\\u0000\\ud83d\\ude00\\/\"", "[1,[2,[3,[4]]]]", "{\"a\":{\"a\":{\"a\":null}}}", "\"\u{2028}\"", " [ 1 , 2 ] ", "{\"k\":1,\"k\":2}", "[1,]", "{\"a\":1}x", "nul", ""] {
        let v = <Json<serde_json::Value> as Payload>::decode(t.as_bytes());
        let b = match v { Ok(v) => { let mut w = Vec::new(); let _ = Footer::encode(&Json(v.0), &mut w); String::from_utf8_lossy(&w).into_owned() } Err(_) => "ERR".to_string() };
        println!("S {t:?} {b}");
    }
    println!("DONE");
}
"""

def run_json_probe(feats, seed_v, n):
    label = "claims" if feats else "none"
    d = os.path.join(TARGET, "c19", f"json-probe-{label}")
    shutil.rmtree(d, ignore_errors=True)
    os.makedirs(os.path.join(d, "src"))
    open(os.path.join(d, "Cargo.toml"), "w").write(JSON_PROBE_CARGO.format(feats=", ".join(f'"{x}"' for x in feats)))
    shutil.copy(os.path.join(REPO, "Cargo.lock"), os.path.join(d, "Cargo.lock"))
    open(os.path.join(d, "src", "main.rs"), "w").write(JSON_PROBE_SRC)
    r = run(["cargo", "run", "--offline", "--quiet", "--target-dir", os.path.join(TARGET, "c19", f"jtarget-{label}"), "--", str(seed_v), str(n)], cwd=d, timeout=2400)
    shutil.rmtree(d, ignore_errors=True)
    ok = r.returncode == 0 and "DONE" in r.stdout
    return ok, r.stdout.splitlines(), r.stderr[-1200:]

def main():
    t0 = time.time()
    args = sys.argv[1:]
    tier = "thorough" if args and args[0] == "thorough" else "quick"
    replay = None
    if args and args[0] == "--replay":
        replay = json.load(open(args[1]))["case"]
    # the harness binary (full build) provides fixtures and acceptance
    b = run(["cargo", "build", "--release", "--offline"], cwd=os.path.join(VERIF, "harness"), timeout=3000)
    if b.returncode != 0 or not os.path.exists(PV):
        print("INCONCLUSIVE harness (full build) does not build against the current /repo tree"); print(b.stderr[-600:]); sys.exit(2)
    known = load_known()
    violations, known_hits, harness = [], {}, []
    def report(sig, what, case):
        if sig in known:
            n, w = known_hits.get(sig, (0, known[sig])); known_hits[sig] = (n + 1, w); return
        if sum(1 for v in violations if v[1] == sig) >= 3:
            return
        violations.append((write_replay("C19", sig, what, case), sig, what))

    rng = random.Random(seed())
    evaluations = 0
    nontrivial = set()
    samples = []
    per_crate = {}
    jobs = []
    all_closures = {}
    for crate, n in CRATES.items():
        table = feature_table(crate)
        cl = closures(table)
        all_closures[crate] = (table, cl)
        per_crate[crate] = {"feature_flags": len([f for f in table if f != "default"]), "distinct_closures": len(cl)}
    # ---- (1) every closure builds
    def check_crate(crate):
        table, cl = all_closures[crate]
        out = []
        tdir = os.path.join(TARGET, "c19", f"check-{crate}")
        for c, gen in sorted(cl.items(), key=lambda kv: sorted(kv[0])):
            if replay and not (replay.get("crate") == crate and sorted(replay.get("features", [])) == sorted(gen)):
                continue
            rc, err = check_closure(crate, gen, tdir)
            out.append((crate, c, gen, rc, err))
        return out
    with ThreadPoolExecutor(max_workers=4) as ex:
        results = list(ex.map(check_crate, CRATES))
    for res in results:
        for crate, c, gen, rc, err in res:
            evaluations += 1
            if len(c) not in (0, len(all_closures[crate][0]) - 1):
                nontrivial.add((crate, c))
            if rc != 0:
                first = next((l for l in err.splitlines() if l.startswith("error")), err[:200])
                report(f"C19/{crate}/build-fails/{'+'.join(sorted(gen)) or 'none'}",
                       f"{crate} does not compile with --no-default-features --features {','.join(sorted(gen)) or '(none)'}: {first}",
                       {"crate": crate, "features": sorted(gen), "kind": "check"})
    # paseto-core and paseto-json
    if not replay:
        for crate, feats in [("paseto-core", []), ("paseto-core", ["serde"]), ("paseto-json", []), ("paseto-json", ["claims"])]:
            rc, err = check_closure(crate, feats, os.path.join(TARGET, "c19", "check-core"))
            evaluations += 1
            nontrivial.add((crate, frozenset(feats)))
            if rc != 0:
                first = next((l for l in err.splitlines() if l.startswith("error")), err[:200])
                report(f"C19/{crate}/build-fails/{'+'.join(feats) or 'none'}", f"{crate} does not compile with features {feats}: {first}", {"crate": crate, "features": feats, "kind": "check"})
    # paseto-json: the operations present in both builds (Json<T> payload / footer encode and decode)
    # must behave identically: one generated corpus of JSON texts through both builds, outputs diffed
    json_lines = 0
    if not replay or replay.get("kind") == "json-diff":
        nj = 4000 if tier == "quick" else 60000
        okf, full, errf = run_json_probe(["claims"], seed(), nj)
        okr, red, errr = run_json_probe([], seed(), nj)
        case = {"crate": "paseto-json", "features": [], "kind": "json-diff"}
        if not okf:
            harness.append(f"paseto-json probe (full build) failed to build or run: {errf[-300:]}")
        elif not okr:
            first = next((l for l in errr.splitlines() if l.startswith("error") or "panicked" in l), errr[-300:])
            report("C19/paseto-json/probe-fails/none", f"probe of paseto-json without features failed to build or run: {first}", case)
        else:
            json_lines = len(full)
            evaluations += len(full)
            nontrivial.update(("paseto-json", "json-diff", l.split(" ")[1]) for l in full if l.startswith("J ") and ("e" in l.split(" ")[1] or "." in l.split(" ")[1]))
            if len(full) != len(red):
                report("C19/paseto-json/reduced-build-differs/output-length", f"the two builds print {len(full)} vs {len(red)} lines for the same corpus", case)
            for a, b in zip(full, red):
                if a != b:
                    report("C19/paseto-json/reduced-build-differs/json-decode", f"paseto-json with and without the `claims` feature treat the same JSON text differently: full build `{a[:160]}`, reduced build `{b[:160]}`", case)
                    break
            samples.append({"crate": "paseto-json", "differential": "features [claims] vs []", "json_texts_compared": len(full), "example": full[1] if len(full) > 1 else ""})
    # ---- (2) behaviour of reduced builds
    def probes_for(crate):
        table, cl = all_closures[crate]
        n = CRATES[crate]
        items = sorted(cl.items(), key=lambda kv: sorted(kv[0]))
        if replay:
            chosen = [(c, g) for c, g in items if replay.get("crate") == crate and sorted(replay.get("features", [])) == sorted(g) and replay.get("kind") == "probe"]
        elif tier == "thorough":
            chosen = [(c, g) for c, g in items if c]
        else:
            # the subsets the property names: verify-only, decrypt-only, no PASERK, single PASERK operations
            named = [("verifying",), ("decrypting",), ("signing", "encrypting"), ("id", "verifying"), ("id", "decrypting"), ("pie-wrap",), ("pbkw",), ("pke",)]
            chosen = [(closure(g, table), g) for g in named]
            pool = [(c, g) for c, g in items if c and c not in [x[0] for x in chosen]]
            chosen += rng.sample(pool, min(2, len(pool)))
        fx_path = os.path.join(TARGET, "c19", f"fixtures-{crate}.json")
        os.makedirs(os.path.dirname(fx_path), exist_ok=True)
        fxr = run([PV, "c19-fixtures", str(n), str(seed())])
        if fxr.returncode != 0:
            return [(crate, None, None, {"build_ok": False, "stderr": fxr.stderr, "ops": [], "fails": [], "refused": []})]
        fx = json.loads(fxr.stdout)
        open(fx_path, "w").write(fxr.stdout)
        out = []
        for i, (c, g) in enumerate(chosen):
            out.append((crate, c, g, run_probe(crate, n, c, fx, fx_path, i)))
        return out
    with ThreadPoolExecutor(max_workers=4) as ex:
        presults = list(ex.map(probes_for, CRATES))
    probes = 0
    for res in presults:
        for crate, c, gen, r in res:
            if c is None:
                harness.append(f"{crate}: fixtures could not be produced: {r['stderr'][-200:]}"); continue
            probes += 1
            evaluations += 1 + len(r["ops"]) + r.get("verdicts", 0)
            nontrivial.add((crate, c, "probe"))
            case = {"crate": crate, "features": sorted(gen), "kind": "probe"}
            label = "+".join(sorted(gen)) or "none"
            if not r["build_ok"]:
                first = next((l for l in r["stderr"].splitlines() if l.startswith("error") or "panicked" in l), r["stderr"][-300:])
                report(f"C19/{crate}/probe-fails/{label}", f"probe of {crate} with features {sorted(c)} failed to build or run: {first}", case)
                continue
            for fl in r["fails"]:
                report(f"C19/{crate}/reduced-build-rejects-or-differs/{fl.split()[1]}", f"{crate} with features {sorted(c)}: {fl}", case)
            for rf in r["refused"]:
                report(f"C19/{crate}/full-build-refuses-reduced-output/{rf.split()[1]}", f"{crate} with features {sorted(c)} produced output the full build / reference model refuses: {rf}", case)
            if len(samples) < 6:
                samples.append({"crate": crate, "features": sorted(c), "operations_exercised": r["ops"], "outputs_accepted_by_full_build": r.get("accepted", 0)})
    exhaustive = tier == "thorough"
    write_evidence("C19", tier, "exploration", {
        "evaluations": evaluations,
        "distinct_nontrivial": len(nontrivial),
        "rule": "(1) every subset of the feature flags of paseto-v1/v2/v3/v4 collapsed to its distinct closure under the [features] implication graph read from Cargo.toml, each checked with cargo check --no-default-features --features <generators> (plus paseto-core +-serde, paseto-json +-claims): exhaustive over closures; (2) generated probe crates depending on the reduced build (quick: verify-only, decrypt-only, sign+encrypt (no PASERK), id+verify, id+decrypt, pie-wrap only, pbkw only, pke only and 2 seeded closures per crate; thorough: every non-empty closure) replay fixtures produced by the full build (tokens, PIE, PBKW, sealed key, ids for the run's seed) through every operation the closure offers and print what they produce, and give their verdict on a corpus of valid, foreign-built (independent signers incl. high-S ECDSA, reference-model tokens and blobs) and corrupted inputs and of key texts (the bytes of every key kind under every key header, parsed as every key kind the closure offers) and, for the Ed25519 versions, tokens under a small-order public key, which must equal the full build's verdict entry by entry; the full build and the reference model must accept it (deterministic signatures and ids byte-identical); (3) paseto-json: one probe program built against the crate with and without `claims` decodes and re-encodes a generated corpus of JSON texts (doubles of every magnitude in shortest / 18-digit / fixed / serde_json spelling, integer edge values, escapes, nesting, malformed texts) through Json<T> payload and footer: the two outputs must be identical line by line. Non-trivial iff the closure is neither empty nor full / a probe ran",
        "samples": samples or [{"note": "no probe ran"}],
        "closures_per_crate": per_crate,
        "probes_run": probes,
        "exhaustive": exhaustive,
        "exhaustive_subspaces": ["feature closures x cargo check"],
        "harness_errors": harness,
    }, ["cargo check is the ground truth for 'builds'", "probe programs are generated from the closure: they only contain operations whose features are enabled"], time.time() - t0, len(violations))
    if harness and not violations:
        for h in harness:
            print(f"INCONCLUSIVE harness error: {h}")
        sys.exit(2)
    finish("C19", tier, violations, known_hits, f"C19 {tier}: {evaluations} evaluations ({sum(v['distinct_closures'] for v in per_crate.values())} closures checked, {probes} behaviour probes), {len(violations)} violation(s), {time.time()-t0:.1f}s")

if __name__ == "__main__":
    main()
