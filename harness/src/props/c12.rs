//! C12 — nothing from an unauthenticated token is decoded, validated or reported.
//! The C02 mutant stream is replayed with a payload type whose decoder and a validator
//! whose `validate` record every invocation.  Tokens come in pairs (one the decoder would
//! accept, one it would reject) that differ in a single plaintext byte.

use std::cell::RefCell;

use paseto_core::PasetoError;
use paseto_core::encodings::{Payload, WriteBytes};
use paseto_core::key::Key;
use paseto_core::tokens::SealedToken;
use paseto_core::validation::Validate;
use paseto_core::version::{Local, Public, Purpose, UnsealingVersion};
use serde_json::{Value, json};

use crate::backends::*;
use crate::engine::*;
use crate::faults::{self, MutId, TokenParts};
use crate::props::c02::{self, ReplayCase, TokCase};
use crate::refmodel as model;
use crate::rng;

thread_local! {
    static TRACE: RefCell<Vec<&'static str>> = const { RefCell::new(Vec::new()) };
}

fn trace_take() -> Vec<&'static str> {
    TRACE.with(|t| std::mem::take(&mut *t.borrow_mut()))
}

#[derive(Clone)]
pub struct Probe(pub Vec<u8>);

impl Payload for Probe {
    const SUFFIX: &'static str = "";
    fn encode(self, mut w: impl WriteBytes) -> Result<(), Box<dyn std::error::Error + Send + Sync>> {
        w.write(&self.0);
        Ok(())
    }
    fn decode(payload: &[u8]) -> Result<Self, Box<dyn std::error::Error + Send + Sync>> {
        TRACE.with(|t| t.borrow_mut().push("decode"));
        if payload.first() == Some(&b'!') {
            return Err("probe decoder rejects payloads starting with '!'".into());
        }
        Ok(Probe(payload.to_vec()))
    }
}

pub struct ProbeValidator {
    pub accept: bool,
}

impl Validate for ProbeValidator {
    type Claims = Probe;
    fn validate(&self, _claims: &Probe) -> Result<(), PasetoError> {
        TRACE.with(|t| t.borrow_mut().push("validate"));
        if self.accept { Ok(()) } else { Err(PasetoError::ClaimsError) }
    }
}

fn attempt<B: Backend, P: Purpose>(
    payload: &[u8],
    footer: &[u8],
    assertion: &[u8],
    key: &Key<V<B>, P>,
    purpose: &str,
    accept: bool,
) -> (Result<Vec<u8>, PasetoError>, Vec<&'static str>)
where
    V<B>: UnsealingVersion<P>,
{
    let s = model::assemble(&format!("{}.{purpose}.", B::VER.v()), payload, footer);
    trace_take();
    let r = s
        .parse::<SealedToken<V<B>, P, Probe, Vec<u8>>>()
        .and_then(|t| t.unseal(key, assertion, &ProbeValidator { accept }))
        .map(|u| u.claims.0);
    (r, trace_take())
}

/// The nonce and tag/signature windows of the two pair members are byte-identical, so the only
/// difference between them is inside the (unauthenticated) message bytes.  When a truncation or
/// shift moves message bytes into the signature window, a different format verdict on the
/// *signature* (e.g. r = 0) is legitimate and not what the property forbids.
fn same_windows(a: &[u8], b: &[u8], prefix: usize, suffix: usize) -> bool {
    a.len() == b.len()
        && a.len() >= prefix + suffix
        && a[..prefix] == b[..prefix]
        && a[a.len() - suffix..] == b[b.len() - suffix..]
}

fn messages(c: &TokCase) -> (Vec<u8>, Vec<u8>) {
    let mut ok = c.msg.bytes();
    if ok.is_empty() {
        ok.push(b'{');
    }
    if ok[0] == b'!' {
        ok[0] = b'{';
    }
    let mut bad = ok.clone();
    bad[0] = b'!';
    (ok, bad)
}

pub fn run_token<B: Backend>(acc: &mut Acc, c: &TokCase, filter: Option<&MutId>) {
    let full_limit = acc.tier.pick(120, 1024);
    let purpose = if c.public { "public" } else { "local" };
    let (m_ok, m_bad) = messages(c);
    let want = |id: &MutId| filter.map(|f| f == id).unwrap_or(true);
    let name = B::NAME;
    macro_rules! body {
        ($P:ty, $sealkey:expr, $unsealkey:expr, $keyvars:expr) => {{
            let b_ok = c02::build_with_room::<B, $P, Probe>(c, &$sealkey, Probe(m_ok.clone()), m_ok.clone());
            let b_bad = c02::build::<B, $P, Probe>(c, &$sealkey, Probe(m_bad.clone()), m_bad.clone());
            let (b_ok, b_bad) = match (b_ok, b_bad) {
                (Ok(a), Ok(b)) => (a, b),
                _ => {
                    acc.harness_errors.push(format!("c12: could not seal control tokens on {name}"));
                    return;
                }
            };
            let rc = |id: &MutId| serde_json::to_value(&ReplayCase { tok: c.clone(), mutant: id.clone() }).unwrap();
            // controls: decode then validate, exactly once each
            let ctl = MutId { class: "control".into(), pos: 0, arg: 0 };
            if want(&ctl) {
                acc.evals_n(3);
                let (r, tr) = attempt::<B, $P>(&b_ok.payload, &b_ok.footer, &b_ok.assertion, &$unsealkey, purpose, true);
                if !(matches!(&r, Ok(x) if *x == m_ok) && tr == ["decode", "validate"]) {
                    acc.fail(Fail::new(format!("C12/{name}/{purpose}/control/order"), format!("authentic token: result ok={} trace {tr:?}, expected Ok with [decode, validate]", r.is_ok())), rc(&ctl));
                }
                let (r, tr) = attempt::<B, $P>(&b_ok.payload, &b_ok.footer, &b_ok.assertion, &$unsealkey, purpose, false);
                if !(matches!(&r, Err(PasetoError::ClaimsError)) && tr == ["decode", "validate"]) {
                    acc.fail(Fail::new(format!("C12/{name}/{purpose}/control/validator-reject"), format!("authentic token + rejecting validator: {:?} trace {tr:?}", r.as_ref().map(|_| ()).map_err(err_kind))), rc(&ctl));
                }
                let (r, tr) = attempt::<B, $P>(&b_bad.payload, &b_bad.footer, &b_bad.assertion, &$unsealkey, purpose, true);
                if !(matches!(&r, Err(PasetoError::PayloadError(_))) && tr == ["decode"]) {
                    acc.fail(Fail::new(format!("C12/{name}/{purpose}/control/decoder-reject"), format!("authentic token with undecodable payload: {:?} trace {tr:?}", r.as_ref().map(|_| ()).map_err(err_kind))), rc(&ctl));
                }
                acc.class("control:3-ok");
            }
            let prefix = if c.public { 0 } else { B::VER.local_nonce_len() };
            let suffix = if c.public { B::VER.sig_len() } else { B::VER.local_tag_len() };
            let modulus: Option<Vec<u8>> = if c.public && B::VER == crate::refmodel::Ver::V1 { c02::rsa_modulus::<B>(&c.key) } else { None };
            let parts = |b: &c02::Built| -> Vec<faults::TokenMutant> {
                faults::token_mutants(
                    &TokenParts { payload: &b.payload, footer: &b.footer, assertion: &b.assertion, prefix, suffix, modulus: modulus.as_deref() },
                    B::VER.has_assertion(),
                    hash_of(c),
                    full_limit,
                )
            };
            let mo = parts(&b_ok);
            let mb = parts(&b_bad);
            // same lengths => same mutant ids in the same order
            for (x, y) in mo.iter().zip(mb.iter()) {
                if x.id != y.id {
                    // a flip that maps one member onto the other's original is dropped on one side only
                    continue;
                }
                if !want(&x.id) {
                    continue;
                }
                // a body flip that turns the pair member into the other member's authentic token
                if x.payload == b_bad.payload || y.payload == b_ok.payload {
                    continue;
                }
                acc.evals_n(2);
                acc.class(&format!("mutant:{}", x.id.class));
                if x.payload.len() >= prefix + suffix {
                    acc.nt(hash_of(&(c, &x.id)));
                }
                let (r1, t1) = attempt::<B, $P>(&x.payload, &x.footer, &x.assertion, &$unsealkey, purpose, true);
                let (r2, t2) = attempt::<B, $P>(&y.payload, &y.footer, &y.assertion, &$unsealkey, purpose, true);
                let k1 = r1.as_ref().map(|_| "Ok").unwrap_or_else(|e| err_kind(e));
                let k2 = r2.as_ref().map(|_| "Ok").unwrap_or_else(|e| err_kind(e));
                if !t1.is_empty() || !t2.is_empty() {
                    acc.fail(Fail::new(format!("C12/{name}/{purpose}/{}/decoder-or-validator-ran", x.id.class), format!("unauthenticated token reached caller code: traces {t1:?} / {t2:?} (results {k1} / {k2})")), rc(&x.id));
                } else if k1 == "PayloadError" || k2 == "PayloadError" || (k1 != k2 && same_windows(&x.payload, &y.payload, prefix, suffix)) {
                    acc.fail(Fail::new(format!("C12/{name}/{purpose}/{}/error-kind-depends-on-payload", x.id.class), format!("error kinds {k1} / {k2} for the decodable / undecodable pair member under the same corruption")), rc(&x.id));
                } else if k1 == "Ok" {
                    acc.fail(Fail::new(format!("C12/{name}/{purpose}/{}/accepted", x.id.class), "corrupted token accepted".to_string()), rc(&x.id));
                }
            }
            // text-level extensions of the genuine token (extra characters / sections): never sealed either
            {
                let text = model::assemble(&format!("{}.{purpose}.", B::VER.v()), &b_ok.payload, &b_ok.footer);
                let fb64 = crate::util::b64_encode(&b_ok.footer);
                let pb64_end = text.len() - if b_ok.footer.is_empty() { 0 } else { fb64.len() + 1 };
                let mut exts: Vec<String> = c02::ALPHABET.chars().map(|ch| ch.to_string()).collect();
                exts.extend(["..".to_string(), ".AAAA.BBBB".to_string(), "=".to_string(), " ".to_string()]);
                if !b_ok.footer.is_empty() {
                    exts.extend([".".to_string(), ".AAAA".to_string(), format!(".{fb64}")]);
                }
                for (ei, ext) in exts.iter().enumerate() {
                    let id = MutId { class: "text-extension".into(), pos: ei as u32, arg: 0 };
                    if !want(&id) {
                        continue;
                    }
                    let mut variants = vec![format!("{text}{ext}")];
                    if ext.len() == 1 && !b_ok.footer.is_empty() {
                        variants.push(format!("{}{ext}{}", &text[..pb64_end], &text[pb64_end..]));
                    }
                    for s2 in variants {
                        acc.eval();
                        acc.class("mutant:text-extension");
                        acc.nt(hash_of(&(c, &id, s2.len())));
                        trace_take();
                        let r = s2.parse::<SealedToken<V<B>, $P, Probe, Vec<u8>>>().and_then(|t| t.unseal(&$unsealkey, &b_ok.assertion, &ProbeValidator { accept: true }));
                        let t = trace_take();
                        if !t.is_empty() || r.is_ok() {
                            acc.fail(Fail::new(format!("C12/{name}/{purpose}/text-extension/decoder-or-validator-ran"), format!("the genuine token with {ext:?} appended to a segment reached {t:?} (result ok: {})", r.is_ok())), rc(&id));
                        }
                    }
                }
            }
            // text-level edits of the HEADER of the genuine token: characters inserted at every position
            // of the header (after the version, before the purpose, inside either), header parts repeated
            {
                let text = model::assemble(&format!("{}.{purpose}.", B::VER.v()), &b_ok.payload, &b_ok.footer);
                let hlen = B::VER.v().len() + 1 + purpose.len() + 1;
                let mut variants: Vec<String> = Vec::new();
                for at in 0..=hlen {
                    for ins in ["x", "c", "0", ".", ".json", "-beta", "\u{e9}", " "] {
                        variants.push(format!("{}{ins}{}", &text[..at], &text[at..]));
                    }
                }
                let dots: Vec<usize> = text.match_indices('.').map(|(i, _)| i).take(2).collect();
                if dots.len() == 2 {
                    variants.push(format!("{}{}{}", &text[..=dots[1]], &text[dots[0] + 1..=dots[1]], &text[dots[1] + 1..])); // v4.local.local.<p>
                    variants.push(format!("{}{}", &text[..=dots[0]], text)); // v4.v4.local.<p>
                }
                for (vi, s2) in variants.iter().enumerate() {
                    let id = MutId { class: "header-text-edit".into(), pos: vi as u32, arg: 0 };
                    if !want(&id) {
                        continue;
                    }
                    acc.eval();
                    acc.class("mutant:header-text-edit");
                    acc.nt(hash_of(&(c, &id)));
                    trace_take();
                    let r = s2.parse::<SealedToken<V<B>, $P, Probe, Vec<u8>>>().and_then(|t| t.unseal(&$unsealkey, &b_ok.assertion, &ProbeValidator { accept: true }));
                    let t = trace_take();
                    if !t.is_empty() || r.is_ok() {
                        acc.fail(Fail::new(format!("C12/{name}/{purpose}/header-text-edit/decoder-or-validator-ran"), format!("the genuine token with its header edited ({:.24}...) reached {t:?} (result ok: {})", s2, r.is_ok())), rc(&id));
                    }
                }
            }
            for (id, k) in $keyvars {
                if !want(&id) {
                    continue;
                }
                acc.evals_n(2);
                acc.class(&format!("mutant:{}", id.class));
                acc.nt(hash_of(&(c, &id)));
                let (r1, t1) = attempt::<B, $P>(&b_ok.payload, &b_ok.footer, &b_ok.assertion, &k, purpose, true);
                let (r2, t2) = attempt::<B, $P>(&b_bad.payload, &b_bad.footer, &b_bad.assertion, &k, purpose, true);
                let k1 = r1.as_ref().map(|_| "Ok").unwrap_or_else(|e| err_kind(e));
                let k2 = r2.as_ref().map(|_| "Ok").unwrap_or_else(|e| err_kind(e));
                if !t1.is_empty() || !t2.is_empty() {
                    acc.fail(Fail::new(format!("C12/{name}/{purpose}/{}/decoder-or-validator-ran", id.class), format!("wrong key reached caller code: traces {t1:?} / {t2:?}")), rc(&id));
                } else if k1 == "PayloadError" || k1 != k2 || k1 == "Ok" {
                    acc.fail(Fail::new(format!("C12/{name}/{purpose}/{}/error-kind-depends-on-payload", id.class), format!("error kinds {k1} / {k2}")), rc(&id));
                }
            }
            acc.sample(|| json!({"backend": name, "purpose": purpose, "pair": {"decodable_first_byte": m_ok[0], "undecodable_first_byte": m_bad[0], "len": m_ok.len()}, "mutants": mo.len()}));
        }};
    }
    if c.public {
        let sk = secret_key::<B>(&c.key);
        let pk = sk.public_key();
        body!(Public, sk, pk, c02::public_key_variants::<B>(c));
    } else {
        let lk = local_key::<B>(&c.key);
        body!(Local, lk, lk, c02::local_key_variants::<B>(c, 8));
    }
}

fn replay<B: Backend>(v: &Value, acc: &mut Acc) -> R {
    let rc: ReplayCase = serde_json::from_value(v.clone()).map_err(|e| Fail::new("HARNESS/replay-decode", format!("{e}")))?;
    rng::reseed_case(hash_of(&rc.tok));
    acc.tier = Tier::Thorough;
    run_token::<B>(acc, &rc.tok, Some(&rc.mutant));
    if acc.violations.is_empty() && acc.evals == 0 {
        acc.tier = Tier::Quick;
        run_token::<B>(acc, &rc.tok, Some(&rc.mutant));
    }
    Ok(())
}

fn subs_for<B: Backend>(out: &mut Vec<SubCheck>) {
    for public in [false, true] {
        let p = if public { "public" } else { "local" };
        let (chunks, per_q, per_t): (u32, usize, usize) = match (B::NAME, public) {
            (_, false) => (1, 16, 160),
            ("paseto-v3", true) => (6, 1, 4),
            ("paseto-v3-aws-lc", true) => (3, 2, 8),
            _ => (2, 4, 40),
        };
        for ch in 0..chunks {
            out.push(SubCheck::custom(
                format!("c12.traces/{}/{p}/{ch}", B::NAME),
                if public { 10 } else { 4 },
                move |acc: &mut Acc| {
                    let n = acc.tier.pick(per_q, per_t);
                    let seed = mix(acc.seed, fnv(format!("c12/{}/{p}/{ch}", B::NAME).as_bytes()));
                    let toks = sample_values(&c02::tok_strategy::<B>(public, false), seed, n);
                    for (j, t) in toks.iter().enumerate() {
                        rng::reseed_case(hash_of(t) ^ j as u64);
                        run_token::<B>(acc, t, None);
                    }
                    // one larger token per chunk with a long footer / assertion (sampled bit positions)
                    if !(public && B::NAME == "paseto-v3" && acc.tier == Tier::Quick && ch > 1) {
                        let big = sample_values(&c02::tok_strategy::<B>(public, true), seed ^ 0xb16, 1);
                        run_token::<B>(acc, &big[0], None);
                    }
                },
                |v: &Value, acc: &mut Acc| replay::<B>(v, acc),
            ));
        }
    }
}


// ---------------------------------------------------------------------------
// a footer changed to other bytes with the SAME decoded value is still an unauthenticated token

fn typed_footer_case<B: Backend>(c: &c02::TypedFooterCase, acc: &mut Acc) -> R {
    use paseto_core::tokens::UnsealedToken;
    use paseto_core::version::SealingVersion;
    let name = B::NAME;
    let purpose = if c.public { "public" } else { "local" };
    rng::reseed_case(hash_of(&(&c.key, &c.kid)));
    let (canon, variants) = c02::typed_variants_pub(&c02::TypedFooterCase { footer_ty: 0, ..c.clone() });
    let (m_ok, _) = messages(&TokCase { public: c.public, key: c.key.clone(), msg: c.msg.clone(), footer: crate::gens::BytesSpec::empty(), assertion: crate::gens::BytesSpec::empty(), nonce_seed: 0 });
    fn go<B: Backend, P: Purpose>(acc: &mut Acc, name: &str, purpose: &str, sealing: &Key<V<B>, P::SealingKey>, unsealing: &Key<V<B>, P>, m_ok: &[u8], canon: &[u8], variants: &[(String, Vec<u8>)]) -> R
    where
        V<B>: SealingVersion<P>,
    {
        let s = UnsealedToken::<V<B>, P, Probe>::new(Probe(m_ok.to_vec()))
            .with_footer(c02::Lossy(canon.to_vec()))
            .seal(sealing, &[])
            .map_err(|e| Fail::new(format!("C12/{name}/{purpose}/typed-footer/seal-failed"), format!("{e}")))?
            .to_string();
        let h = format!("{}.{purpose}.", B::VER.v());
        let (payload, _) = model::disassemble(&h, &s).map_err(|e| Fail::new("HARNESS/c12-typed", e))?;
        for (vname, bytes) in variants {
            let t = model::assemble(&h, &payload, bytes);
            trace_take();
            let r = t.parse::<SealedToken<V<B>, P, Probe, c02::Lossy>>().and_then(|p| p.unseal(unsealing, &[], &ProbeValidator { accept: true })).map(|_| ());
            let tr = trace_take();
            acc.eval();
            acc.nt(hash_of(&(name, purpose, vname, canon)));
            acc.class("typed-footer:same-value-different-bytes");
            if !tr.is_empty() || r.is_ok() {
                return Err(Fail::new(
                    format!("C12/{name}/{purpose}/typed-footer-{vname}/decoder-or-validator-ran"),
                    format!("footer bytes changed from {:?} to {:?} (same decoded footer value): trace {tr:?}, accepted={}", String::from_utf8_lossy(canon), String::from_utf8_lossy(bytes), r.is_ok()),
                ));
            }
        }
        Ok(())
    }
    if c.public {
        let sk = secret_key::<B>(&c.key);
        let pk = sk.public_key();
        go::<B, Public>(acc, name, purpose, &sk, &pk, &m_ok, &canon, &variants)
    } else {
        let k = local_key::<B>(&c.key);
        go::<B, Local>(acc, name, purpose, &k, &k, &m_ok, &canon, &variants)
    }
}

fn typed_subs_for<B: Backend>(out: &mut Vec<SubCheck>) {
    use proptest::prelude::*;
    let cases = match B::NAME {
        "paseto-v1" => (30, 300),
        "paseto-v3" => (40, 500),
        _ => (150, 3000),
    };
    out.push(SubCheck::prop(
        format!("c12.typed-footer/{}", B::NAME),
        5,
        cases,
        |_t| {
            (any::<bool>(), crate::gens::key_seed(), crate::gens::small_payload(), "[a-z0-9-]{1,12}")
                .prop_map(|(public, key, msg, kid)| c02::TypedFooterCase { public, key, msg, footer_ty: 0, kid, variant: 255 })
        },
        typed_footer_case::<B>,
    ));
}

// ---------------------------------------------------------------------------
// the re-split tokens of c02.length-alias-splices are unauthenticated tokens too

fn splice_case<B: Backend>(c: &c02::SpliceCase, acc: &mut Acc) -> R {
    let name = B::NAME;
    let purpose = if c.public { "public" } else { "local" };
    let sp = c02::splice_build::<B>(c).map_err(|f| Fail::new(f.sig.replacen("C02/", "C12/", 1), f.what))?;
    let (r, trace) = if c.public {
        let pk = secret_key::<B>(&c.key).public_key();
        attempt::<B, Public>(&sp.forged_payload, &sp.forged_footer, &sp.assertion, &pk, purpose, true)
    } else {
        let lk = local_key::<B>(&c.key);
        attempt::<B, Local>(&sp.forged_payload, &sp.forged_footer, &sp.assertion, &lk, purpose, true)
    };
    crate::ensure!(
        trace.is_empty() && r.is_err(),
        format!("C12/{name}/{purpose}/splice/decoder-or-validator-ran"),
        "a re-split token that was never sealed ({}; message cut at {} of {}) reached {:?} (result ok: {})",
        c.family,
        c.t,
        c.len,
        trace,
        r.is_ok()
    );
    acc.eval();
    acc.nt(hash_of(&(c.public, &c.family, c.len, c.t, c.assertion)));
    acc.class("splice:re-split-token");
    Ok(())
}

fn splice_subs_for<B: Backend>(out: &mut Vec<SubCheck>) {
    out.push(SubCheck::custom(
        format!("c12.length-alias-splices/{}", B::NAME),
        if B::VER == model::Ver::V1 { 8 } else { 3 },
        |acc: &mut Acc| {
            for c in c02::splice_cases::<B>(acc.seed) {
                acc.check(&c, |acc| splice_case::<B>(&c, acc));
            }
        },
        |v: &Value, acc: &mut Acc| {
            let c: c02::SpliceCase = serde_json::from_value(v.clone()).map_err(|e| Fail::new("HARNESS/replay-decode", format!("{e}")))?;
            splice_case::<B>(&c, acc)
        },
    ));
}

// ---------------------------------------------------------------------------
// a genuine token whose header text is rewritten to another payload encoding's suffix was never
// sealed for that encoding: its decoder and validator must not run

/// the recording payload type under a non-empty encoding suffix
pub struct ProbeS(pub Vec<u8>);
impl Payload for ProbeS {
    const SUFFIX: &'static str = ".x1";
    fn encode(self, mut w: impl WriteBytes) -> Result<(), Box<dyn std::error::Error + Send + Sync>> {
        w.write(&self.0);
        Ok(())
    }
    fn decode(payload: &[u8]) -> Result<Self, Box<dyn std::error::Error + Send + Sync>> {
        TRACE.with(|t| t.borrow_mut().push("decode"));
        Ok(ProbeS(payload.to_vec()))
    }
}
struct ProbeSValidator;
impl Validate for ProbeSValidator {
    type Claims = ProbeS;
    fn validate(&self, _claims: &ProbeS) -> Result<(), PasetoError> {
        TRACE.with(|t| t.borrow_mut().push("validate"));
        Ok(())
    }
}

fn enc_relabel_case<B: Backend>(c: &c02::EncCase, acc: &mut Acc) -> R {
    use paseto_core::tokens::UnsealedToken;
    let name = B::NAME;
    let purpose = if c.public { "public" } else { "local" };
    rng::reseed_case(hash_of(&(&c.key, &c.msg)));
    let (m, f, i) = (c.msg.bytes(), c.footer.bytes(), c.assertion.bytes());
    let plain_h = format!("{}.{purpose}.", B::VER.v());
    let sfx_h = format!("{}.x1.{purpose}.", B::VER.v());
    macro_rules! go {
        ($P:ty, $sk:expr, $uk:expr) => {{
            // sealed under one encoding ...
            let s = if c.from_suffixed {
                UnsealedToken::<V<B>, $P, ProbeS>::new(ProbeS(m.clone())).with_footer(f.clone()).seal(&$sk, &i).map(|t| t.to_string())
            } else {
                UnsealedToken::<V<B>, $P, Probe>::new(Probe(m.clone())).with_footer(f.clone()).seal(&$sk, &i).map(|t| t.to_string())
            }
            .map_err(|e| Fail::new(format!("C12/{name}/{purpose}/encoding-relabel/seal-failed"), format!("{e}")))?;
            // ... offered under the other one
            trace_take();
            let (r_ok, trace) = if c.from_suffixed {
                let t = format!("{plain_h}{}", &s[sfx_h.len()..]);
                let r = t.parse::<SealedToken<V<B>, $P, Probe, Vec<u8>>>().and_then(|t| t.unseal(&$uk, &i, &ProbeValidator { accept: true })).is_ok();
                (r, trace_take())
            } else {
                let t = format!("{sfx_h}{}", &s[plain_h.len()..]);
                let r = t.parse::<SealedToken<V<B>, $P, ProbeS, Vec<u8>>>().and_then(|t| t.unseal(&$uk, &i, &ProbeSValidator)).is_ok();
                (r, trace_take())
            };
            crate::ensure!(
                trace.is_empty() && !r_ok,
                format!("C12/{name}/{purpose}/encoding-relabel/decoder-or-validator-ran"),
                "a token sealed under one payload encoding and relabelled to the other reached {:?} (result ok: {r_ok})",
                trace
            );
        }};
    }
    if c.public {
        let sk = secret_key::<B>(&c.key);
        let pk = sk.public_key();
        go!(Public, sk, pk);
    } else {
        let k = local_key::<B>(&c.key);
        go!(Local, k, k);
    }
    acc.eval();
    acc.nt(hash_of(&(name, purpose, &c.key, &c.msg, c.from_suffixed)));
    acc.class("mutant:relabel-encoding-suffix");
    Ok(())
}

fn enc_subs_for<B: Backend>(out: &mut Vec<SubCheck>) {
    let cases = match B::NAME {
        "paseto-v1" => (40, 400),
        "paseto-v3" => (60, 800),
        _ => (200, 4000),
    };
    out.push(SubCheck::prop(format!("c12.encoding-relabel/{}", B::NAME), 3, cases, |_t| c02::enc_strategy::<B>(), enc_relabel_case::<B>));
}

pub fn def() -> PropertyDef {
    let mut subs = Vec::new();
    crate::for_backends!(B => subs_for::<B>(&mut subs));
    crate::for_backends!(B => typed_subs_for::<B>(&mut subs));
    crate::for_backends!(B => splice_subs_for::<B>(&mut subs));
    crate::for_backends!(B => enc_subs_for::<B>(&mut subs));
    PropertyDef {
        id: "C12",
        level: "fault_enumeration",
        rule: "the C02 mutation catalogue (bit flips, truncations, extensions, boundary shifts, footer/assertion edits, other keys) applied to PAIRS of tokens that differ in one plaintext byte (decodable / undecodable), unsealed with a payload type and a validator that record invocations; oracle: for every failing token the trace is empty, the error is never PayloadError and its variant is the same for both pair members; footers of a structured type rewritten to other bytes with the same decoded value count as corruption too, as do tokens whose header is rewritten to another payload encoding's suffix, and so do the re-split tokens of c02.length-alias-splices (a genuine tag on a message cut at t with the remainder moved into the footer); controls: authentic token gives [decode, validate] exactly once each, a rejecting validator gives ClaimsError, an undecodable authentic payload gives PayloadError after one decode. Non-trivial iff the mutant is long enough to reach the cryptographic check; distinct by (token, class, position). The accessor clause (only unverified_footer() exposes the footer) is decided by generated compile probes in ./check C18 (catalogue class `sealed-token-field`).",
        assumptions: vec!["footers are Vec<u8> (Footer::decode at parse time is by design and not what C12 forbids)"],
        subs,
    }
}
