//! C14 — registered claims and JSON payloads round-trip exactly through their wire form.

use paseto_core::encodings::{Footer, Payload};
use paseto_json::jiff::Timestamp;
use paseto_json::{Json, RegisteredClaims};
use proptest::prelude::*;
use serde::{Deserialize, Serialize};
use serde_json::{Map, Value, json};

use crate::engine::*;
use crate::ensure;

const TS_MIN: i64 = -377705023201 + 86_400 * 2;
const TS_MAX: i64 = 253402207200 - 86_400 * 2;

#[derive(Clone, Debug, Serialize, Deserialize, PartialEq, Eq, Hash)]
pub struct T {
    pub s: i64,
    pub ns: u32,
}

#[derive(Clone, Debug, Serialize, Deserialize, PartialEq, Eq, Hash)]
pub struct Claims {
    pub iss: Option<String>,
    pub sub: Option<String>,
    pub aud: Option<String>,
    pub exp: Option<T>,
    pub nbf: Option<T>,
    pub iat: Option<T>,
    pub jti: Option<String>,
}

fn to_ts(t: &T) -> Timestamp {
    Timestamp::new(t.s, t.ns as i32).expect("in range by construction")
}

fn string_strategy() -> impl Strategy<Value = String> {
    prop_oneof![
        2 => Just(String::new()),
        4 => "\\PC{0,24}",
        3 => any::<String>(),
        // long strings: plain runs of 200..5000 characters around the powers of two (a serialiser hands
        // a long unescaped run to the writer in one piece), with and without an escape in the middle
        1 => (prop::sample::select(vec![200usize, 254, 255, 256, 257, 511, 512, 513, 1023, 1024, 1025, 2048, 4095, 4096, 5000]), prop::sample::select(vec!['a', 'Z', ' ', '\u{e9}', '\u{20ac}']), prop::option::of(prop::sample::select(vec!['"', '\\', '\n', '\0'])), 0usize..5000).prop_map(|(n, ch, esc, at)| {
            let mut v: Vec<char> = std::iter::repeat(ch).take(n).collect();
            if let Some(e) = esc {
                let i = at % n;
                v[i] = e;
            }
            v.into_iter().collect()
        }),
        2 => proptest::collection::vec(prop_oneof![Just('\0'), Just('"'), Just('\\'), Just('/'), Just('\n'), Just('\u{7f}'), Just('\u{d7ff}'), Just('\u{e000}'), Just('\u{ffff}'), Just('\u{10000}'), Just('\u{10ffff}'), Just('\u{2028}'), Just('a')], 0..12).prop_map(|v| v.into_iter().collect()),
    ]
}

fn t_strategy() -> impl Strategy<Value = T> {
    let sec = prop_oneof![
        4 => 0i64..4_102_444_800,           // 1970..2100
        2 => TS_MIN..TS_MAX,
        1 => Just(TS_MIN),
        1 => Just(TS_MAX),
        1 => -62_135_596_800i64..0,         // years 1..1969
        1 => Just(-1i64),
        1 => Just(0i64),
    ];
    let ns = prop_oneof![3 => Just(0u32), 1 => Just(1u32), 1 => Just(999_999_999u32), 1 => Just(500_000_000u32), 1 => Just(123_000_000u32), 3 => 0u32..1_000_000_000];
    (sec, ns).prop_map(|(s, ns)| T { s, ns })
}

fn claims_strategy() -> impl Strategy<Value = Claims> {
    let os = || prop_oneof![2 => Just(None), 3 => string_strategy().prop_map(Some)];
    let ot = || prop_oneof![2 => Just(None), 3 => t_strategy().prop_map(Some)];
    (os(), os(), os(), ot(), ot(), ot(), os()).prop_map(|(iss, sub, aud, exp, nbf, iat, jti)| Claims { iss, sub, aud, exp, nbf, iat, jti })
}

fn build(c: &Claims) -> RegisteredClaims {
    RegisteredClaims {
        iss: c.iss.clone(),
        sub: c.sub.clone(),
        aud: c.aud.clone(),
        exp: c.exp.as_ref().map(to_ts),
        nbf: c.nbf.as_ref().map(to_ts),
        iat: c.iat.as_ref().map(to_ts),
        jti: c.jti.clone(),
    }
}

fn same(a: &RegisteredClaims, b: &RegisteredClaims) -> bool {
    a.iss == b.iss && a.sub == b.sub && a.aud == b.aud && a.exp == b.exp && a.nbf == b.nbf && a.iat == b.iat && a.jti == b.jti
}

// --- own RFC 3339 reader (no jiff): returns nanoseconds since the epoch ---

fn days_from_civil(y: i64, m: i64, d: i64) -> i64 {
    let y = if m <= 2 { y - 1 } else { y };
    let era = if y >= 0 { y } else { y - 399 } / 400;
    let yoe = y - era * 400;
    let mp = (m + 9) % 12;
    let doy = (153 * mp + 2) / 5 + d - 1;
    let doe = yoe * 365 + yoe / 4 - yoe / 100 + doy;
    era * 146097 + doe - 719468
}

/// strict RFC 3339 `YYYY-MM-DDTHH:MM:SS[.frac](Z|+HH:MM|-HH:MM)`; None if not of that shape
pub fn rfc3339_to_ns(s: &str) -> Option<i128> {
    let b = s.as_bytes();
    if b.len() < 20 {
        return None;
    }
    let num = |r: std::ops::Range<usize>| -> Option<i64> {
        let t = s.get(r)?;
        if t.bytes().all(|c| c.is_ascii_digit()) { t.parse().ok() } else { None }
    };
    let (y, mo, d, h, mi, se) = (num(0..4)?, num(5..7)?, num(8..10)?, num(11..13)?, num(14..16)?, num(17..19)?);
    if b[4] != b'-' || b[7] != b'-' || !(b[10] == b'T' || b[10] == b't') || b[13] != b':' || b[16] != b':' {
        return None;
    }
    if !(1..=12).contains(&mo) || !(1..=31).contains(&d) || h > 23 || mi > 59 || se > 59 {
        return None;
    }
    let mut i = 19;
    let mut frac: i128 = 0;
    if b[i] == b'.' || b[i] == b',' {
        i += 1;
        let st = i;
        while i < b.len() && b[i].is_ascii_digit() {
            i += 1;
        }
        let digits = &s[st..i];
        if digits.is_empty() || digits.len() > 9 {
            return None;
        }
        frac = digits.parse::<i128>().ok()? * 10i128.pow(9 - digits.len() as u32);
    }
    let off: i64 = match b.get(i)? {
        b'Z' | b'z' if i + 1 == b.len() => 0,
        sign @ (b'+' | b'-') if i + 6 == b.len() && b[i + 3] == b':' => {
            let oh = num(i + 1..i + 3)?;
            let om = num(i + 4..i + 6)?;
            if oh > 23 || om > 59 {
                return None;
            }
            let v = oh * 3600 + om * 60;
            if *sign == b'+' { v } else { -v }
        }
        _ => return None,
    };
    let secs = days_from_civil(y, mo, d) * 86_400 + h * 3600 + mi * 60 + se - off;
    Some(secs as i128 * 1_000_000_000 + frac)
}

fn roundtrip_case(c: &Claims, acc: &mut Acc) -> R {
    let claims = build(c);
    let mut wire = Vec::new();
    claims.clone().encode(&mut wire).map_err(|e| Fail::new("C14/claims/encode-failed", format!("{e}")))?;
    let back = RegisteredClaims::decode(&wire).map_err(|e| Fail::new("C14/claims/decode-of-own-output-failed", format!("{e}: {}", String::from_utf8_lossy(&wire))))?;
    ensure!(same(&back, &claims), "C14/claims/roundtrip-differs", "decode(encode(c)) != c: wire {}", String::from_utf8_lossy(&wire).chars().take(200).collect::<String>());
    // wire form: a JSON object whose keys are exactly the present claims
    let v: Value = serde_json::from_slice(&wire).map_err(|e| Fail::new("C14/claims/wire-not-json", format!("{e}")))?;
    let obj = v.as_object().ok_or_else(|| Fail::new("C14/claims/wire-not-object", "not an object"))?;
    let present: Vec<&str> = [("iss", c.iss.is_some()), ("sub", c.sub.is_some()), ("aud", c.aud.is_some()), ("exp", c.exp.is_some()), ("nbf", c.nbf.is_some()), ("iat", c.iat.is_some()), ("jti", c.jti.is_some())]
        .iter()
        .filter(|x| x.1)
        .map(|x| x.0)
        .collect();
    let mut keys: Vec<&str> = obj.keys().map(|k| k.as_str()).collect();
    keys.sort();
    let mut want = present.clone();
    want.sort();
    ensure!(keys == want, "C14/claims/wire-members", "wire object has members {keys:?}, present claims are {want:?} (absent claims must be omitted)");
    for (k, s) in [("iss", &c.iss), ("sub", &c.sub), ("aud", &c.aud), ("jti", &c.jti)] {
        if let Some(s) = s {
            ensure!(obj[k].as_str() == Some(s.as_str()), "C14/claims/wire-string", "member {k} is not the claim string byte for byte");
        }
    }
    for (k, t) in [("exp", &c.exp), ("nbf", &c.nbf), ("iat", &c.iat)] {
        if let Some(t) = t {
            let text = obj[k].as_str().ok_or_else(|| Fail::new("C14/claims/wire-timestamp-not-string", format!("{k}")))?;
            let year_ok = (-62_167_219_200..253_402_300_800).contains(&t.s); // years 0000..9999
            if year_ok {
                let ns = rfc3339_to_ns(text).ok_or_else(|| Fail::new("C14/claims/wire-timestamp-not-rfc3339", format!("{k} = {text:?}")))?;
                ensure!(ns == t.s as i128 * 1_000_000_000 + t.ns as i128, "C14/claims/wire-timestamp-instant", "{k} = {text:?} denotes another instant than {}.{:09}", t.s, t.ns);
            }
        }
    }
    // the same claims embedded in an application struct with #[serde(flatten)] (the only way to add
    // application claims): every registered claim survives the round trip there too
    {
        #[derive(serde::Serialize, serde::Deserialize)]
        struct App {
            #[serde(flatten)]
            registered: RegisteredClaims,
            role: String,
        }
        let mut w2 = Vec::new();
        Payload::encode(Json(App { registered: claims.clone(), role: "admin".into() }), &mut w2).map_err(|e| Fail::new("C14/claims/flatten-encode-failed", format!("{e}")))?;
        let back2 = <Json<App> as Payload>::decode(&w2).map_err(|e| Fail::new("C14/claims/flatten-decode-failed", format!("{e}: {}", String::from_utf8_lossy(&w2).chars().take(160).collect::<String>())))?;
        ensure!(same(&back2.0.registered, &claims) && back2.0.role == "admin", "C14/claims/flatten-roundtrip-differs", "RegisteredClaims embedded with #[serde(flatten)] does not round-trip: wire {}", String::from_utf8_lossy(&w2).chars().take(200).collect::<String>());
    }
    acc.eval();
    let n_present = present.len();
    if n_present >= 1 && n_present <= 6 {
        acc.nt(hash_of(c));
    }
    acc.class(&format!("present-fields:{n_present}"));
    acc.sample(|| json!({"wire": String::from_utf8_lossy(&wire).chars().take(160).collect::<String>()}));
    Ok(())
}

// --- generated JSON texts ---

#[derive(Clone, Debug, Serialize, Deserialize, PartialEq, Eq, Hash)]
pub enum MemberVal {
    Str(String),
    Null,
    Num(i64),
    Bool(bool),
    Arr,
    Obj,
    /// civil components written by the generator: y m d h mi s frac-digits frac offset-minutes style
    Stamp { y: u16, mo: u8, d: u8, h: u8, mi: u8, s: u8, frac_digits: u8, frac: u32, off_min: i16, zulu: bool },
}

#[derive(Clone, Debug, Serialize, Deserialize, PartialEq, Eq, Hash)]
pub struct TextCase {
    pub members: Vec<(String, MemberVal)>,
    /// per member: how its NAME is spelled on the wire (0 plain, 1 first character as a \uXXXX
    /// escape, 2 every character escaped, 3 last character escaped) - the same name to any JSON parser
    #[serde(default)]
    pub spell: Vec<u8>,
}

/// the JSON string literal for a member name under a spelling mode
fn key_json(k: &str, mode: u8) -> String {
    let plain = serde_json::to_string(k).unwrap();
    if mode == 0 || k.is_empty() {
        return plain;
    }
    let n = k.chars().count();
    let mut out = String::from("\"");
    for (i, ch) in k.chars().enumerate() {
        let esc = match mode % 4 {
            1 => i == 0,
            2 => true,
            _ => i == n - 1,
        };
        if esc {
            let mut buf = [0u16; 2];
            for u in ch.encode_utf16(&mut buf) {
                out.push_str(&format!("\\u{:04x}", u));
            }
        } else {
            let lit = serde_json::to_string(&ch.to_string()).unwrap();
            out.push_str(&lit[1..lit.len() - 1]);
        }
    }
    out.push('"');
    out
}

fn stamp_text(v: &MemberVal) -> Option<(String, i128)> {
    if let MemberVal::Stamp { y, mo, d, h, mi, s, frac_digits, frac, off_min, zulu } = v {
        let mut t = format!("{y:04}-{mo:02}-{d:02}T{h:02}:{mi:02}:{s:02}");
        let mut frac_ns: i128 = 0;
        if *frac_digits > 0 {
            let digits = format!("{:09}", frac % 1_000_000_000);
            let shown = &digits[..*frac_digits as usize];
            t.push('.');
            t.push_str(shown);
            frac_ns = shown.parse::<i128>().unwrap() * 10i128.pow(9 - *frac_digits as u32);
        }
        if *zulu && *off_min == 0 {
            t.push('Z');
        } else {
            let a = off_min.unsigned_abs();
            t.push_str(&format!("{}{:02}:{:02}", if *off_min < 0 { '-' } else { '+' }, a / 60, a % 60));
        }
        let secs = days_from_civil(*y as i64, *mo as i64, *d as i64) * 86_400 + *h as i64 * 3600 + *mi as i64 * 60 + *s as i64 - *off_min as i64 * 60;
        Some((t, secs as i128 * 1_000_000_000 + frac_ns))
    } else {
        None
    }
}

fn member_json(v: &MemberVal) -> String {
    match v {
        MemberVal::Str(s) => serde_json::to_string(s).unwrap(),
        MemberVal::Null => "null".into(),
        MemberVal::Num(n) => n.to_string(),
        MemberVal::Bool(b) => b.to_string(),
        MemberVal::Arr => "[1,{\"iss\":\"nested\"}]".into(),
        MemberVal::Obj => "{\"exp\":\"nested\",\"x\":[]}".into(),
        MemberVal::Stamp { .. } => serde_json::to_string(&stamp_text(v).unwrap().0).unwrap(),
    }
}

fn text_strategy() -> impl Strategy<Value = TextCase> {
    let key = prop_oneof![
        10 => prop::sample::select(vec!["iss", "sub", "aud", "exp", "nbf", "iat", "jti"]).prop_map(|s| s.to_string()),
        4 => prop::sample::select(vec!["data", "ISS", "iss ", "", "expx", "ex", "kid", "\u{0}", "exp\u{0}"]).prop_map(|s| s.to_string()),
        1 => "\\PC{0,8}",
    ];
    let stamp = (1u16..=9999, 1u8..=12, 1u8..=28, 0u8..24, 0u8..60, 0u8..60, prop_oneof![3 => Just(0u8), 2 => 1u8..=9], any::<u32>(), prop_oneof![3 => Just(0i16), 2 => -840i16..=840], any::<bool>())
        .prop_map(|(y, mo, d, h, mi, s, frac_digits, frac, off_min, zulu)| MemberVal::Stamp { y, mo, d, h, mi, s, frac_digits, frac, off_min, zulu });
    let val = prop_oneof![
        5 => string_strategy().prop_map(MemberVal::Str),
        5 => stamp,
        2 => Just(MemberVal::Null),
        1 => any::<i64>().prop_map(MemberVal::Num),
        1 => any::<bool>().prop_map(MemberVal::Bool),
        1 => Just(MemberVal::Arr),
        1 => Just(MemberVal::Obj),
    ];
    let general = proptest::collection::vec((key, val, prop_oneof![5 => Just(0u8), 1 => Just(1u8), 1 => Just(2u8), 1 => Just(3u8)]), 0..10).prop_map(|ms| TextCase { spell: ms.iter().map(|m| m.2).collect(), members: ms.into_iter().map(|m| (m.0, m.1)).collect() });
    // every registered claim present once, in any order, with 0..4 unknown members anywhere (also last):
    // what a foreign issuer's full token looks like
    let stamp2 = || (2000u16..=2100, 1u8..=12, 1u8..=28, 0u8..24, 0u8..60, 0u8..60).prop_map(|(y, mo, d, h, mi, s)| MemberVal::Stamp { y, mo, d, h, mi, s, frac_digits: 0, frac: 0, off_min: 0, zulu: true });
    let full = (string_strategy(), string_strategy(), string_strategy(), string_strategy(), stamp2(), stamp2(), stamp2(), proptest::collection::vec((prop::sample::select(vec!["data", "role", "zzz", "a"]), any::<u8>()), 0..4), any::<u64>(), proptest::collection::vec((0usize..7, any::<u8>(), any::<bool>()), 0..3)).prop_map(|(iss, sub, aud, jti, exp, nbf, iat, extras, order, dups)| {
        let mut members: Vec<(String, MemberVal)> = vec![
            ("iss".into(), MemberVal::Str(iss)),
            ("sub".into(), MemberVal::Str(sub)),
            ("aud".into(), MemberVal::Str(aud)),
            ("jti".into(), MemberVal::Str(jti)),
            ("exp".into(), exp),
            ("nbf".into(), nbf),
            ("iat".into(), iat),
        ];
        // a deterministic shuffle
        let mut o = order;
        for i in (1..members.len()).rev() {
            o = o.wrapping_mul(6364136223846793005).wrapping_add(1442695040888963407);
            members.swap(i, (o >> 33) as usize % (i + 1));
        }
        let mut seen = std::collections::BTreeSet::new();
        for (k, pos) in extras {
            if seen.insert(k) {
                let at = (pos as usize) % (members.len() + 1);
                members.insert(at, (k.to_string(), MemberVal::Num(pos as i64)));
            }
        }
        // one case in three repeats a registered member (another value), at the end or anywhere
        for (which, pos, at_end) in dups {
            let name = ["iss", "sub", "aud", "jti", "exp", "nbf", "iat"][which];
            let val = if which < 4 { MemberVal::Str(format!("second-{pos}")) } else { MemberVal::Stamp { y: 2200 + pos as u16, mo: 1, d: 1, h: 0, mi: 0, s: 0, frac_digits: 0, frac: 0, off_min: 0, zulu: true } };
            let at = if at_end { members.len() } else { (pos as usize) % (members.len() + 1) };
            members.insert(at, (name.to_string(), val));
        }
        TextCase { spell: vec![0; members.len()], members }
    });
    prop_oneof![5 => general, 1 => full]
}

const STRING_CLAIMS: [&str; 4] = ["iss", "sub", "aud", "jti"];
const TIME_CLAIMS: [&str; 3] = ["exp", "nbf", "iat"];

fn text_case(c: &TextCase, acc: &mut Acc) -> R {
    let text = format!("{{{}}}", c.members.iter().enumerate().map(|(i, (k, v))| format!("{}:{}", key_json(k, c.spell.get(i).copied().unwrap_or(0)), member_json(v))).collect::<Vec<_>>().join(","));
    let generic: Value = serde_json::from_str(&text).map_err(|e| Fail::new("HARNESS/c14-text", format!("generator wrote invalid JSON: {e}")))?;
    let obj = generic.as_object().unwrap();
    let decoded = RegisteredClaims::decode(text.as_bytes());
    // what the generator knows about the last occurrence of each registered member
    let last = |k: &str| c.members.iter().rev().find(|(kk, _)| kk == k).map(|(_, v)| v);
    let count = |k: &str| c.members.iter().filter(|(kk, _)| kk == k).count();
    let mut all_valid = true;
    let mut any_dup = false;
    for k in STRING_CLAIMS {
        if count(k) > 1 {
            any_dup = true;
        }
        if c.members.iter().any(|(kk, v)| kk == k && !matches!(v, MemberVal::Str(_) | MemberVal::Null)) {
            all_valid = false;
        }
    }
    for k in TIME_CLAIMS {
        if count(k) > 1 {
            any_dup = true;
        }
        if c.members.iter().any(|(kk, v)| kk == k && !matches!(v, MemberVal::Stamp { .. } | MemberVal::Null)) {
            all_valid = false;
        }
    }
    match &decoded {
        Ok(cl) => {
            for (k, got) in [("iss", &cl.iss), ("sub", &cl.sub), ("aud", &cl.aud), ("jti", &cl.jti)] {
                let want: Option<&str> = obj.get(k).and_then(|v| v.as_str());
                let is_nullish = obj.get(k).map(|v| v.is_null()).unwrap_or(true);
                ensure!(
                    got.as_deref() == want && (want.is_some() || is_nullish),
                    format!("C14/claims/text-decode/{k}-differs-from-generic-parser"),
                    "decode gives {k} = {got:?} but a generic JSON parser reads {:?} from {text}",
                    obj.get(k)
                );
            }
            for (k, got) in [("exp", &cl.exp), ("nbf", &cl.nbf), ("iat", &cl.iat)] {
                match last(k) {
                    Some(v @ MemberVal::Stamp { .. }) => {
                        let (_, ns) = stamp_text(v).unwrap();
                        ensure!(
                            got.map(|t| t.as_nanosecond()) == Some(ns),
                            format!("C14/claims/text-decode/{k}-instant-differs"),
                            "decode gives {k} = {got:?}, the member text denotes {ns} ns ({text})"
                        );
                    }
                    Some(MemberVal::Null) | None => {
                        ensure!(got.is_none(), format!("C14/claims/text-decode/{k}-invented"), "{k} absent/null in the text but decoded as {got:?}");
                    }
                    Some(other) => {
                        return Err(Fail::new(format!("C14/claims/text-decode/{k}-wrong-type-accepted"), format!("member {k} = {other:?} decoded as {got:?}")));
                    }
                }
            }
        }
        Err(e) => {
            // unknown members, member order and null members must not make decoding fail
            if all_valid && !any_dup {
                return Err(Fail::new("C14/claims/text-decode/rejects-valid-object", format!("an object with well-typed registered members, no duplicates and arbitrary extra members was rejected: {e} ({text})")));
            }
        }
    }
    acc.eval();
    let extra = c.members.iter().any(|(k, _)| !STRING_CLAIMS.contains(&k.as_str()) && !TIME_CLAIMS.contains(&k.as_str()));
    if extra || any_dup || c.members.len() >= 2 {
        acc.nt(hash_of(c));
    }
    acc.class(if decoded.is_ok() { "text:decoded" } else { "text:rejected" });
    if any_dup {
        acc.class("text:duplicate-registered-member");
    }
    if extra {
        acc.class("text:extra-members");
    }
    acc.sample(|| json!({"text": text.chars().take(200).collect::<String>(), "decoded": decoded.is_ok()}));
    Ok(())
}

// --- Json<T> transparency ---

#[derive(Clone, Debug, Serialize, Deserialize, PartialEq)]
struct Custom {
    id: u64,
    name: String,
    tags: Vec<String>,
    nested: Option<Box<Custom>>,
}

fn value_strategy() -> impl Strategy<Value = Value> {
    let leaf = prop_oneof![
        Just(Value::Null),
        any::<bool>().prop_map(Value::Bool),
        any::<i64>().prop_map(|n| json!(n)),
        any::<u64>().prop_map(|n| json!(n)),
        (-1.0e9f64..1.0e9).prop_map(|f| json!(f)),
        string_strategy().prop_map(Value::String),
    ];
    leaf.prop_recursive(3, 24, 5, |inner| {
        prop_oneof![
            proptest::collection::vec(inner.clone(), 0..5).prop_map(Value::Array),
            proptest::collection::vec((string_strategy(), inner), 0..5).prop_map(|kv| Value::Object(kv.into_iter().collect::<Map<String, Value>>())),
        ]
    })
}

fn json_case(v: &Value, acc: &mut Acc) -> R {
    let mut wire = Vec::new();
    Payload::encode(Json(v.clone()), &mut wire).map_err(|e| Fail::new("C14/json/payload-encode", format!("{e}")))?;
    ensure!(wire == serde_json::to_vec(v).unwrap(), "C14/json/payload-encode-differs", "Json<T>::encode differs from serde_json::to_vec");
    let back = <Json<Value> as Payload>::decode(&wire).map_err(|e| Fail::new("C14/json/payload-decode", format!("{e}")))?;
    ensure!(back.0 == serde_json::from_slice::<Value>(&wire).unwrap(), "C14/json/payload-decode-differs", "Json<T>::decode differs from serde_json::from_slice");
    let mut fw = Vec::new();
    Footer::encode(&Json(v.clone()), &mut fw).map_err(|e| Fail::new("C14/json/footer-encode", format!("{e}")))?;
    ensure!(fw == wire, "C14/json/footer-encode-differs", "footer encoding differs from payload encoding");
    let fb = <Json<Value> as Footer>::decode(&fw).map_err(|e| Fail::new("C14/json/footer-decode", format!("{e}")))?;
    ensure!(fb.0 == back.0, "C14/json/footer-decode-differs", "footer decode differs");
    ensure!(<Json<Value> as Footer>::decode(b"").is_err(), "C14/json/empty-footer-accepted", "an empty footer decoded as Json<T>");
    // invalid JSON is an error, not a value
    let mut broken = wire.clone();
    broken.push(b'}');
    ensure!(<Json<Value> as Payload>::decode(&broken).is_err() == serde_json::from_slice::<Value>(&broken).is_err(), "C14/json/invalid-json", "Json<T>::decode and serde_json disagree on invalid input");
    // a typed struct
    let cst = Custom { id: hash_of(&wire), name: v.to_string().chars().take(20).collect(), tags: vec!["a".into(), String::new()], nested: Some(Box::new(Custom { id: 1, name: "n".into(), tags: vec![], nested: None })) };
    let mut cw = Vec::new();
    Payload::encode(Json(cst.clone()), &mut cw).map_err(|e| Fail::new("C14/json/struct-encode", format!("{e}")))?;
    ensure!(cw == serde_json::to_vec(&cst).unwrap(), "C14/json/struct-encode-differs", "typed Json<T>::encode differs from serde_json");
    let cb = <Json<Custom> as Payload>::decode(&cw).map_err(|e| Fail::new("C14/json/struct-decode", format!("{e}")))?;
    ensure!(cb.0 == cst, "C14/json/struct-roundtrip", "typed payload does not round-trip");
    acc.eval();
    if v.is_object() || v.is_array() {
        acc.nt(hash_of(&wire));
    }
    acc.class(match v {
        Value::Object(_) => "value:object",
        Value::Array(_) => "value:array",
        _ => "value:scalar",
    });
    Ok(())
}

// --- histories: encodes and decodes that fail must not influence later ones -----------------

/// serialises one member, then fails (after the serializer has already emitted output)
struct FailsMidway(Value);
impl<'de> serde::Deserialize<'de> for FailsMidway {
    fn deserialize<D: serde::Deserializer<'de>>(d: D) -> Result<Self, D::Error> {
        Value::deserialize(d).map(FailsMidway)
    }
}
impl serde::Serialize for FailsMidway {
    fn serialize<S: serde::Serializer>(&self, s: S) -> Result<S::Ok, S::Error> {
        use serde::ser::{Error, SerializeStruct};
        let mut st = s.serialize_struct("FailsMidway", 2)?;
        st.serialize_field("emitted", &self.0)?;
        Err(S::Error::custom("second member refuses to serialise"))
    }
}

#[derive(Clone, Debug, Serialize, Deserialize)]
pub enum HistOp {
    /// Json<T> payload encode that fails after emitting output (custom Serialize)
    FailPayloadEncode,
    /// Json<T> footer encode of a map with non-string keys (serde_json refuses after '{')
    FailFooterEncode,
    /// decode of invalid JSON through Json<Value> and RegisteredClaims
    FailDecode,
    /// checked: RegisteredClaims encode/decode
    Claims(Claims),
    /// checked: Json<Value> payload and footer encode/decode
    Json(u8),
}

fn hist_strategy() -> impl Strategy<Value = Vec<HistOp>> {
    let op = prop_oneof![
        2 => Just(HistOp::FailPayloadEncode),
        2 => Just(HistOp::FailFooterEncode),
        1 => Just(HistOp::FailDecode),
        3 => claims_strategy().prop_map(HistOp::Claims),
        3 => any::<u8>().prop_map(HistOp::Json),
    ];
    proptest::collection::vec(op, 1..8)
}

fn hist_case(ops: &Vec<HistOp>, acc: &mut Acc) -> R {
    let mut failures_before = 0u32;
    let mut checked_after_failure = false;
    for op in ops {
        match op {
            HistOp::FailPayloadEncode => {
                let mut w = Vec::new();
                let r = Payload::encode(Json(FailsMidway(json!({"k": [1, 2, 3], "s": "text"}))), &mut w);
                ensure!(r.is_err(), "C14/history/failing-encode-succeeded", "a payload whose Serialize fails was encoded");
                failures_before += 1;
            }
            HistOp::FailFooterEncode => {
                let mut w = Vec::new();
                let mut m = std::collections::BTreeMap::new();
                m.insert((1u8, 2u8), 3u8);
                let r = Footer::encode(&Json(m), &mut w);
                ensure!(r.is_err(), "C14/history/failing-encode-succeeded", "a map with non-string keys was encoded as JSON");
                failures_before += 1;
            }
            HistOp::FailDecode => {
                ensure!(<Json<Value> as Payload>::decode(b"{\"a\":").is_err() && RegisteredClaims::decode(b"{\"iss\":\"x\"").is_err(), "C14/history/invalid-json-accepted", "truncated JSON decoded");
                failures_before += 1;
            }
            HistOp::Claims(c) => {
                let claims = build(c);
                let mut wire = Vec::new();
                claims.clone().encode(&mut wire).map_err(|e| Fail::new("C14/history/claims-encode-failed", format!("after {failures_before} failed operations: {e}")))?;
                let back = RegisteredClaims::decode(&wire).map_err(|e| {
                    Fail::new("C14/history/claims-decode-of-own-output-failed", format!("after {failures_before} failed operations on this thread the wire form is {:?}: {e}", String::from_utf8_lossy(&wire).chars().take(120).collect::<String>()))
                })?;
                ensure!(same(&back, &claims), "C14/history/claims-roundtrip-differs", "after {failures_before} failed operations decode(encode(c)) != c");
                checked_after_failure |= failures_before > 0;
            }
            HistOp::Json(n) => {
                let v = json!({"n": n, "list": [n, null, "x"], "s": "\u{0}\"\\"});
                let mut w = Vec::new();
                Payload::encode(Json(v.clone()), &mut w).map_err(|e| Fail::new("C14/history/json-encode-failed", format!("{e}")))?;
                ensure!(w == serde_json::to_vec(&v).unwrap(), "C14/history/json-encode-differs", "after {failures_before} failed operations Json<T>::encode gives {:?}", String::from_utf8_lossy(&w).chars().take(120).collect::<String>());
                let mut fw = Vec::new();
                Footer::encode(&Json(v.clone()), &mut fw).map_err(|e| Fail::new("C14/history/json-footer-encode-failed", format!("{e}")))?;
                ensure!(fw == w, "C14/history/json-footer-encode-differs", "after {failures_before} failed operations the footer encoding differs");
                let b = <Json<Value> as Payload>::decode(&w).map_err(|e| Fail::new("C14/history/json-decode-failed", format!("{e}")))?;
                ensure!(b.0 == v, "C14/history/json-roundtrip-differs", "Json<Value> does not round-trip");
                checked_after_failure |= failures_before > 0;
            }
        }
    }
    acc.eval();
    if checked_after_failure {
        acc.nt(hash_of(&format!("{ops:?}")));
        acc.class("history:checked-encode-after-a-failed-one");
    } else {
        acc.class("history:no-failure-before-a-checked-encode");
    }
    Ok(())
}

// --- JSON texts that are not objects ---------------------------------------------------------

/// arrays (of every length 0..9, with elements that would fit the claims positionally), scalars,
/// strings: a generic JSON parser reads no member from them, so a successful decode may not
/// produce any claim
fn non_object_case(c: &(u8, u8, String), acc: &mut Acc) -> R {
    let (len, style, text) = (c.0 % 10, c.1 % 4, &c.2);
    let s = serde_json::to_string(text).unwrap();
    let stamp = "\"2039-01-01T00:00:00Z\"";
    let elems: Vec<String> = (0..len)
        .map(|i| match style {
            0 => "null".to_string(),
            1 => if (3..6).contains(&i) { stamp.to_string() } else { s.clone() },
            2 => if i % 2 == 0 { s.clone() } else { "null".to_string() },
            _ => i.to_string(),
        })
        .collect();
    let texts = [format!("[{}]", elems.join(",")), s.clone(), "null".to_string(), "true".to_string(), len.to_string(), format!("[[{}]]", elems.join(","))];
    for t in texts {
        if let Ok(cl) = RegisteredClaims::decode(t.as_bytes()) {
            let any = cl.iss.is_some() || cl.sub.is_some() || cl.aud.is_some() || cl.exp.is_some() || cl.nbf.is_some() || cl.iat.is_some() || cl.jti.is_some();
            ensure!(!any, "C14/claims/non-object-decoded-to-claims", "the JSON text {t} is not an object, yet it decoded to claims {:?}", (cl.iss, cl.sub, cl.aud, cl.exp, cl.nbf, cl.iat, cl.jti));
            acc.class("non-object:accepted-as-empty-claims");
        } else {
            acc.class("non-object:rejected");
        }
    }
    acc.eval();
    acc.nt(hash_of(c));
    Ok(())
}

pub fn def() -> PropertyDef {
    let subs = vec![
        SubCheck::prop("c14.non-object", 1, (1000, 20000), |_t| (any::<u8>(), any::<u8>(), string_strategy()), non_object_case),
        SubCheck::prop("c14.history", 1, (5000, 100000), |_t| hist_strategy(), hist_case),
        SubCheck::prop("c14.claims-roundtrip", 2, (20000, 400000), |_t| claims_strategy(), roundtrip_case),
        SubCheck::prop("c14.claims-text", 2, (20000, 400000), |_t| text_strategy(), text_case),
        SubCheck {
            isolate: false,
            name: "c14.json-wrapper".into(),
            weight: 1,
            run: Box::new(|acc: &mut Acc| {
                let n = acc.tier.pick(5000, 100000);
                acc.drive("main", n, value_strategy(), json_case);
            }),
            replay: Box::new(|v: &Value, acc: &mut Acc| {
                let input = v.get("input").cloned().unwrap_or(v.clone());
                json_case(&input, acc)
            }),
        },
    ];
    PropertyDef {
        id: "C14",
        level: "exploration",
        rule: "(a) proptest RegisteredClaims (7 fields absent/present; strings over all of Unicode incl. long runs of 200..5000 characters, NUL, quotes, backslash, U+2028, surrogate-adjacent code points, U+10FFFF; timestamps over jiff's range at ns resolution): decode(encode(c)) == c field-wise (also when embedded in an application struct with #[serde(flatten)]), the wire form parses with serde_json::Value to an object whose member set is exactly the present claims, strings byte for byte, timestamps (years 0000..9999) accepted by an own strict RFC 3339 reader and denoting the same instant; (b) generated JSON object texts (registered and look-alike keys, member names spelled plainly or with \\uXXXX escapes, strings, nulls, wrong types, nested objects re-using claim names, timestamps written from civil components with 0-9 fraction digits and numeric offsets, arbitrary order, duplicates): when decode succeeds every registered claim equals what a generic parser reads for that member (last duplicate; instants computed by the generator, not by jiff); objects with well-typed members, no duplicates and arbitrary extras must decode (incl. objects with all seven claims present in any order and unknown members before, between and after them, and such objects with a registered member repeated anywhere, also after the seventh); JSON texts that are not objects (arrays of 0..9 elements incl. elements that would fit the seven claims positionally, scalars, strings) never decode to any claim; (c) Json<T> payload/footer equal serde_json::to_vec / from_slice on generated Value trees and a typed struct; empty Json footer is an error; (d) histories on one thread mixing encodes / decodes that fail (a Serialize impl failing after it emitted output, non-string map keys, truncated JSON) with checked encodes and decodes: a failed operation leaves nothing behind. Non-trivial iff 1..6 fields present / an extra, duplicate or >= 2 members / a container value",
        assumptions: vec!["leap seconds (:60) are not generated (jiff clamps them; the generator's own arithmetic would not)", "negative and 5-digit years are checked for round-trip only (outside RFC 3339)"],
        subs,
    }
}
