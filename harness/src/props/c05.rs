//! C05 — wrapping / password-wrapping / sealing a key and undoing it returns the same key,
//! and the serialised form has the fixed length the format prescribes.

use paseto_core::key::{HasKey, Key, SealingKey};
use paseto_core::paserk::{PasswordWrappedKey, PieWrappedKey, SealedKey};
use paseto_core::version::{Local, Secret};
use proptest::prelude::*;
use serde::{Deserialize, Serialize};
use serde_json::json;

use crate::backends::*;
use crate::engine::*;
use crate::ensure;
use crate::gens::{self, BytesSpec};
use crate::refmodel::{self as model, PwParams, Ver};
use crate::rng;
use crate::util::b64_decode;

#[derive(Clone, Debug, Serialize, Deserialize)]
pub enum Op {
    Pie,
    Pbkw(PwParams),
    /// PKE; for v1 on a getrandom back end `aim_leading_zero` scripts the RSA-KEM draw so that
    /// the ciphertext c has that many leading zero bytes
    Pke { aim_leading_zero: u8 },
}

#[derive(Clone, Debug, Serialize, Deserialize)]
pub struct Case {
    pub op: Op,
    pub secret: bool,
    pub key_random: bool,
    pub wrapped: KeySeed,
    pub wrapping: KeySeed,
    pub password: BytesSpec,
    /// v1 / v3: force the derived AES-CTR counter block (paseto_verif hook) for wrap AND unwrap,
    /// so that "all values of the internal randomness" includes blocks whose counter carries
    #[serde(default)]
    pub iv: Option<crate::props::c03::NonceKind>,
    /// the password is the wrapped local key's own 32 bytes
    #[serde(default)]
    pub password_is_key: bool,
}

pub fn params_strategy<B: Backend>(tier: Tier) -> BoxedStrategy<PwParams> {
    if B::VER.nist() {
        prop_oneof![
            3 => Just(PwParams::Pbkdf2 { iterations: 1 }),
            6 => (1u32..=2000).prop_map(|iterations| PwParams::Pbkdf2 { iterations }),
            1 => (2001u32..=tier.pick(10_000, 10_000)).prop_map(|iterations| PwParams::Pbkdf2 { iterations }),
        ]
        .boxed()
    } else {
        let para = if B::PBKW_PARALLEL { (1u32..=4).boxed() } else { Just(1u32).boxed() };
        // one case in ten: a byte count that is not a whole number of KiB (a back end may decline it;
        // what it wraps it must unwrap)
        (8u64..=tier.pick(512, 4096), 1u32..=3, para, prop_oneof![9 => Just(0u64), 1 => 1u64..1024])
            .prop_map(|(kib, time, para, odd)| PwParams::Argon2id { mem_bytes: kib.max(8 * para as u64) * 1024 + odd, time, para })
            .boxed()
    }
}

fn strat<B: Backend>(tier: Tier, which: u8) -> BoxedStrategy<Case> {
    let op: BoxedStrategy<Op> = match which {
        0 => Just(Op::Pie).boxed(),
        1 => params_strategy::<B>(tier).prop_map(Op::Pbkw).boxed(),
        _ => {
            if B::VER == Ver::V1 {
                prop_oneof![2 => Just(0u8), 2 => Just(1u8), 1 => Just(2u8)].prop_map(|z| Op::Pke { aim_leading_zero: z }).boxed()
            } else {
                Just(Op::Pke { aim_leading_zero: 0 }).boxed()
            }
        }
    };
    let iv = if B::VER.nist() {
        prop_oneof![3 => Just(None), 2 => crate::props::c03::nonce_kind().prop_map(Some)].boxed()
    } else {
        Just(None).boxed()
    };
    // relations BETWEEN the inputs: a key wrapped under itself, a password equal to the key's bytes
    let relation = prop_oneof![8 => Just(0u8), 1 => Just(1u8), 1 => Just(2u8)];
    (op, any::<bool>(), prop::bool::weighted(0.2), gens::key_seed(), gens::key_seed(), gens::password(), iv, relation)
        .prop_map(|(op, secret, key_random, wrapped, wrapping, password, iv, relation)| (op, secret, key_random, wrapped.clone(), if relation == 1 { wrapped.clone() } else { wrapping }, password, iv, relation == 2))
        .prop_map(|(op, secret, key_random, wrapped, wrapping, password, iv, password_is_key)| Case {
            iv,
            password_is_key,
            secret: secret && !matches!(op, Op::Pke { .. }),
            key_random: key_random && !(B::VER == Ver::V1 && secret),
            op,
            wrapped,
            wrapping,
            password,
        })
        .boxed()
}

fn kind(secret: bool) -> &'static str {
    if secret { "secret" } else { "local" }
}

/// decoded length of the base64 body after the last header dot
fn body_len(text: &str, header: &str) -> Option<usize> {
    b64_decode(text.strip_prefix(header)?).map(|b| b.len())
}

fn pie<B: Backend, K: SealingKey>(_acc: &mut Acc, c: &Case, key: Key<V<B>, K>) -> R
where
    V<B>: HasKey<K>,
{
    let name = B::NAME;
    let k = kind(c.secret);
    let orig = key_bytes(&key);
    let wk = local_key::<B>(&c.wrapping);
    let wrapped = key
        .wrap_pie(&wk)
        .map_err(|e| Fail::new(format!("C05/{name}/pie/{k}/wrap/err-{}", err_kind(&e)), format!("wrap_pie failed: {e}")))?;
    let text = wrapped.to_string();
    let h = format!("{}.{k}-wrap.pie.", B::VER.k());
    let tl = if B::VER.nist() { 48 } else { 32 };
    let want = tl + 32 + orig.len();
    ensure!(
        body_len(&text, &h) == Some(want),
        format!("C05/{name}/pie/{k}/length"),
        "serialised PIE blob has {:?} bytes, format prescribes {want}",
        body_len(&text, &h)
    );
    let parsed: PieWrappedKey<V<B>, K> =
        text.parse().map_err(|e| Fail::new(format!("C05/{name}/pie/{k}/parse"), format!("own output does not parse: {e}")))?;
    ensure!(parsed.to_string() == text, format!("C05/{name}/pie/{k}/reserialise"), "parse->to_string differs");
    let un = parsed
        .unwrap(&wk)
        .map_err(|e| Fail::new(format!("C05/{name}/pie/{k}/unwrap/err-{}", err_kind(&e)), format!("unwrap with the wrapping key failed: {e}")))?;
    ensure!(key_bytes(&un) == orig, format!("C05/{name}/pie/{k}/key-differs"), "unwrapped key differs from the original");
    // the in-memory wrapped object too
    let un2 = wrapped.unwrap(&wk).map_err(|e| Fail::new(format!("C05/{name}/pie/{k}/unwrap-direct"), format!("{e}")))?;
    ensure!(key_bytes(&un2) == orig, format!("C05/{name}/pie/{k}/key-differs-direct"), "unwrapped key differs");
    Ok(())
}

fn pbkw<B: Backend, K: SealingKey>(acc: &mut Acc, c: &Case, p: &PwParams, key: Key<V<B>, K>) -> R
where
    V<B>: HasKey<K>,
{
    let name = B::NAME;
    let k = kind(c.secret);
    let orig = key_bytes(&key);
    let pw = if c.password_is_key { key_bytes(&local_key::<B>(&c.wrapped)) } else { c.password.bytes() };
    let is_default = *p == default_params::<B>();
    let wrapped = if is_default {
        key.password_wrap(&pw)
    } else {
        key.password_wrap_with_params(&pw, &pw_params::<B>(p))
    }
    ;
    let wrapped = match wrapped {
        Ok(w) => w,
        Err(_) if matches!(p, PwParams::Argon2id { mem_bytes, .. } if mem_bytes % 1024 != 0) => {
            acc.class("pbkw:memory-not-whole-KiB:declined");
            return Ok(());
        }
        Err(e) => return Err(Fail::new(format!("C05/{name}/pbkw/{k}/wrap/err-{}", err_kind(&e)), format!("password_wrap failed with {p:?}: {e}"))),
    };
    if matches!(p, PwParams::Argon2id { mem_bytes, .. } if mem_bytes % 1024 != 0) {
        acc.class("pbkw:memory-not-whole-KiB:wrapped");
    }
    let text = wrapped.to_string();
    let h = format!("{}.{k}-pw.", B::VER.k());
    let ver = B::VER;
    let want = model::pbkw_salt_len(ver) + p.bytes().len() + model::pbkw_nonce_len(ver) + orig.len() + model::pbkw_tag_len(ver);
    ensure!(
        body_len(&text, &h) == Some(want),
        format!("C05/{name}/pbkw/{k}/length"),
        "serialised PBKW blob has {:?} bytes, format prescribes {want}",
        body_len(&text, &h)
    );
    // the parameter field carries what was asked for
    let parts = model::pbkw_split(ver, k, &text).map_err(|e| Fail::new(format!("C05/{name}/pbkw/{k}/layout"), e))?;
    ensure!(parts.params == *p, format!("C05/{name}/pbkw/{k}/params-field"), "blob carries {:?}, requested {p:?}", parts.params);
    let parsed: PasswordWrappedKey<V<B>, K> =
        text.parse().map_err(|e| Fail::new(format!("C05/{name}/pbkw/{k}/parse"), format!("own output does not parse: {e}")))?;
    ensure!(parsed.to_string() == text, format!("C05/{name}/pbkw/{k}/reserialise"), "parse->to_string differs");
    let un = parsed
        .unwrap(&pw)
        .map_err(|e| Fail::new(format!("C05/{name}/pbkw/{k}/unwrap/err-{}", err_kind(&e)), format!("unwrap with the password failed: {e}")))?;
    ensure!(key_bytes(&un) == orig, format!("C05/{name}/pbkw/{k}/key-differs"), "unwrapped key differs from the original");
    Ok(())
}

/// v1 PKE: construct the rare RSA-KEM draw instead of waiting for it.  Picks a ciphertext c with
/// `aim` leading zero bytes, takes r = c^d mod n, keeps it if the library's bit masking leaves it
/// unchanged, and scripts it as the next 512-byte draw.  Returns the number of leading zero bytes
/// aimed (0 if no candidate was found).
pub fn script_leading_zero_c(seed: u64, aim: u8, sk_bytes: &[u8], pk_bytes: &[u8]) -> Result<u8, Fail> {
    let rp = model::rsa_pub_from_spki(pk_bytes).map_err(|e| Fail::new("HARNESS/rsa-pub", e))?;
    for t in 0..64u64 {
        let mut cbytes = rng::det_bytes(seed, 0xc0de + t, 512);
        for b in cbytes.iter_mut().take(aim as usize) {
            *b = 0;
        }
        if cbytes[aim as usize] == 0 {
            cbytes[aim as usize] = 1;
        }
        let r = model::rsa_kem_r_fast(sk_bytes, &cbytes).map_err(|e| Fail::new("HARNESS/rsa-crt", e))?;
        if r[0] & 0xc0 == 0x40 {
            if model::rsa_kem_c(&rp, &r) != cbytes {
                return Err(Fail::new("HARNESS/rsa-crt-check", "r^e != c"));
            }
            rng::script(vec![r]);
            return Ok(aim);
        }
    }
    Ok(0)
}

fn pke<B: Backend>(acc: &mut Acc, c: &Case, aim: u8, key: LocalKeyOf<B>) -> R {
    let name = B::NAME;
    let orig = key_bytes(&key);
    let (sk, pk, sk_bytes, pk_bytes) = pke_pair::<B>(&c.wrapping);
    let aimed = if B::VER == Ver::V1 && B::GETRANDOM && aim > 0 { script_leading_zero_c(hash_of(&c.wrapped), aim, &sk_bytes, &pk_bytes)? } else { 0 };
    rng::begin_op();
    let sealed = key.seal(&pk);
    rng::end_op();
    let sealed =
        sealed.map_err(|e| Fail::new(format!("C05/{name}/pke/seal/err-{}", err_kind(&e)), format!("seal failed: {e}")))?;
    let text = sealed.to_string();
    let h = format!("{}.seal.", B::VER.k());
    let want = match B::VER {
        Ver::V1 => 48 + 32 + 512,
        Ver::V3 => 48 + 49 + 32,
        _ => 96,
    };
    let got = body_len(&text, &h);
    if got != Some(want) {
        let class = if B::VER == Ver::V1 && got.map(|g| g < want).unwrap_or(false) { "ciphertext-leading-zero" } else { "length" };
        return Err(Fail::new(
            format!("C05/{name}/pke/seal/{class}"),
            format!("sealed key has {got:?} bytes, format prescribes {want} (aimed leading zero bytes of c: {aimed})"),
        ));
    }
    let parsed: SealedKey<V<B>> =
        text.parse().map_err(|e| Fail::new(format!("C05/{name}/pke/parse"), format!("own output does not parse: {e}")))?;
    ensure!(parsed.to_string() == text, format!("C05/{name}/pke/reserialise"), "parse->to_string differs");
    let un = parsed
        .unseal(&sk)
        .map_err(|e| Fail::new(format!("C05/{name}/pke/unseal/err-{}", err_kind(&e)), format!("unseal with the recipient secret failed: {e}")))?;
    ensure!(key_bytes(&un) == orig, format!("C05/{name}/pke/key-differs"), "unsealed key differs from the original");
    if aimed > 0 {
        acc.class("pke:v1-ciphertext-leading-zero-constructed");
        let blob = b64_decode(&text[h.len()..]).unwrap();
        ensure!(
            blob[80..80 + aimed as usize].iter().all(|b| *b == 0),
            format!("HARNESS/c05-aim"),
            "scripted draw did not produce the aimed ciphertext"
        );
    }
    Ok(())
}

pub fn run_case<B: Backend>(c: &Case, acc: &mut Acc) -> R {
    rng::reseed_case(hash_of(&(&c.wrapped, &c.wrapping, &c.password)));
    let _g = c.iv.as_ref().filter(|_| B::VER.nist()).map(|k| {
        if k.is_wrap() {
            acc.class("forced-counter-block:carry");
        } else {
            acc.class("forced-counter-block:other");
        }
        crate::props::c03::IvGuard::<B>::new(k.bytes(16).try_into().unwrap())
    });
    let opname = match &c.op {
        Op::Pie => "pie",
        Op::Pbkw(_) => "pbkw",
        Op::Pke { .. } => "pke",
    };
    let r = if c.secret {
        let key: SecretKeyOf<B> = if c.key_random {
            SecretKeyOf::<B>::random().map_err(|e| Fail::new(format!("C05/{}/random-secret", B::NAME), format!("{e}")))?
        } else {
            secret_key::<B>(&c.wrapped)
        };
        match &c.op {
            Op::Pie => pie::<B, Secret>(acc, c, key),
            Op::Pbkw(p) => pbkw::<B, Secret>(acc, c, p, key),
            Op::Pke { .. } => Ok(()),
        }
    } else {
        let key: LocalKeyOf<B> = if c.key_random {
            LocalKeyOf::<B>::random().map_err(|e| Fail::new(format!("C05/{}/random-local", B::NAME), format!("{e}")))?
        } else {
            local_key::<B>(&c.wrapped)
        };
        match &c.op {
            Op::Pie => pie::<B, Local>(acc, c, key),
            Op::Pbkw(p) => pbkw::<B, Local>(acc, c, p, key),
            Op::Pke { aim_leading_zero } => pke::<B>(acc, c, *aim_leading_zero, key),
        }
    };
    r?;
    acc.eval();
    let nondefault = matches!(&c.op, Op::Pbkw(p) if *p != default_params::<B>());
    let scripted = matches!(&c.op, Op::Pke { aim_leading_zero } if *aim_leading_zero > 0 && B::VER == Ver::V1);
    if nondefault || c.secret || scripted || !c.key_random {
        acc.nt(hash_of(&(format!("{:?}", c.op), c.secret, &c.wrapped, &c.wrapping, &c.password)));
    }
    acc.class(&format!("op:{opname}"));
    acc.class(if c.secret { "wrapped:secret" } else { "wrapped:local" });
    if let Op::Pbkw(p) = &c.op {
        acc.class(if *p == default_params::<B>() { "pbkw:default-params" } else { "pbkw:other-params" });
        if c.password.is_empty() {
            acc.class("pbkw:empty-password");
        }
        if let PwParams::Argon2id { para, .. } = p {
            if *para > 1 {
                acc.class("pbkw:parallelism>1");
            }
        }
    }
    acc.sample(|| json!({"backend": B::NAME, "op": format!("{:?}", c.op), "wrapped_kind": kind(c.secret), "password_len": c.password.len}));
    Ok(())
}

/// v1: key pairs of other modulus sizes.  The unchanged library refuses them; whatever pair a
/// back end does accept as key-sealing keys must seal and unseal like any other.
fn odd_recipients<B: Backend>(acc: &mut Acc) {
    use paseto_core::version::{PkePublic, PkeSecret};
    if B::VER != Ver::V1 {
        return;
    }
    let name = B::NAME;
    for (bits, der) in crate::keypool::odd_sizes() {
        let pubder = public_bytes(B::VER, &der);
        let (Ok(sk), Ok(pk)) = (key_from_bytes::<V<B>, PkeSecret>(&der), key_from_bytes::<V<B>, PkePublic>(&pubder)) else {
            acc.eval();
            acc.class("odd-recipient:refused");
            continue;
        };
        acc.class("odd-recipient:accepted");
        for j in 0..acc.tier.pick(6u64, 24) {
            let key = local_key::<B>(&KeySeed::from_u64(mix(acc.seed, bits as u64 * 31 + j)));
            let orig = key_bytes(&key);
            let case = json!({"modulus_bits": bits, "j": j});
            acc.eval();
            acc.nt(hash_of(&(bits, j)));
            let r = key.seal(&pk).and_then(|s| s.to_string().parse::<SealedKey<V<B>>>()).and_then(|s| s.unseal(&sk));
            match r {
                Ok(k) if key_bytes(&k) == orig => {}
                Ok(_) => acc.fail(Fail::new(format!("C05/{name}/pke/accepted-{bits}-bit-recipient/key-differs"), "seal -> unseal under an accepted recipient pair returns another key"), case),
                Err(e) => acc.fail(Fail::new(format!("C05/{name}/pke/accepted-{bits}-bit-recipient/round-trip-failed"), format!("the back end accepts this {bits}-bit pair as key-sealing keys but seal -> parse -> unseal fails: {e}")), case),
            }
        }
    }
}

fn subs_for<B: Backend>(out: &mut Vec<SubCheck>) {
    if B::VER == Ver::V1 {
        out.push(SubCheck::custom(format!("c05.odd-recipients/{}", B::NAME), 6, odd_recipients::<B>, |_v: &serde_json::Value, acc: &mut Acc| {
            let before = acc.violations.len();
            odd_recipients::<B>(acc);
            match acc.violations.get(before) {
                Some(v) => Err(Fail::new(v.sig.clone(), v.what.clone())),
                None => Ok(()),
            }
        }));
    }
    let v1 = B::VER == Ver::V1;
    for (which, label, cases, weight) in [
        (0u8, "pie", if v1 { (200, 2000) } else { (400, 8000) }, 2),
        (1u8, "pbkw", if v1 { (120, 1500) } else { (300, 6000) }, 4),
        (2u8, "pke", if v1 { (120, 5000) } else { (400, 8000) }, if v1 { 12 } else { 3 }),
    ] {
        out.push(SubCheck::prop(
            format!("c05.roundtrip/{}/{label}", B::NAME),
            weight,
            cases,
            move |tier| strat::<B>(tier, which),
            |c: &Case, acc: &mut Acc| run_case::<B>(c, acc),
        ));
    }
    // high-cost parameters ("any other valid cost parameters"): far above the defaults, a few cases.
    // Bounded by what is affordable: 1-1.5 M iterations / 64-192 MiB in quick, up to 5 M / 512 MiB thorough, plus 4 GiB and just above it (thorough).
    out.push(SubCheck::prop(
        format!("c05.roundtrip/{}/pbkw-high-cost", B::NAME),
        14,
        (1, 5),
        move |tier| {
            let params: BoxedStrategy<PwParams> = if B::VER.nist() {
                (1_000_001u32..=tier.pick(1_500_000, 5_000_000)).prop_map(|iterations| PwParams::Pbkdf2 { iterations }).boxed()
            } else {
                // thorough: also memory costs at and just above 4 GiB (32-bit byte counts end there)
                match tier {
                    Tier::Quick => (64u64..=192, 1u32..=3).prop_map(|(mib, time)| PwParams::Argon2id { mem_bytes: mib << 20, time, para: 1 }).boxed(),
                    Tier::Thorough => prop_oneof![
                        3 => (64u64..=512, 1u32..=6).prop_map(|(mib, time)| PwParams::Argon2id { mem_bytes: mib << 20, time, para: 1 }),
                        2 => prop::sample::select(vec![4096u64, 4097, 4100]).prop_map(|mib| PwParams::Argon2id { mem_bytes: mib << 20, time: 1, para: 1 }),
                    ].boxed(),
                }
            };
            (params, gens::key_seed(), gens::password()).prop_map(|(p, wrapped, password)| Case {
                op: Op::Pbkw(p),
                secret: false,
                key_random: false,
                password_is_key: false,
                wrapped: wrapped.clone(),
                wrapping: wrapped,
                password,
                iv: None,
            })
        },
        |c: &Case, acc: &mut Acc| {
            let r = run_case::<B>(c, acc);
            if r.is_ok() {
                acc.class("pbkw:high-cost-params");
            }
            r
        },
    ));
    // Argon2id memory cost at 4 GiB (where a 32-bit byte count ends): one case per v2 / v4 back end
    // (about 6 s per KDF run, 4 GiB resident while it runs)
    if !B::VER.nist() {
        out.push(SubCheck::prop_exact(
            format!("c05.roundtrip/{}/pbkw-4gib", B::NAME),
            16,
            (1, 2),
            move |_tier| {
                (prop::sample::select(vec![4096u64, 4097]), gens::key_seed(), gens::password()).prop_map(|(mib, wrapped, password)| Case {
                    op: Op::Pbkw(PwParams::Argon2id { mem_bytes: mib << 20, time: 1, para: 1 }),
                    secret: false,
                    key_random: false,
                password_is_key: false,
                    wrapped: wrapped.clone(),
                    wrapping: wrapped,
                    password,
                    iv: None,
                })
            },
            |c: &Case, acc: &mut Acc| {
                let r = run_case::<B>(c, acc);
                if r.is_ok() {
                    acc.class("pbkw:memory>=4GiB");
                }
                r
            },
        ));
    }
    // default-cost PBKW (expensive KDF): a handful
    out.push(SubCheck::prop(
        format!("c05.roundtrip/{}/pbkw-default-cost", B::NAME),
        8,
        (4, 40),
        move |_tier| {
            (any::<bool>(), gens::key_seed(), gens::password()).prop_map(|(secret, wrapped, password)| Case {
                op: Op::Pbkw(default_params::<B>()),
                secret: secret && B::VER != Ver::V1,
                key_random: false,
                password_is_key: false,
                wrapped: wrapped.clone(),
                wrapping: wrapped,
                password,
                iv: None,
            })
        },
        |c: &Case, acc: &mut Acc| run_case::<B>(c, acc),
    ));
}

pub fn def() -> PropertyDef {
    let mut subs = Vec::new();
    crate::for_backends!(B => subs_for::<B>(&mut subs));
    PropertyDef {
        id: "C05",
        level: "exploration",
        rule: "proptest cases (back end x {PIE, PBKW, PKE} x wrapped key {local, secret; parsed, random()} x wrapping key / password (any bytes incl. empty; one case in ten wraps a key under ITSELF, one in ten uses the key's own bytes as password) / PBKW parameters (cheapest, random within budget, default, and a few high-cost ones: > 10^6 PBKDF2 iterations / 64-192 MiB Argon2id, one Argon2id case at 4 GiB per v2/v4 back end, and byte counts that are not whole KiB - which a back end may decline, but must unwrap if it wraps them) x recipient pair (v1: also every pool key of another modulus size that the back end accepts as a key-sealing pair); v1 RSA-KEM draw scripted so that the ciphertext has 1-2 leading zero bytes; v1/v3 derived AES-CTR counter block forced (hook) to values whose counter carries past 64 / 128 bits, for wrap and unwrap alike); oracle = wrap ok, own text parses and re-serialises, unwrap returns the same key bytes, decoded length equals the format's fixed length; non-trivial iff non-default parameters, secret key payload, constructed draw, or parsed key",
        assumptions: vec![
            "PBKW parameters are bounded (<= 4 MiB / 3 passes / 10000 iterations) except the few default-cost cases",
            "v1 keys come from a committed pool of RSA-2048/4096 keys",
        ],
        subs,
    }
}
