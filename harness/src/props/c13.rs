//! C13 — key ids are the spec's hash of the key's PASERK text, stable and domain separated.

use std::hash::{Hash, Hasher};

use paseto_core::key::{HasKey, Key, KeyType};
use paseto_core::paserk::KeyId;
use paseto_core::version::{Local, Public, Secret};
use proptest::prelude::*;
use serde::{Deserialize, Serialize};
use serde_json::{Value, json};

use crate::backends::*;
use crate::engine::*;
use crate::ensure;
use crate::gens;
use crate::refmodel::{self as model, Ver};
use crate::util::{b64_encode, hexser};

#[derive(Clone, Debug, Serialize, Deserialize)]
pub struct Case {
    pub key: KeySeed,
    /// offer v1 asymmetric keys as PEM instead of DER
    pub pem: bool,
}

pub fn pem_encode(label: &str, der: &[u8]) -> Vec<u8> {
    const STD: &[u8; 64] = b"ABCDEFGHIJKLMNOPQRSTUVWXYZabcdefghijklmnopqrstuvwxyz0123456789+/";
    let mut b64 = String::new();
    for ch in der.chunks(3) {
        let n = match ch.len() {
            3 => ((ch[0] as u32) << 16) | ((ch[1] as u32) << 8) | ch[2] as u32,
            2 => ((ch[0] as u32) << 16) | ((ch[1] as u32) << 8),
            _ => (ch[0] as u32) << 16,
        };
        b64.push(STD[((n >> 18) & 63) as usize] as char);
        b64.push(STD[((n >> 12) & 63) as usize] as char);
        b64.push(if ch.len() > 1 { STD[((n >> 6) & 63) as usize] as char } else { '=' });
        b64.push(if ch.len() > 2 { STD[(n & 63) as usize] as char } else { '=' });
    }
    let mut s = format!("-----BEGIN {label}-----\n");
    for line in b64.as_bytes().chunks(64) {
        s.push_str(std::str::from_utf8(line).unwrap());
        s.push('\n');
    }
    s.push_str(&format!("-----END {label}-----\n"));
    s.into_bytes()
}

fn det_hash<T: Hash>(t: &T) -> u64 {
    let mut h = std::collections::hash_map::DefaultHasher::new();
    t.hash(&mut h);
    h.finish()
}

fn id_checks<B: Backend, K: KeyType>(acc: &mut Acc, kind: &str, id_kind: &str, key: &Key<V<B>, K>, canonical: &[u8], reparse_input: &[u8]) -> Result<String, Fail>
where
    V<B>: HasKey<K>,
    <V<B> as HasKey<K>>::Key: Clone,
{
    let name = B::NAME;
    let id = key.id();
    let text = id.to_string();
    let want = model::key_id(B::VER, id_kind, &model::key_text(B::VER, kind, canonical));
    ensure!(
        text == want,
        format!("C13/{name}/{id_kind}/differs-from-spec"),
        "id {text} != specified digest {want} of the canonical PASERK text"
    );
    // clone / serialise / parse keep the id
    let cl = Key::<V<B>, K>::clone(key);
    ensure!(cl.id().to_string() == text, format!("C13/{name}/{id_kind}/clone-changes-id"), "clone has another id");
    let re = key_from_bytes::<V<B>, K>(&key_bytes(key)).map_err(|e| Fail::new(format!("C13/{name}/{id_kind}/reparse"), format!("{e}")))?;
    ensure!(re.id().to_string() == text, format!("C13/{name}/{id_kind}/reserialise-changes-id"), "re-parsed key has another id");
    let re2 = key_from_bytes::<V<B>, K>(reparse_input).map_err(|e| Fail::new(format!("C13/{name}/{id_kind}/alt-encoding-rejected"), format!("{e}")))?;
    ensure!(re2.id().to_string() == text, format!("C13/{name}/{id_kind}/encoding-dependent-id"), "the same key supplied in another accepted encoding (PEM) has another id");
    // id text round-trips and compares like its bytes
    let parsed: KeyId<V<B>, K> = text.parse().map_err(|e| Fail::new(format!("C13/{name}/{id_kind}/id-parse"), format!("own id text does not parse: {e}")))?;
    ensure!(parsed == id && parsed.as_bytes() == id.as_bytes(), format!("C13/{name}/{id_kind}/id-roundtrip"), "parsed id differs");
    ensure!(parsed.to_string() == text, format!("C13/{name}/{id_kind}/id-reserialise"), "id re-serialises differently");
    ensure!(det_hash(&id) == det_hash(id.as_bytes()), format!("C13/{name}/{id_kind}/hash"), "Hash disagrees with the bytes' hash");
    acc.eval();
    Ok(text)
}

fn run_case<B: Backend>(c: &Case, acc: &mut Acc) -> R {
    let name = B::NAME;
    let ver = B::VER;
    let lk_raw = local_key_bytes(&c.key);
    let sk_raw = secret_bytes(ver, &c.key);
    let pk_raw = public_bytes(ver, &sk_raw);
    let v1 = ver == Ver::V1;
    let (sk_in, pk_in) = if v1 && c.pem { (pem_encode("RSA PRIVATE KEY", &sk_raw), pem_encode("PUBLIC KEY", &pk_raw)) } else { (sk_raw.clone(), pk_raw.clone()) };
    let lk = local_key::<B>(&c.key);
    let sk = key_from_bytes::<V<B>, Secret>(&sk_in).map_err(|e| Fail::new(format!("C13/{name}/sid/key-rejected"), format!("{e}")))?;
    let pk = key_from_bytes::<V<B>, Public>(&pk_in).map_err(|e| Fail::new(format!("C13/{name}/pid/key-rejected"), format!("{e}")))?;
    let lid = id_checks::<B, Local>(acc, "local", "lid", &lk, &lk_raw, &lk_raw)?;
    let sid = id_checks::<B, Secret>(acc, "secret", "sid", &sk, &sk_raw, &sk_in)?;
    let pid = id_checks::<B, Public>(acc, "public", "pid", &pk, &pk_raw, &pk_in)?;
    // PKE key kinds share the sid / pid domains of their text form
    {
        use paseto_core::version::{PkePublic, PkeSecret};
        let (psk, ppk, psk_raw, ppk_raw) = pke_pair::<B>(&c.key);
        let psk_canon = model::pem_to_der(&psk_raw);
        id_checks::<B, PkeSecret>(acc, "secret", "sid", &psk, &psk_canon, &psk_raw)?;
        id_checks::<B, PkePublic>(acc, "public", "pid", &ppk, &ppk_raw, &ppk_raw)?;
    }
    // the public key derived from the secret key has the pid of the public key
    ensure!(sk.public_key().id().to_string() == pid, format!("C13/{name}/pid/derived-public-key"), "public_key() of the secret key has another pid");
    // domain separation between related ids
    let body = |s: &str| s.rsplit('.').next().unwrap().to_string();
    ensure!(body(&sid) != body(&pid) && body(&lid) != body(&sid) && body(&lid) != body(&pid), format!("C13/{name}/ids-collide"), "ids of related keys collide");
    // sibling back ends give the same ids
    let mut err = None;
    crate::for_backends!(T => {
        if T::VER == ver && T::NAME != name && err.is_none() {
            let a = key_from_bytes::<V<T>, Local>(&lk_raw).map(|k| k.id().to_string());
            let b = key_from_bytes::<V<T>, Secret>(&sk_raw).map(|k| k.id().to_string());
            let d = key_from_bytes::<V<T>, Public>(&pk_raw).map(|k| k.id().to_string());
            if a.as_deref().ok() != Some(&lid) || b.as_deref().ok() != Some(&sid) || d.as_deref().ok() != Some(&pid) {
                err = Some(Fail::new(format!("C13/{name}/sibling/{}/ids-differ", T::NAME), "sibling back end computes different ids for the same keys"));
            } else {
                acc.class("sibling:same-ids");
            }
        }
    });
    if let Some(f) = err {
        return Err(f);
    }
    acc.nt(hash_of(&(&c.key, c.pem)));
    acc.class(if v1 && c.pem { "v1:pem-input" } else { "raw-input" });
    acc.sample(|| json!({"backend": name, "lid": lid, "sid": sid, "pid": pid, "pem_input": v1 && c.pem}));
    Ok(())
}

#[derive(Clone, Debug, Serialize, Deserialize)]
pub struct IdStrCase {
    #[serde(with = "hexser")]
    pub a: Vec<u8>,
    #[serde(with = "hexser")]
    pub b: Vec<u8>,
    pub junk: String,
}

fn idstr_case<B: Backend>(c: &IdStrCase, acc: &mut Acc) -> R {
    let name = B::NAME;
    let h = format!("{}.lid.", B::VER.k());
    let pa = format!("{h}{}", b64_encode(&c.a)).parse::<KeyId<V<B>, Local>>();
    let pb = format!("{h}{}", b64_encode(&c.b)).parse::<KeyId<V<B>, Local>>();
    ensure!(pa.is_ok() == (c.a.len() == 33), format!("C13/{name}/id-parse/length-{}", c.a.len()), "an id body of {} bytes was {}", c.a.len(), if pa.is_ok() { "accepted" } else { "rejected" });
    ensure!(pb.is_ok() == (c.b.len() == 33), format!("C13/{name}/id-parse/length-{}", c.b.len()), "an id body of {} bytes was {}", c.b.len(), if pb.is_ok() { "accepted" } else { "rejected" });
    if let (Ok(x), Ok(y)) = (&pa, &pb) {
        ensure!(x.as_bytes()[..] == c.a[..] && y.as_bytes()[..] == c.b[..], format!("C13/{name}/id-parse/bytes"), "parsed id bytes differ from the encoded ones");
        ensure!((x == y) == (c.a == c.b), format!("C13/{name}/id-eq"), "== disagrees with byte equality");
        ensure!(x.cmp(y) == c.a.cmp(&c.b) && x.partial_cmp(y) == Some(c.a.cmp(&c.b)), format!("C13/{name}/id-ord"), "ordering disagrees with the bytes' ordering");
        ensure!((det_hash(x) == det_hash(y)) == (c.a == c.b) || c.a != c.b, format!("C13/{name}/id-hash"), "equal ids hash differently");
        acc.nt(hash_of(&(&c.a, &c.b)));
        acc.class(if c.a == c.b { "pair:equal" } else { "pair:different" });
    } else {
        acc.class("id-string:wrong-length");
        acc.nt(hash_of(&(&c.a, &c.b)));
    }
    // a valid id followed by anything is not an id: extra characters, extra '.'-separated sections
    if c.a.len() == 33 {
        let good = format!("{h}{}", b64_encode(&c.a));
        let tail = b64_encode(&c.b);
        for ext in [".".to_string(), "..".to_string(), ".AAAA".to_string(), format!(".{tail}"), format!(".{good}"), " ".to_string(), "=".to_string(), "A".to_string(), "AAAA".to_string(), format!("{}", &good[good.len() - 4..])] {
            let t = format!("{good}{ext}");
            ensure!(t.parse::<KeyId<V<B>, Local>>().is_err(), format!("C13/{name}/id-parse/extended-id-accepted"), "the id text followed by {ext:?} was accepted as an id");
        }
        acc.class("id-string:extensions-of-a-valid-id");
        // a multi-byte character inserted at / replacing every byte offset of the id text: the parser
        // answers Err (slicing a str at a fixed byte offset would panic instead)
        for ch in ["\u{e9}", "\u{20ac}", "\u{1f511}"] {
            for off in 0..=good.len() {
                let ins = format!("{}{ch}{}", &good[..off], &good[off..]);
                let rep = if off < good.len() { format!("{}{ch}{}", &good[..off], &good[off + 1..]) } else { ins.clone() };
                for t in [ins, rep] {
                    let r = crate::util::catch(|| t.parse::<KeyId<V<B>, Local>>().is_ok());
                    match r {
                        Ok(false) => {}
                        Ok(true) => return Err(Fail::new(format!("C13/{name}/id-parse/non-ascii-accepted"), format!("{t:?} was accepted as an id"))),
                        Err(loc) => return Err(Fail::new(format!("C13/{name}/id-parse/panicked/{}", crate::util::panic_site(&loc)), format!("parsing {t:?} as an id panicked at {loc}"))),
                    }
                }
            }
        }
    }
    // every route by which a string is offered as an id - FromStr, and serde from a borrowed string,
    // an owned one and a reader - gives the same verdict: whitespace or line breaks around a valid id
    // text are not part of an id
    if c.a.len() == 33 {
        let good = format!("{h}{}", b64_encode(&c.a));
        let routes = |t: &str| -> [bool; 4] {
            let lit = serde_json::to_string(t).unwrap_or_default();
            [
                t.parse::<KeyId<V<B>, Local>>().is_ok(),
                serde_json::from_str::<KeyId<V<B>, Local>>(&lit).is_ok(),
                serde_json::from_value::<KeyId<V<B>, Local>>(serde_json::Value::String(t.to_string())).is_ok(),
                serde_json::from_reader::<_, KeyId<V<B>, Local>>(lit.as_bytes()).is_ok(),
            ]
        };
        ensure!(routes(&good) == [true; 4], format!("C13/{name}/id-parse/routes-disagree-on-valid-id"), "a valid id text is not accepted by every route (FromStr, serde borrowed / owned / reader): {:?}", routes(&good));
        for ws in [" ", "\n", "\r\n", "\t", "\u{a0}", "\u{2003}", "\u{3000}", "\u{feff}"] {
            for t in [format!("{good}{ws}"), format!("{ws}{good}"), format!("{ws}{good}{ws}")] {
                let r = routes(&t);
                ensure!(r == [false; 4], format!("C13/{name}/id-parse/padded-id-accepted"), "the id text wrapped in {ws:?} is accepted by some route (FromStr, serde borrowed, serde owned, serde reader) = {r:?}");
            }
        }
        acc.class("id-string:every-route-same-verdict");
    }
    // arbitrary strings: accepted iff header + canonical base64 of exactly 33 bytes
    let j = c.junk.parse::<KeyId<V<B>, Local>>();
    let model_ok = c.junk.strip_prefix(&h).and_then(crate::util::b64_decode).map(|b| b.len() == 33).unwrap_or(false);
    ensure!(j.is_ok() == model_ok, format!("C13/{name}/id-parse/arbitrary-string"), "string {:?}: library {} it, the strict model {}", c.junk, if j.is_ok() { "accepts" } else { "rejects" }, if model_ok { "accepts" } else { "rejects" });
    acc.eval();
    acc.sample(|| json!({"backend": name, "a_len": c.a.len(), "b_len": c.b.len(), "junk": c.junk}));
    Ok(())
}

fn idstr_strategy(k: String) -> impl Strategy<Value = IdStrCase> {
    let bytes = || prop_oneof![6 => proptest::collection::vec(any::<u8>(), 33..=33), 1 => proptest::collection::vec(any::<u8>(), 30..=36), 1 => proptest::collection::vec(any::<u8>(), 0..80)];
    let junk = prop_oneof![
        "[A-Za-z0-9_-]{40,48}".prop_map({ let k = k.clone(); move |s| format!("{k}.lid.{s}") }),
        "[ -~]{0,60}",
        "k[1-4]\\.(lid|pid|sid|local)\\.[A-Za-z0-9_=+/-]{42,46}",
    ];
    (bytes(), bytes(), any::<bool>(), any::<u8>(), junk).prop_map(|(a, mut b, same, flip, junk)| {
        if same && b.len() == a.len() {
            b = a.clone();
            if flip % 4 == 0 && !b.is_empty() {
                let i = flip as usize % b.len();
                b[i] ^= 1 << (flip % 8);
            } else if flip % 4 == 1 && b.len() >= 2 {
                // two bytes exchanged / the same difference applied at two positions
                let i = flip as usize % b.len();
                let j = (i + 1 + (flip as usize / 7) % (b.len() - 1)) % b.len();
                b.swap(i, j);
            } else if flip % 4 == 2 && b.len() >= 2 {
                let i = flip as usize % b.len();
                let j = (i + 3) % b.len();
                b[i] ^= 0x5a;
                b[j] ^= 0x5a;
            }
        }
        IdStrCase { a, b, junk }
    })
}

/// Public keys supplied in edge-case encodings (non-canonical y, small order, ...): whatever a
/// back end accepts has the id of the text it serialises to, keeps it across serialise / parse,
/// and has the same id on the sibling back end when that accepts the same bytes.
fn edge_encodings<B: Backend>(acc: &mut Acc) {
    use paseto_core::version::PkePublic;
    let name = B::NAME;
    let ver = B::VER;
    if !matches!(ver, Ver::V2 | Ver::V4) {
        return;
    }
    for (shape, bytes) in crate::props::c08::ed25519_edge_encodings() {
        let Ok(pk) = key_from_bytes::<V<B>, Public>(&bytes) else {
            acc.eval();
            acc.class("edge-encoding:rejected");
            continue;
        };
        acc.class("edge-encoding:accepted");
        acc.nt(hash_of(&(name, &shape)));
        let rc = json!({"backend": name, "shape": shape, "bytes": hex::encode(&bytes)});
        let own = key_bytes(&pk);
        let pid = match id_checks::<B, Public>(acc, "public", "pid", &pk, &own, &bytes) {
            Ok(p) => p,
            Err(f) => {
                acc.fail(f, rc.clone());
                continue;
            }
        };
        if let Ok(ppk) = key_from_bytes::<V<B>, PkePublic>(&bytes) {
            if ppk.id().to_string() != pid {
                acc.fail(Fail::new(format!("C13/{name}/pid/edge-encoding/pke-view-differs"), format!("{shape}: the same bytes as a PKE public key have another pid")), rc.clone());
            }
        }
        crate::for_backends!(T => {
            if T::VER == ver && T::NAME != name {
                if let Ok(k2) = key_from_bytes::<V<T>, Public>(&bytes) {
                    acc.eval();
                    if k2.id().to_string() != pid {
                        acc.fail(
                            Fail::new(format!("C13/{name}/sibling/{}/edge-encoding-ids-differ", T::NAME), format!("public key bytes {} ({shape}) are accepted by both back ends but have pid {pid} here and {} there", hex::encode(&bytes), k2.id())),
                            rc.clone(),
                        );
                    }
                }
            }
        });
    }
}

fn subs_for<B: Backend>(out: &mut Vec<SubCheck>) {
    let v1 = B::VER == Ver::V1;
    if matches!(B::VER, Ver::V2 | Ver::V4) {
        out.push(SubCheck::custom(format!("c13.edge-encodings/{}", B::NAME), 1, edge_encodings::<B>, |_v: &Value, acc: &mut Acc| {
            let before = acc.violations.len();
            edge_encodings::<B>(acc);
            match acc.violations.get(before) {
                Some(v) => Err(Fail::new(v.sig.clone(), v.what.clone())),
                None => Ok(()),
            }
        }));
    }
    out.push(SubCheck::prop(
        format!("c13.keyids/{}", B::NAME),
        if v1 { 6 } else { 3 },
        if v1 { (60, 600) } else { (500, 10000) },
        |_t| (gens::key_seed(), any::<bool>()).prop_map(|(key, pem)| Case { key, pem }),
        run_case::<B>,
    ));
    out.push(SubCheck::prop(
        format!("c13.idstrings/{}", B::NAME),
        1,
        (1500, 30000),
        |_t| idstr_strategy(B::VER.k()),
        idstr_case::<B>,
    ));
}

pub fn def() -> PropertyDef {
    let mut subs = Vec::new();
    crate::for_backends!(B => subs_for::<B>(&mut subs));
    PropertyDef {
        id: "C13",
        level: "exploration",
        rule: "proptest cases: generated keys of every kind per back end (v1 keys also offered as PEM) - id text equals the reference digest (SHA-384[..33] / BLAKE2b-33 by a foreign library) of `kN.<lid|sid|pid>.` || canonical PASERK text; equal across clone / serialise / parse / PEM-vs-DER / sibling back end / public_key(); related lid/sid/pid differ. Id strings: bodies of 0..80 bytes and arbitrary strings are accepted iff header + strict base64url of exactly 33 bytes; a valid id followed by extra characters or '.'-separated sections is rejected, as is one with a multi-byte character at any byte offset; ==, Ord, Hash agree with the bytes. Ed25519 public keys in edge encodings (unreduced y, small order, x = 0 with sign bit): whatever is accepted has the id of its own serialisation, stable across parse, and the same id on the sibling. Non-trivial iff a generated (non-vector) key or an id body of length != 33 / a compared pair",
        assumptions: vec!["the canonical PASERK text of v1 keys is the DER form (as the upstream vectors require)"],
        subs,
    }
}
