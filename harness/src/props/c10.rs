//! C10 — a token or PASERK of one version / purpose / kind is never accepted as another.

use serde::{Deserialize, Serialize};
use serde_json::{Value, json};

use crate::backends::*;
use crate::engine::*;
use crate::props::c06;
use crate::texttypes::{self, TextType};

#[derive(Clone, Debug, Serialize, Deserialize)]
struct PairCase {
    source_backend: String,
    source_kind: String,
    target_backend: String,
    target_kind: String,
    text: String,
}

fn check_pair(t: &TextType, c: &PairCase, src_ver: crate::refmodel::Ver) -> R {
    let same_version = t.ver == src_ver;
    let expect = if same_version { texttypes::kind_compatible(&c.source_kind, t.kind, t.ver) } else { Some(false) };
    let got = (t.parse)(&c.text).is_ok();
    match expect {
        Some(e) if e != got => Err(Fail::new(
            format!(
                "C10/{}/{}/{}-{}-{}",
                t.backend,
                t.kind,
                if got { "accepts" } else { "rejects" },
                if same_version { "same-version" } else { "other-version" },
                c.source_kind
            ),
            format!(
                "a {} {} string produced by {} is {} by the {} parser of {} ({})",
                src_ver.v(),
                c.source_kind,
                c.source_backend,
                if got { "ACCEPTED" } else { "REJECTED" },
                t.kind,
                t.backend,
                c.text.chars().take(60).collect::<String>()
            ),
        )),
        _ => Ok(()),
    }
}

fn matrix(acc: &mut Acc) {
    let types = texttypes::all_types();
    let n_values = acc.tier.pick(5u64, 50);
    let mut sources: Vec<(&'static str, crate::refmodel::Ver, &'static str, String)> = Vec::new();
    crate::for_backends!(B => {
        for i in 0..n_values {
            let seed = KeySeed::from_u64(mix(acc.seed, i * 7919 + fnv(B::NAME.as_bytes())));
            crate::rng::reseed_case(hash_of(&seed));
            for (kind, text) in texttypes::valid_strings::<B>(&seed) {
                sources.push((B::NAME, B::VER, kind, text));
            }
        }
    });
    let mut pairs = 0u64;
    for (sb, sv, sk, text) in &sources {
        for t in &types {
            let c = PairCase { source_backend: sb.to_string(), source_kind: sk.to_string(), target_backend: t.backend.to_string(), target_kind: t.kind.to_string(), text: text.clone() };
            acc.eval();
            pairs += 1;
            let same_version = t.ver == *sv;
            let same_kind = texttypes::kind_compatible(sk, t.kind, t.ver) == Some(true);
            // near misses: differ in exactly one of version / kind
            if same_version != same_kind {
                acc.nt(hash_of(&(sb, sk, t.backend, t.kind, text)));
                acc.class("pair:near-miss");
            } else if same_version && same_kind {
                acc.nt(hash_of(&(sb, sk, t.backend, t.kind, text)));
                acc.class("pair:must-accept");
            } else {
                acc.class("pair:far");
            }
            acc.check(&c, |_| check_pair(t, &c, *sv));
        }
    }
    acc.exhaustive.push(format!("ordered pairs of {} (back end, kind) parsers x every kind of source string: {} parse calls", types.len(), pairs));
    acc.sample(|| json!({"parsers": types.len(), "source_strings": sources.len(), "example": {"source": "k3.local-wrap.pie.* from paseto-v3", "targets": ["paseto-v3-aws-lc pie.local => must accept", "paseto-v3 pie.secret => must reject", "paseto-v1 pie.local => must reject"]}}));
}

fn replay_pair(v: &Value, _acc: &mut Acc) -> R {
    let c: PairCase = serde_json::from_value(v.clone()).map_err(|e| Fail::new("HARNESS/replay-decode", format!("{e}")))?;
    let types = texttypes::all_types();
    let src_ver = types.iter().find(|t| t.backend == c.source_backend).map(|t| t.ver).ok_or_else(|| Fail::new("HARNESS/replay", "unknown backend"))?;
    let t = types.iter().find(|t| t.backend == c.target_backend && t.kind == c.target_kind).ok_or_else(|| Fail::new("HARNESS/replay", "unknown parser"))?;
    check_pair(t, &c, src_ver)
}

fn rewrite_for<B: Backend>(out: &mut Vec<SubCheck>) {
    out.push(SubCheck::custom(
        format!("c10.rewrite/{}", B::NAME),
        3,
        |acc: &mut Acc| {
            let n = acc.tier.pick(4usize, 40);
            for (kind, secret) in [(0u8, false), (0, true), (1, false), (1, true), (2, false)] {
                let seed = mix(acc.seed, fnv(format!("c10/{}/{kind}/{secret}", B::NAME).as_bytes()));
                for (j, b) in sample_values(&c06::blob_strategy(kind, secret), seed, n).iter().enumerate() {
                    crate::rng::reseed_case(hash_of(b) ^ j as u64);
                    c06::run_blob_opts::<B>(acc, b, None, true);
                }
            }
        },
        |v: &Value, acc: &mut Acc| c06::replay_opts::<B>(v, acc, true),
    ));
}

pub fn def() -> PropertyDef {
    let mut subs = vec![SubCheck::custom("c10.matrix", 5, matrix, replay_pair)];
    crate::for_backends!(B => rewrite_for::<B>(&mut subs));
    PropertyDef {
        id: "C10",
        level: "exploration",
        rule: "(1) the full ordered-pair matrix: every library-produced valid string of every kind (tokens local/public, keys, ids, PIE, PBKW, sealed keys) of every back end is offered to every (back end, kind) parser - 6 x 18 parsers incl. typed keys and PKE key kinds; expectation from the header table of the specification: accept iff same version and same kind (sibling back ends are the same version and must accept; RSA-2048 vs RSA-4096 v1 key kinds must refuse each other); (2) header rewriting of authenticated PIE / PBKW / sealed blobs to the other key kind and to every other version, unwrapped with the same secret bytes: must fail. Key byte strings of every length 0..128 offered to every decoder are enumerated in C08. Non-trivial iff the pair differs in exactly one of version / kind (near miss) or must be accepted",
        assumptions: vec!["the matrix is enumerated completely for the sampled source strings (5 per kind and back end quick, 50 thorough)"],
        subs,
    }
}
