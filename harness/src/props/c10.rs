//! C10 — a token or PASERK of one version / purpose / kind is never accepted as another.

use serde::{Deserialize, Serialize};
use serde_json::{Value, json};

use crate::backends::*;
use crate::engine::*;
use crate::props::c06;
use crate::texttypes::{self, TextType};

#[derive(Clone, Debug, Serialize, Deserialize)]
struct PairCase {
    source_backend: String,
    source_kind: String,
    target_backend: String,
    target_kind: String,
    text: String,
}

fn check_pair(t: &TextType, c: &PairCase, src_ver: crate::refmodel::Ver) -> R {
    let same_version = t.ver == src_ver;
    let expect = if same_version { texttypes::kind_compatible(&c.source_kind, t.kind, t.ver) } else { Some(false) };
    let got = (t.parse)(&c.text).is_ok();
    match expect {
        Some(e) if e != got => Err(Fail::new(
            format!(
                "C10/{}/{}/{}-{}-{}",
                t.backend,
                t.kind,
                if got { "accepts" } else { "rejects" },
                if same_version { "same-version" } else { "other-version" },
                c.source_kind
            ),
            format!(
                "a {} {} string produced by {} is {} by the {} parser of {} ({})",
                src_ver.v(),
                c.source_kind,
                c.source_backend,
                if got { "ACCEPTED" } else { "REJECTED" },
                t.kind,
                t.backend,
                c.text.chars().take(60).collect::<String>()
            ),
        )),
        _ => Ok(()),
    }
}

fn matrix(acc: &mut Acc) {
    let types = texttypes::all_types();
    let n_values = acc.tier.pick(5u64, 50);
    let mut sources: Vec<(&'static str, crate::refmodel::Ver, &'static str, String)> = Vec::new();
    crate::for_backends!(B => {
        for i in 0..n_values {
            let seed = KeySeed::from_u64(mix(acc.seed, i * 7919 + fnv(B::NAME.as_bytes())));
            crate::rng::reseed_case(hash_of(&seed));
            for (kind, text) in texttypes::valid_strings::<B>(&seed) {
                sources.push((B::NAME, B::VER, kind, text));
            }
            if B::VER == crate::refmodel::Ver::V1 {
                // v1 keys are also accepted with a PEM body (the upstream vectors supply them so):
                // the kind verdicts must not depend on which of the two accepted encodings is used
                use crate::props::c13::pem_encode;
                let sk = secret_bytes(B::VER, &seed);
                let pk = public_bytes(B::VER, &sk);
                let psk = pke_secret_bytes(B::VER, &seed);
                let ppk = public_bytes(B::VER, &psk);
                let t = |h: &str, b: Vec<u8>| format!("k1.{h}.{}", crate::util::b64_encode(&b));
                sources.push((B::NAME, B::VER, "key.secret", t("secret", pem_encode("RSA PRIVATE KEY", &sk))));
                sources.push((B::NAME, B::VER, "key.public", t("public", pem_encode("PUBLIC KEY", &pk))));
                sources.push((B::NAME, B::VER, "key.pke-secret", t("secret", pem_encode("RSA PRIVATE KEY", &psk))));
                sources.push((B::NAME, B::VER, "key.pke-public", t("public", pem_encode("PUBLIC KEY", &ppk))));
            }
        }
    });
    let mut pairs = 0u64;
    for (sb, sv, sk, text) in &sources {
        for t in &types {
            let c = PairCase { source_backend: sb.to_string(), source_kind: sk.to_string(), target_backend: t.backend.to_string(), target_kind: t.kind.to_string(), text: text.clone() };
            acc.eval();
            pairs += 1;
            let same_version = t.ver == *sv;
            let same_kind = texttypes::kind_compatible(sk, t.kind, t.ver) == Some(true);
            // near misses: differ in exactly one of version / kind
            if same_version != same_kind {
                acc.nt(hash_of(&(sb, sk, t.backend, t.kind, text)));
                acc.class("pair:near-miss");
            } else if same_version && same_kind {
                acc.nt(hash_of(&(sb, sk, t.backend, t.kind, text)));
                acc.class("pair:must-accept");
            } else {
                acc.class("pair:far");
            }
            acc.check(&c, |_| check_pair(t, &c, *sv));
        }
    }
    // header rewriting of plain (unauthenticated) strings: the body of a valid string of one kind
    // under the header of a kind whose body has a fixed, different length (ids: 33 bytes; typed
    // keys: the kind's exact length) must be rejected
    let mut relabels = 0u64;
    for (sb, sv, sk, text) in &sources {
        let Some(body) = text.rfind('.').map(|i| &text[i + 1..]) else { continue };
        let Some(bytes) = crate::util::b64_decode(body) else { continue };
        for t in &types {
            if texttypes::kind_compatible(sk, t.kind, t.ver) == Some(true) && t.ver == *sv {
                continue;
            }
            let required: Option<usize> = if t.kind.starts_with("id.") {
                Some(33)
            } else if t.kind.starts_with("key.") {
                let k = match t.kind {
                    "key.local" => "Local",
                    "key.public" => "Public",
                    "key.secret" => "Secret",
                    "key.pke-public" => "PkePublic",
                    _ => "PkeSecret",
                };
                kind_len(t.ver, k)
            } else {
                None
            };
            let Some(req) = required else { continue };
            if bytes.len() == req {
                continue;
            }
            let rewritten = format!("{}{}", t.header, body);
            let c = PairCase { source_backend: sb.to_string(), source_kind: format!("{sk} body under another header"), target_backend: t.backend.to_string(), target_kind: t.kind.to_string(), text: rewritten.clone() };
            acc.eval();
            relabels += 1;
            acc.nt(hash_of(&(sb, sk, t.backend, t.kind, &rewritten)));
            acc.class("pair:body-relabelled-to-fixed-length-kind");
            acc.check(&c, |_| {
                if (t.parse)(&rewritten).is_ok() {
                    Err(Fail::new(
                        format!("C10/{}/{}/accepts-relabelled-{}-byte-body", t.backend, t.kind, bytes.len()),
                        format!("the {}-byte body of a {} {} string was accepted by the {} parser of {} (which needs exactly {req} bytes) after rewriting only the header: {}", bytes.len(), sv.v(), sk, t.kind, t.backend, rewritten.chars().take(70).collect::<String>()),
                    ))
                } else {
                    Ok(())
                }
            });
        }
    }
    acc.class_n("relabelled-bodies", relabels);
    acc.exhaustive.push(format!("ordered pairs of {} (back end, kind) parsers x every kind of source string: {} parse calls", types.len(), pairs));
    acc.sample(|| json!({"parsers": types.len(), "source_strings": sources.len(), "example": {"source": "k3.local-wrap.pie.* from paseto-v3", "targets": ["paseto-v3-aws-lc pie.local => must accept", "paseto-v3 pie.secret => must reject", "paseto-v1 pie.local => must reject"]}}));
}

fn replay_pair(v: &Value, _acc: &mut Acc) -> R {
    let c: PairCase = serde_json::from_value(v.clone()).map_err(|e| Fail::new("HARNESS/replay-decode", format!("{e}")))?;
    let types = texttypes::all_types();
    if c.source_kind.ends_with("body under another header") {
        let t = types.iter().find(|t| t.backend == c.target_backend && t.kind == c.target_kind).ok_or_else(|| Fail::new("HARNESS/replay", "unknown parser"))?;
        return if (t.parse)(&c.text).is_ok() { Err(Fail::new(format!("C10/{}/{}/accepts-relabelled-body", t.backend, t.kind), c.text.clone())) } else { Ok(()) };
    }
    let src_ver = types.iter().find(|t| t.backend == c.source_backend).map(|t| t.ver).ok_or_else(|| Fail::new("HARNESS/replay", "unknown backend"))?;
    let t = types.iter().find(|t| t.backend == c.target_backend && t.kind == c.target_kind).ok_or_else(|| Fail::new("HARNESS/replay", "unknown parser"))?;
    check_pair(t, &c, src_ver)
}

fn rewrite_for<B: Backend>(out: &mut Vec<SubCheck>) {
    out.push(SubCheck::custom(
        format!("c10.rewrite/{}", B::NAME),
        3,
        |acc: &mut Acc| {
            let n = acc.tier.pick(4usize, 40);
            for (kind, secret) in [(0u8, false), (0, true), (1, false), (1, true), (2, false)] {
                let seed = mix(acc.seed, fnv(format!("c10/{}/{kind}/{secret}", B::NAME).as_bytes()));
                for (j, b) in sample_values(&c06::blob_strategy(kind, secret), seed, n).iter().enumerate() {
                    crate::rng::reseed_case(hash_of(b) ^ j as u64);
                    c06::run_blob_opts::<B>(acc, b, None, true);
                }
            }
        },
        |v: &Value, acc: &mut Acc| c06::replay_opts::<B>(v, acc, true),
    ));
}


// ---------------------------------------------------------------------------
// key bytes of every other kind's length offered to each decoder

#[derive(Clone, Debug, Serialize, Deserialize)]
struct KeyBytesCase {
    target_backend: String,
    target_kind: String,
    source: String,
    #[serde(with = "crate::util::hexser")]
    bytes: Vec<u8>,
}

fn decode_ok<B: Backend>(kind: &str, bytes: &[u8]) -> bool {
    use paseto_core::version::{Local, PkePublic, PkeSecret, Public, Secret};
    match kind {
        "Local" => key_from_bytes::<V<B>, Local>(bytes).is_ok(),
        "Public" => key_from_bytes::<V<B>, Public>(bytes).is_ok(),
        "Secret" => key_from_bytes::<V<B>, Secret>(bytes).is_ok(),
        "PkePublic" => key_from_bytes::<V<B>, PkePublic>(bytes).is_ok(),
        _ => key_from_bytes::<V<B>, PkeSecret>(bytes).is_ok(),
    }
}

/// the exact byte length kind `kind` of version `ver` has (None: variable, v1 DER)
fn kind_len(ver: crate::refmodel::Ver, kind: &str) -> Option<usize> {
    use crate::refmodel::Ver;
    match (ver, kind) {
        (_, "Local") => Some(32),
        (Ver::V2 | Ver::V4, "Public" | "PkePublic") => Some(32),
        (Ver::V2 | Ver::V4, _) => Some(64),
        (Ver::V3, "Public" | "PkePublic") => Some(49),
        (Ver::V3, _) => Some(48),
        (Ver::V1, _) => None,
    }
}

fn keybytes_case<B: Backend>(c: &KeyBytesCase) -> R {
    let got = crate::util::catch(|| decode_ok::<B>(&c.target_kind, &c.bytes)).map_err(|loc| Fail::new(format!("C10/{}/{}/decode-panicked", B::NAME, c.target_kind), loc))?;
    if let Some(n) = kind_len(B::VER, &c.target_kind) {
        if c.bytes.len() != n && got {
            return Err(Fail::new(
                format!("C10/{}/key.{}/accepts-wrong-length-{}", B::NAME, c.target_kind.to_lowercase(), c.bytes.len()),
                format!("{} bytes ({}) were accepted as a {}-byte {} key of {}", c.bytes.len(), c.source, n, c.target_kind, B::NAME),
            ));
        }
    } else if got && !c.source.contains("rsa") {
        return Err(Fail::new(
            format!("C10/{}/key.{}/accepts-foreign-key-bytes", B::NAME, c.target_kind.to_lowercase()),
            format!("{} bytes ({}) were accepted as a v1 {} key", c.bytes.len(), c.source, c.target_kind),
        ));
    }
    Ok(())
}

fn keybytes<B: Backend>(acc: &mut Acc) {
    // sources: serialised keys of every kind of every back end, ids, and every length 0..=128
    let mut sources: Vec<(String, Vec<u8>)> = Vec::new();
    let reps = acc.tier.pick(3u64, 30);
    crate::for_backends!(S => {
        for i in 0..reps {
            let ks = KeySeed::from_u64(mix(acc.seed, i * 131 + fnv(S::NAME.as_bytes())));
            let sk = secret_bytes(S::VER, &ks);
            let pk = public_bytes(S::VER, &sk);
            sources.push((format!("{} local key", S::NAME), local_key_bytes(&ks).to_vec()));
            if S::VER != crate::refmodel::Ver::V1 {
                sources.push((format!("{} secret key", S::NAME), sk.clone()));
                sources.push((format!("{} public key", S::NAME), pk.clone()));
            } else {
                sources.push((format!("{} rsa secret key", S::NAME), sk.clone()));
                sources.push((format!("{} rsa public key", S::NAME), pk.clone()));
            }
            sources.push((format!("{} key id", S::NAME), crate::rng::det_bytes(hash_of(&ks), 0x1d, 33)));
            // a longer key's prefix-extension: the 32-byte key followed by more bytes
            let mut ext = local_key_bytes(&ks).to_vec();
            ext.extend_from_slice(&pk[..pk.len().min(32)]);
            sources.push((format!("{} local key || public key", S::NAME), ext));
            if S::VER != crate::refmodel::Ver::V1 {
                // a valid key with bytes inserted in the middle / doubled / one byte removed: both ends
                // still look like the key, only the length is another kind's (or nobody's)
                for (what, vb) in [("secret", &sk), ("public", &pk)] {
                    let h = vb.len() / 2;
                    for n in [1usize, 16, 32] {
                        let mut v = vb[..h].to_vec();
                        v.extend(crate::rng::det_bytes(hash_of(&ks), n as u64, n));
                        v.extend_from_slice(&vb[h..]);
                        sources.push((format!("{} {what} key with {n} bytes inserted in the middle", S::NAME), v));
                    }
                    sources.push((format!("{} {what} key doubled", S::NAME), [&vb[..], &vb[..]].concat()));
                    for n in [1usize, 16, 49] {
                        // zero-extension on either side (a big-endian integer parser would not notice)
                        sources.push((format!("{} {what} key with {n} zero bytes in front", S::NAME), [&vec![0u8; n][..], &vb[..]].concat()));
                        sources.push((format!("{} {what} key with {n} zero bytes behind", S::NAME), [&vb[..], &vec![0u8; n][..]].concat()));
                    }
                    let mut v = vb[..h].to_vec();
                    v.extend_from_slice(&vb[h + 1..]);
                    sources.push((format!("{} {what} key with the middle byte removed", S::NAME), v));
                }
            }
        }
    });
    for len in 0..=128usize {
        sources.push((format!("{len} random bytes"), crate::rng::det_bytes(acc.seed ^ len as u64, 0xc10, len)));
    }
    let mut n = 0u64;
    for kind in ["Local", "Public", "Secret", "PkePublic", "PkeSecret"] {
        for (src, bytes) in &sources {
            let c = KeyBytesCase { target_backend: B::NAME.into(), target_kind: kind.into(), source: src.clone(), bytes: bytes.clone() };
            acc.eval();
            n += 1;
            if kind_len(B::VER, kind).map(|l| l != bytes.len()).unwrap_or(true) {
                acc.nt(hash_of(&(B::NAME, kind, bytes)));
            }
            acc.check(&c, |_| keybytes_case::<B>(&c));
        }
    }
    acc.class_n("keybytes:offers", n);
    acc.exhaustive.push(format!("{}: key bytes of every kind of every back end, ids, and every length 0..=128 offered to each of the five decoders", B::NAME));
    acc.sample(|| json!({"backend": B::NAME, "offers": n, "example": "the 64-byte k4.secret body offered as a k4.local key must be rejected"}));
}

fn keybytes_for<B: Backend>(out: &mut Vec<SubCheck>) {
    out.push(SubCheck::custom(format!("c10.keybytes/{}", B::NAME), 2, keybytes::<B>, |v: &Value, _acc: &mut Acc| {
        let c: KeyBytesCase = serde_json::from_value(v.clone()).map_err(|e| Fail::new("HARNESS/replay-decode", format!("{e}")))?;
        keybytes_case::<B>(&c)
    }));
}

// ---------------------------------------------------------------------------
// tokens: the payload-encoding suffix is part of the header ("v4" + SUFFIX + ".local."); an
// authentic token relabelled to the other encoding (or purpose) of the same version must not unseal

#[derive(Clone, Debug, Serialize, Deserialize)]
struct TokRewriteCase {
    public: bool,
    key: u64,
    msg_len: u16,
    footer_len: u8,
    with_assertion: bool,
}

fn token_rewrite_case<B: Backend>(c: &TokRewriteCase, acc: &mut Acc) -> R {
    use paseto_core::tokens::{SealedToken, UnsealedToken};
    use paseto_core::validation::NoValidation;
    use paseto_core::version::{Local, Public};
    let name = B::NAME;
    let v = B::VER.v();
    let ks = KeySeed::from_u64(c.key % 8);
    crate::rng::reseed_case(hash_of(&(c.key, c.msg_len, c.footer_len)));
    let msg = crate::rng::det_bytes(c.key, 0xc10, c.msg_len as usize);
    // (one case in eight has a footer of more than 1 KiB instead)
    let footer = vec![0x66u8; if c.key % 8 == 7 { 1024 + c.footer_len as usize * 40 } else { c.footer_len as usize }];
    let aad: &[u8] = if c.with_assertion && B::VER.has_assertion() { b"assertion" } else { b"" };
    let purpose = if c.public { "public" } else { "local" };
    // (sealed under the plain encoding, sealed under the suffixed encoding)
    let (plain, suffixed): (String, String) = if c.public {
        let sk = secret_key::<B>(&ks);
        (
            UnsealedToken::<V<B>, Public, Raw>::new(Raw(msg.clone())).with_footer(footer.clone()).seal(&sk, aad).map(|t| t.to_string()).unwrap_or_else(|e| library_refused("signing a token", &e)),
            UnsealedToken::<V<B>, Public, RawS>::new(RawS(msg.clone())).with_footer(footer.clone()).seal(&sk, aad).map(|t| t.to_string()).unwrap_or_else(|e| library_refused("signing a token with a suffixed payload encoding", &e)),
        )
    } else {
        let k = local_key::<B>(&ks);
        (
            UnsealedToken::<V<B>, Local, Raw>::new(Raw(msg.clone())).with_footer(footer.clone()).seal(&k, aad).map(|t| t.to_string()).unwrap_or_else(|e| library_refused("encrypting a token", &e)),
            UnsealedToken::<V<B>, Local, RawS>::new(RawS(msg.clone())).with_footer(footer.clone()).seal(&k, aad).map(|t| t.to_string()).unwrap_or_else(|e| library_refused("encrypting a token with a suffixed payload encoding", &e)),
        )
    };
    let h_plain = format!("{v}.{purpose}.");
    let h_suff = format!("{v}.x1.{purpose}.");
    let unseal_plain = |text: &str| -> bool {
        if c.public {
            text.parse::<SealedToken<V<B>, Public, Raw, Vec<u8>>>().and_then(|t| t.unseal(&secret_key::<B>(&ks).public_key(), aad, &NoValidation::dangerous_no_validation())).is_ok()
        } else {
            text.parse::<SealedToken<V<B>, Local, Raw, Vec<u8>>>().and_then(|t| t.unseal(&local_key::<B>(&ks), aad, &NoValidation::dangerous_no_validation())).is_ok()
        }
    };
    let unseal_suff = |text: &str| -> bool {
        if c.public {
            text.parse::<SealedToken<V<B>, Public, RawS, Vec<u8>>>().and_then(|t| t.unseal(&secret_key::<B>(&ks).public_key(), aad, &NoValidation::dangerous_no_validation())).is_ok()
        } else {
            text.parse::<SealedToken<V<B>, Local, RawS, Vec<u8>>>().and_then(|t| t.unseal(&local_key::<B>(&ks), aad, &NoValidation::dangerous_no_validation())).is_ok()
        }
    };
    crate::ensure!(unseal_plain(&plain) && unseal_suff(&suffixed), format!("C10/{name}/token.{purpose}/encoding-rewrite/control-rejected"), "an authentic token does not unseal under its own header");
    let body_plain = plain.strip_prefix(&h_plain).unwrap_or("");
    let body_suff = suffixed.strip_prefix(&h_suff).unwrap_or("");
    crate::ensure!(
        !unseal_suff(&format!("{h_suff}{body_plain}")),
        format!("C10/{name}/token.{purpose}/encoding-rewrite/plain-accepted-as-suffixed"),
        "a {h_plain} token whose header was rewritten to {h_suff} unsealed"
    );
    crate::ensure!(
        !unseal_plain(&format!("{h_plain}{body_suff}")),
        format!("C10/{name}/token.{purpose}/encoding-rewrite/suffixed-accepted-as-plain"),
        "a {h_suff} token whose header was rewritten to {h_plain} unsealed"
    );
    acc.evals_n(4);
    acc.nt(hash_of(&(name, c.public, c.msg_len, c.footer_len, c.with_assertion)));
    acc.class("token:encoding-suffix-rewritten");
    Ok(())
}

fn token_rewrite_for<B: Backend>(out: &mut Vec<SubCheck>) {
    use proptest::prelude::*;
    let cases = match B::NAME {
        "paseto-v1" => (10, 120),
        "paseto-v3" => (30, 400),
        _ => (80, 1500),
    };
    out.push(SubCheck::prop(
        format!("c10.token-encoding-rewrite/{}", B::NAME),
        3,
        cases,
        |_t| (any::<bool>(), any::<u64>(), prop_oneof![2 => Just(0u16), 6 => 1u16..300, 3 => prop::sample::select(vec![1023u16, 1024, 1025, 1500, 4096, 5000, 8192, 20000])], prop_oneof![Just(0u8), 1u8..40], any::<bool>()).prop_map(|(public, key, msg_len, footer_len, with_assertion)| TokRewriteCase { public, key, msg_len, footer_len, with_assertion }),
        |c: &TokRewriteCase, acc: &mut Acc| token_rewrite_case::<B>(c, acc),
    ));
}

pub fn def() -> PropertyDef {
    let mut subs = vec![SubCheck::custom("c10.matrix", 5, matrix, replay_pair)];
    crate::for_backends!(B => rewrite_for::<B>(&mut subs));
    crate::for_backends!(B => keybytes_for::<B>(&mut subs));
    crate::for_backends!(B => token_rewrite_for::<B>(&mut subs));
    PropertyDef {
        id: "C10",
        level: "exploration",
        rule: "(1) the full ordered-pair matrix: every library-produced valid string of every kind (tokens local/public, keys, ids, PIE, PBKW, sealed keys) of every back end is offered to every (back end, kind) parser - 6 x 18 parsers incl. typed keys and PKE key kinds; expectation from the header table of the specification: accept iff same version and same kind (sibling back ends are the same version and must accept; RSA-2048 vs RSA-4096 v1 key kinds must refuse each other); (1b) the body of every such string under the header of every kind with a fixed body length (ids, typed keys) must be rejected when the lengths differ; (2) header rewriting of authenticated PIE / PBKW / sealed blobs to the other key kind and to every other version, unwrapped with the same secret bytes: must fail; (2b) authentic local and public tokens of every back end under two payload encodings (SUFFIX \"\" and \".x1\"), header rewritten to the other encoding, unsealed with the right key: must fail. (3) key bytes: the serialised keys of every kind of every back end, key ids, a 32-byte key followed by further bytes, and every length 0..=128 are offered to each of the five key decoders of every back end: anything whose length is not exactly that of the requested kind must be rejected. Non-trivial iff the pair differs in exactly one of version / kind (near miss) or must be accepted",
        assumptions: vec!["the matrix is enumerated completely for the sampled source strings (5 per kind and back end quick, 50 thorough)"],
        subs,
    }
}
