//! C08 — keys survive serialisation unchanged; secret keys derive the matching public key;
//! wrong-length / off-curve / out-of-range / wrong-size key bytes are rejected.

use num_bigint_dig::BigUint;
use paseto_core::key::{HasKey, Key, KeyType};
use paseto_core::paserk::KeyText;
use paseto_core::tokens::{SealedToken, UnsealedToken};
use paseto_core::validation::NoValidation;
use paseto_core::version::{Local, PkePublic, PkeSecret, Public, Secret};
use proptest::prelude::*;
use serde::{Deserialize, Serialize};
use serde_json::{Value, json};

use crate::backends::*;
use crate::engine::*;
use crate::ensure;
use crate::gens;
use crate::refmodel::{self as model, Ver};
use crate::rng;
use crate::util::{catch, hexser, hx, panic_site};

// ---------------------------------------------------------------------------
// independent curve arithmetic for the rejection oracle

fn hexnum(s: &str) -> BigUint {
    BigUint::parse_bytes(s.as_bytes(), 16).unwrap()
}
fn p384_p() -> BigUint {
    hexnum("fffffffffffffffffffffffffffffffffffffffffffffffffffffffffffffffeffffffff0000000000000000ffffffff")
}
fn p384_b() -> BigUint {
    hexnum("b3312fa7e23ee7e4988e056be3f82d19181d9c6efe8141120314088f5013875ac656398d8a2ed19d2a85c8edd3ec2aef")
}
pub fn p384_n() -> BigUint {
    hexnum("ffffffffffffffffffffffffffffffffffffffffffffffffc7634d81f4372ddf581a0db248b0a77aecec196accc52973")
}
fn is_square(a: &BigUint, p: &BigUint) -> bool {
    let a = a % p;
    if a == BigUint::from(0u8) {
        return true;
    }
    let e = (p - BigUint::from(1u8)) >> 1;
    a.modpow(&e, p) == BigUint::from(1u8)
}
/// x (48 bytes big-endian) is the abscissa of a P-384 point
pub fn p384_x_on_curve(x: &[u8]) -> bool {
    let p = p384_p();
    let x = BigUint::from_bytes_be(x);
    if x >= p {
        return false;
    }
    let rhs = (&x * &x * &x + (&p - BigUint::from(3u8)) * &x + p384_b()) % &p;
    is_square(&rhs, &p)
}
/// a 32-byte string decompresses to an Edwards25519 point (x^2 = (y^2-1)/(d y^2+1) solvable)
pub fn ed25519_decompressible(bytes: &[u8]) -> bool {
    let p = (BigUint::from(1u8) << 255) - BigUint::from(19u8);
    let d = hexnum("52036cee2b6ffe738cc740797779e89800700a4d4141d8ab75eb4dca135978a3");
    let mut yb = bytes.to_vec();
    yb[31] &= 0x7f;
    let y = BigUint::from_bytes_le(&yb) % &p;
    let y2 = (&y * &y) % &p;
    let u = (&y2 + &p - BigUint::from(1u8)) % &p;
    let v = (&d * &y2 + BigUint::from(1u8)) % &p;
    // u/v is a square  <=>  u*v is a square (v != 0 always: -1/d is a non-residue)
    is_square(&((&u * &v) % &p), &p)
}

// ---------------------------------------------------------------------------

#[derive(Clone, Debug, Serialize, Deserialize)]
pub struct GenCase {
    pub key: KeySeed,
    pub random: bool,
    pub msg_seed: u32,
}

fn kind_name<K: KeyType>() -> &'static str {
    let full = std::any::type_name::<K>();
    full.rsplit("::").next().unwrap_or(full)
}

/// serialise -> parse (text and raw), idempotence, clone equivalence for one key
fn serial_checks<B: Backend, K: KeyType>(key: &Key<V<B>, K>) -> R
where
    V<B>: HasKey<K>,
    <V<B> as HasKey<K>>::Key: Clone,
{
    let name = B::NAME;
    let kn = kind_name::<K>();
    let bytes = key_bytes(key);
    let text = key.expose_key().to_string();
    // the operations immediately before are rejected ones on the same back end (a wrong-key token,
    // malformed keys): a key's own text must parse whatever was refused just before
    crate::perturb::rejected_on(B::NAME);
    let re: Key<V<B>, K> = text.parse().map_err(|e| Fail::new(format!("C08/{name}/{kn}/text-roundtrip/rejected"), format!("own PASERK text does not parse (right after rejected operations on this back end): {e}")))?;
    ensure!(key_bytes(&re) == bytes, format!("C08/{name}/{kn}/text-roundtrip/bytes-differ"), "serialise -> parse changes the key bytes");
    ensure!(re.expose_key().to_string() == text, format!("C08/{name}/{kn}/text-roundtrip/text-differs"), "re-serialised text differs");
    crate::perturb::rejected_on(B::NAME);
    let kt = KeyText::<V<B>, K>::from_raw_bytes(&bytes);
    ensure!(kt.as_raw_bytes() == &bytes[..] && kt.to_string() == text, format!("C08/{name}/{kn}/keytext"), "KeyText raw bytes / text mismatch");
    let re2: Key<V<B>, K> = kt.try_into().map_err(|e| Fail::new(format!("C08/{name}/{kn}/raw-roundtrip/rejected"), format!("own raw bytes rejected: {e}")))?;
    let b2 = key_bytes(&re2);
    ensure!(b2 == bytes, format!("C08/{name}/{kn}/raw-roundtrip/bytes-differ"), "raw bytes -> key -> raw bytes is not the identity");
    // decode . encode idempotent
    let re3 = key_from_bytes::<V<B>, K>(&b2).map_err(|e| Fail::new(format!("C08/{name}/{kn}/idempotence"), format!("{e}")))?;
    ensure!(key_bytes(&re3) == b2, format!("C08/{name}/{kn}/idempotence"), "decode -> encode is not idempotent");
    let cl = Key::<V<B>, K>::clone(key);
    ensure!(key_bytes(&cl) == bytes, format!("C08/{name}/{kn}/clone/bytes-differ"), "clone encodes differently");
    Ok(())
}

fn sign_verify<B: Backend>(sk: &SecretKeyOf<B>, pk: &PublicKeyOf<B>, msg: &[u8]) -> Result<(), String> {
    let t = UnsealedToken::<V<B>, Public, Raw>::new(Raw(msg.to_vec())).seal(sk, &[]).map_err(|e| format!("sign: {e}"))?;
    let s = t.to_string();
    let p: SealedToken<V<B>, Public, Raw, ()> = s.parse().map_err(|e| format!("parse: {e}"))?;
    let u = p.unseal(pk, &[], &NoValidation::dangerous_no_validation()).map_err(|e| format!("verify: {e}"))?;
    if u.claims.0 == msg { Ok(()) } else { Err("claims differ".into()) }
}

fn enc_dec<B: Backend>(a: &LocalKeyOf<B>, b: &LocalKeyOf<B>, msg: &[u8]) -> Result<(), String> {
    let t = UnsealedToken::<V<B>, Local, Raw>::new(Raw(msg.to_vec())).seal(a, &[]).map_err(|e| format!("encrypt: {e}"))?;
    let u = t.unseal(b, &[], &NoValidation::dangerous_no_validation()).map_err(|e| format!("decrypt: {e}"))?;
    if u.claims.0 == msg { Ok(()) } else { Err("claims differ".into()) }
}

fn gen_case<B: Backend>(c: &GenCase, acc: &mut Acc) -> R {
    let name = B::NAME;
    let ver = B::VER;
    rng::reseed_case(hash_of(&c.key));
    let msg = rng::det_bytes(c.msg_seed as u64, 0xc08, (c.msg_seed % 90) as usize);
    let random = c.random && ver != Ver::V1;
    let lk: LocalKeyOf<B> = if random { LocalKeyOf::<B>::random().map_err(|e| Fail::new(format!("C08/{name}/random-local"), format!("{e}")))? } else { local_key::<B>(&c.key) };
    let sk: SecretKeyOf<B> = if random { SecretKeyOf::<B>::random().map_err(|e| Fail::new(format!("C08/{name}/random-secret"), format!("{e}")))? } else { secret_key::<B>(&c.key) };
    let pk = sk.public_key();
    serial_checks::<B, Local>(&lk)?;
    // From<[u8; 32]> is the same key as parsing the bytes
    let raw32: [u8; 32] = key_bytes(&lk).try_into().map_err(|_| Fail::new(format!("C08/{name}/Local/length"), "local key is not 32 bytes"))?;
    let via_from = catch(|| LocalKeyOf::<B>::from(raw32)).map_err(|loc| Fail::new(format!("C08/{name}/Local/from-array-panicked"), loc))?;
    ensure!(key_bytes(&via_from) == raw32, format!("C08/{name}/Local/from-array-differs"), "LocalKey::from([u8; 32]) gives other bytes");
    serial_checks::<B, Secret>(&sk)?;
    serial_checks::<B, Public>(&pk)?;
    // Display of public keys is the PASERK text
    ensure!(pk.to_string() == pk.expose_key().to_string(), format!("C08/{name}/Public/display"), "Display differs from the PASERK text");
    let (psk, ppk, psk_raw, ppk_raw) = pke_pair::<B>(&c.key);
    serial_checks::<B, PkeSecret>(&psk)?;
    serial_checks::<B, PkePublic>(&ppk)?;
    ensure!(model::pem_to_der(&key_bytes(&psk)) == model::pem_to_der(&psk_raw) && key_bytes(&ppk) == ppk_raw, format!("C08/{name}/pke/bytes"), "PKE key bytes changed by decode/encode");

    // public_key() is the public half of the serialisation and the model's derivation
    let sk_raw = key_bytes(&sk);
    let want_pk = public_bytes(ver, &sk_raw);
    ensure!(
        key_bytes(&pk) == want_pk,
        format!("C08/{name}/public_key/differs-from-reference"),
        "public_key() = {} but the secret key's public half is {}",
        hx(&key_bytes(&pk)),
        hx(&want_pk)
    );
    if !random {
        ensure!(model::pem_to_der(&sk_raw) == model::pem_to_der(&secret_bytes(ver, &c.key)), format!("C08/{name}/Secret/bytes"), "decode -> encode changed the secret key bytes");
    }
    // behaviour: everything the secret key (and its clone, and its re-parsed form) signs verifies
    // under public_key() (and its clone, and the re-parsed public key)
    let sk2 = sk.clone();
    let sk3 = key_from_bytes::<V<B>, Secret>(&sk_raw).map_err(|e| Fail::new(format!("C08/{name}/Secret/reparse"), format!("{e}")))?;
    let pk2 = pk.clone();
    let pk3 = key_from_bytes::<V<B>, Public>(&want_pk).map_err(|e| Fail::new(format!("C08/{name}/Public/reparse"), format!("{e}")))?;
    for (i, (s, p)) in [(&sk, &pk), (&sk2, &pk), (&sk3, &pk2), (&sk, &pk3), (&sk2, &pk3)].iter().enumerate() {
        sign_verify::<B>(s, p, &msg).map_err(|e| Fail::new(format!("C08/{name}/behaviour/sign-verify-{i}"), format!("sign with (original|clone|re-parsed) secret key, verify with (public_key()|clone|re-parsed): {e}")))?;
    }
    // equivalent keys behave identically: where signing is deterministic the original, its clone,
    // a clone of the clone and the re-parsed key produce byte-identical tokens
    if B::DETERMINISTIC_SIG {
        let sign = |k: &SecretKeyOf<B>| UnsealedToken::<V<B>, Public, Raw>::new(Raw(msg.clone())).with_footer(vec![1, 2, 3]).seal(k, &[]).map(|t| t.to_string());
        let t0 = sign(&sk).map_err(|e| Fail::new(format!("C08/{name}/behaviour/sign"), format!("{e}")))?;
        let sk4 = sk2.clone();
        for (label, k) in [("clone", &sk2), ("clone-of-clone", &sk4), ("re-parsed", &sk3)] {
            let t = sign(k).map_err(|e| Fail::new(format!("C08/{name}/behaviour/sign"), format!("{e}")))?;
            ensure!(t == t0, format!("C08/{name}/behaviour/{label}-signs-differently"), "the {label} of a secret key signs the same message differently from the original (deterministic signatures)");
        }
    }
    let lk2 = lk.clone();
    let lk3 = key_from_bytes::<V<B>, Local>(&key_bytes(&lk)).unwrap();
    // same for local keys with a caller nonce: identical ciphertext from original, clone, re-parsed
    {
        let nonce = rng::det_bytes(c.msg_seed as u64, 0x10c, ver.local_draw_len());
        let enc = |k: &LocalKeyOf<B>| UnsealedToken::<V<B>, Local, Raw>::new(Raw(msg.clone())).dangerous_seal_with_nonce(k, &[], nonce.clone()).map(|t| t.to_string());
        let t0 = enc(&lk).map_err(|e| Fail::new(format!("C08/{name}/behaviour/encrypt"), format!("{e}")))?;
        for (label, k) in [("clone", &lk2), ("re-parsed", &lk3)] {
            let t = enc(k).map_err(|e| Fail::new(format!("C08/{name}/behaviour/encrypt"), format!("{e}")))?;
            ensure!(t == t0, format!("C08/{name}/behaviour/local-{label}-encrypts-differently"), "the {label} of a local key encrypts differently");
        }
    }
    for (i, (a, b)) in [(&lk, &lk2), (&lk2, &lk3), (&lk3, &lk)].iter().enumerate() {
        enc_dec::<B>(a, b, &msg).map_err(|e| Fail::new(format!("C08/{name}/behaviour/encrypt-decrypt-{i}"), e))?;
    }
    acc.eval();
    if !random {
        acc.nt(hash_of(&(&c.key, c.msg_seed)));
    }
    acc.class(if random { "key:random()" } else { "key:parsed-from-generated-bytes" });
    acc.sample(|| json!({"backend": name, "random": random, "secret_key_len": sk_raw.len(), "public_key": hx(&want_pk)}));
    Ok(())
}

// ---------------------------------------------------------------------------
// byte strings offered as keys

#[derive(Clone, Debug, Serialize, Deserialize, PartialEq, Eq, Hash)]
pub struct BytesCase {
    /// Local | Public | Secret | PkePublic | PkeSecret
    pub kind: String,
    pub shape: String,
    #[serde(with = "hexser")]
    pub bytes: Vec<u8>,
}

#[derive(PartialEq, Eq, Clone, Copy, Debug)]
enum Expect {
    MustAccept,
    MustReject,
    Either,
}

/// What the formats prescribe for `bytes` offered as key kind `kind` of version `ver`.
fn expectation(ver: Ver, kind: &str, bytes: &[u8]) -> (Expect, &'static str) {
    use Expect::*;
    let n = bytes.len();
    match (ver, kind) {
        (_, "Local") => if n == 32 { (MustAccept, "32 bytes") } else { (MustReject, "wrong length") },
        (Ver::V2 | Ver::V4, "Public" | "PkePublic") => {
            if n != 32 {
                (MustReject, "wrong length")
            } else if !ed25519_decompressible(bytes) {
                (MustReject, "not a curve point")
            } else {
                (Either, "curve point (small-order / non-canonical points are not constrained)")
            }
        }
        (Ver::V2 | Ver::V4, "Secret" | "PkeSecret") => {
            if n != 64 {
                (MustReject, "wrong length")
            } else if model::ed25519_pk_from_seed(bytes[..32].try_into().unwrap())[..] == bytes[32..] {
                (MustAccept, "seed with its own public key")
            } else {
                (MustReject, "public half does not belong to the seed")
            }
        }
        (Ver::V3, "Public" | "PkePublic") => {
            if n != 49 {
                (MustReject, "wrong length / not the compressed form")
            } else if bytes[0] != 2 && bytes[0] != 3 {
                (MustReject, "tag is not 02/03")
            } else if !p384_x_on_curve(&bytes[1..]) {
                (MustReject, "off-curve x")
            } else {
                (MustAccept, "compressed point on the curve")
            }
        }
        (Ver::V3, "Secret" | "PkeSecret") => {
            if n != 48 {
                (MustReject, "wrong length")
            } else {
                let s = BigUint::from_bytes_be(bytes);
                if s == BigUint::from(0u8) || s >= p384_n() { (MustReject, "scalar out of range") } else { (MustAccept, "scalar in [1, n-1]") }
            }
        }
        (Ver::V1, _) => (Either, "v1 shapes are judged by the caller (DER structure)"),
        _ => (Either, ""),
    }
}

fn offer<B: Backend, K: KeyType>(c: &BytesCase, acc: &mut Acc, expect: Expect, why: &str) -> R
where
    V<B>: HasKey<K>,
    <V<B> as HasKey<K>>::Key: Clone,
{
    let name = B::NAME;
    let kn = &c.kind;
    let r = catch(|| key_from_bytes::<V<B>, K>(&c.bytes));
    let r = r.map_err(|loc| Fail::new(format!("C08/{name}/{kn}/decode-panicked/{}", panic_site(&loc)), format!("decoding {} bytes ({}) panicked at {loc}", c.bytes.len(), c.shape)))?;
    acc.eval();
    match (&r, expect) {
        (Ok(_), Expect::MustReject) => {
            return Err(Fail::new(
                format!("C08/{name}/{kn}/accepted/{}", c.shape.split('#').next().unwrap_or("")),
                format!("{} bytes {} accepted as a {kn} key although: {why}", c.bytes.len(), hx(&c.bytes)),
            ));
        }
        (Err(e), Expect::MustAccept) => {
            return Err(Fail::new(format!("C08/{name}/{kn}/rejected/{}", c.shape.split('#').next().unwrap_or("")), format!("valid key bytes {} rejected ({why}): {e}", hx(&c.bytes))));
        }
        _ => {}
    }
    if let Ok(k) = r {
        acc.class("offered:accepted");
        // whatever is accepted must serialise without panicking and be a fixed point from then on
        let k2 = k.clone();
        let enc = catch(move || key_bytes(&k2)).map_err(|loc| Fail::new(format!("C08/{name}/{kn}/accepted-key-encode-panicked/{}", panic_site(&loc)), format!("key accepted from {} then panicked on encode at {loc}", hx(&c.bytes))))?;
        let again = key_from_bytes::<V<B>, K>(&enc).map_err(|e| Fail::new(format!("C08/{name}/{kn}/accepted-key-not-reparsable"), format!("encode of an accepted key is rejected: {e}")))?;
        ensure!(key_bytes(&again) == enc, format!("C08/{name}/{kn}/accepted-key-idempotence"), "encode(decode(encode(decode(x)))) != encode(decode(x))");
        if B::VER != Ver::V1 {
            ensure!(enc == c.bytes, format!("C08/{name}/{kn}/accepted-key-bytes-changed"), "accepted {} but re-encodes as {} (two byte strings for one key)", hx(&c.bytes), hx(&enc));
        }
    } else {
        acc.class("offered:rejected");
    }
    Ok(())
}

fn bytes_case<B: Backend>(c: &BytesCase, acc: &mut Acc) -> R {
    let ver = B::VER;
    let (mut expect, mut why) = expectation(ver, &c.kind, &c.bytes);
    if ver == Ver::V1 && c.kind != "Local" {
        // shapes carry their own verdict for v1
        if c.shape.starts_with("rsa-wrong-modulus") || c.shape.starts_with("len") || c.shape.starts_with("rsa-truncated") {
            expect = Expect::MustReject;
            why = "not an RSA key of the required modulus size";
        } else if c.shape.starts_with("rsa-valid") {
            expect = Expect::MustAccept;
            why = "valid key of the required size";
        }
    }
    let r = match c.kind.as_str() {
        "Local" => offer::<B, Local>(c, acc, expect, why),
        "Public" => offer::<B, Public>(c, acc, expect, why),
        "Secret" => offer::<B, Secret>(c, acc, expect, why),
        "PkePublic" => offer::<B, PkePublic>(c, acc, expect, why),
        _ => offer::<B, PkeSecret>(c, acc, expect, why),
    };
    r?;
    // an accepted secret key must agree with its own public key
    if c.kind == "Secret" {
        if let Ok(sk) = key_from_bytes::<V<B>, Secret>(&c.bytes) {
            let pk = catch(|| sk.public_key()).map_err(|loc| Fail::new(format!("C08/{}/Secret/public_key-panicked/{}", B::NAME, panic_site(&loc)), loc.clone()))?;
            sign_verify::<B>(&sk, &pk, b"probe").map_err(|e| {
                Fail::new(format!("C08/{}/Secret/accepted-key-inconsistent", B::NAME), format!("a token signed with accepted secret key {} does not verify under its own public_key(): {e}", hx(&c.bytes)))
            })?;
        }
    }
    if expect != Expect::Either || c.shape.contains("boundary") {
        acc.nt(hash_of(c));
    }
    acc.class(&format!("expect:{expect:?}"));
    if acc.samples.len() < 3 && c.shape.contains('#') {
        acc.sample(|| json!({"backend": B::NAME, "kind": c.kind, "shape": c.shape, "len": c.bytes.len(), "expectation": format!("{expect:?}: {why}")}));
    }
    Ok(())
}

pub fn shapes_pub<B: Backend>(seed: u64, tier: Tier) -> Vec<BytesCase> {
    shapes::<B>(seed, tier)
}

/// Ed25519 public-key encodings at the edges of what decoders accept: y written unreduced
/// (p + k, k = 0..18, either sign bit), x = 0 with the sign bit set, the small-order points,
/// all-zero and all-ones.  Whether each is accepted is not constrained; what an accepted one
/// serialises to and hashes to is.
pub fn ed25519_edge_encodings() -> Vec<(String, Vec<u8>)> {
    let mut out = Vec::new();
    for k in 0u8..19 {
        for sign in [0u8, 0x80] {
            let mut v = vec![0xffu8; 32];
            v[0] = 0xed + k;
            v[31] = 0x7f | sign;
            out.push((format!("ed25519-edge#y=p+{k}-sign{}", sign >> 7), v));
        }
    }
    for (name, y0) in [("y=1", 1u8), ("y=0", 0u8)] {
        for sign in [0u8, 0x80] {
            let mut v = vec![0u8; 32];
            v[0] = y0;
            v[31] = sign;
            out.push((format!("ed25519-edge#{name}-sign{}", sign >> 7), v));
        }
    }
    // y = p - 1 (the point of order 2), either sign
    for sign in [0u8, 0x80] {
        let mut v = vec![0xffu8; 32];
        v[0] = 0xec;
        v[31] = 0x7f | sign;
        out.push((format!("ed25519-edge#y=p-1-sign{}", sign >> 7), v));
    }
    // the two order-8 points' y coordinates (RFC 8032 small-order list)
    for (i, hexs) in ["26e8958fc2b227b045c3f489f2ef98f0d5dfac05d3c63339b13802886d53fc05", "c7176a703d4dd84fba3c0b760d10670f2a2053fa2c39ccc64ec7fd7792ac037a"].iter().enumerate() {
        let mut v = hex::decode(hexs).unwrap();
        out.push((format!("ed25519-edge#order8-{i}"), v.clone()));
        v[31] |= 0x80;
        out.push((format!("ed25519-edge#order8-{i}-sign1"), v));
    }
    out.push(("ed25519-edge#all-ones".into(), vec![0xff; 32]));
    out
}

/// the enumerated shapes for one back end
fn shapes<B: Backend>(seed: u64, tier: Tier) -> Vec<BytesCase> {
    let ver = B::VER;
    let mut out = Vec::new();
    let kinds = ["Local", "Public", "Secret", "PkePublic", "PkeSecret"];
    let mut push = |kind: &str, shape: String, bytes: Vec<u8>| out.push(BytesCase { kind: kind.into(), shape, bytes });
    // every length 0..=128 with three contents
    for kind in kinds {
        for len in 0..=128usize {
            for (ci, content) in [rng::det_bytes(seed ^ len as u64, 0x1e, len), vec![0u8; len], vec![0xff; len]].into_iter().enumerate() {
                push(kind, format!("len#{len}-{ci}"), content);
            }
        }
    }
    let reps = tier.pick(40usize, 600);
    let ks: Vec<KeySeed> = (0..reps).map(|i| KeySeed::from_u64(seed ^ (i as u64 * 0x9e37))).collect();
    if ver != Ver::V1 {
        // valid keys with bytes inserted, appended, prepended, removed or doubled: every one has
        // the wrong length for its kind and must be refused, whatever its two ends look like
        for (ki, k) in ks.iter().enumerate().take(tier.pick(12, 100)) {
            let sk = secret_bytes(ver, k);
            let pk = public_bytes(ver, &sk);
            let lk = local_key_bytes(k).to_vec();
            let psk = pke_secret_bytes(ver, k);
            let ppk = public_bytes(ver, &psk);
            for (kind, vb) in [("Local", &lk), ("Secret", &sk), ("Public", &pk), ("PkeSecret", &psk), ("PkePublic", &ppk)] {
                let l = vb.len();
                let junk = |n: usize, t: u64| rng::det_bytes(hash_of(k) ^ t, 0x1b, n);
                for at in [0usize, 1, l / 2, 32.min(l), l - 1, l] {
                    for n in [1usize, 2, 16, 32] {
                        // inserted bytes: random, and zeros / ones (zero-extension of big-endian integers)
                        for (fname, fillv) in [("random", junk(n, (at * 64 + n) as u64)), ("zeros", vec![0u8; n]), ("ones", vec![0xffu8; n])] {
                            let mut v = vb[..at].to_vec();
                            v.extend(fillv);
                            v.extend_from_slice(&vb[at..]);
                            push(kind, format!("valid-key-with-insertion#at{at}+{n}-{fname}"), v);
                        }
                    }
                    if at < l {
                        let mut v = vb[..at].to_vec();
                        v.extend_from_slice(&vb[at + 1..]);
                        push(kind, format!("valid-key-with-deletion#at{at}"), v);
                    }
                }
                let mut d = vb.to_vec();
                d.extend_from_slice(vb);
                push(kind, "valid-key-doubled".into(), d);
                if l >= 64 {
                    // first half ++ first half, second half ++ second half, halves swapped
                    push(kind, "valid-key-halves#swapped".into(), [&vb[l / 2..], &vb[..l / 2]].concat());
                    push(kind, "valid-key-halves#first-only".into(), vb[..l / 2].to_vec());
                    push(kind, "valid-key-halves#second-only".into(), vb[l / 2..].to_vec());
                }
            }
            if matches!(ver, Ver::V2 | Ver::V4) && ki < tier.pick(2, 8) {
                // seed and public half overlapping by one byte (63 bytes whose first 32 are a seed and
                // whose last 32 are its public key): search a seed whose last byte equals pk[0]
                for t in 0..4096u64 {
                    let seed: [u8; 32] = rng::det_bytes(hash_of(k) ^ 0x0e1a, t, 32).try_into().unwrap();
                    let pkk = model::ed25519_pk_from_seed(&seed);
                    if seed[31] == pkk[0] {
                        let mut v = seed[..31].to_vec();
                        v.extend_from_slice(&pkk);
                        for kind in ["Secret", "PkeSecret"] {
                            push(kind, "valid-key-halves#overlapping-63".into(), v.clone());
                        }
                        break;
                    }
                }
            }
        }
    }
    match ver {
        Ver::V3 => {
            let n = p384_n();
            let to48 = |x: &BigUint| {
                let b = x.to_bytes_be();
                let mut v = vec![0u8; 48 - b.len()];
                v.extend_from_slice(&b);
                v
            };
            for kind in ["Secret", "PkeSecret"] {
                push(kind, "scalar-boundary#0".into(), vec![0u8; 48]);
                push(kind, "scalar-boundary#1".into(), to48(&BigUint::from(1u8)));
                push(kind, "scalar-boundary#2".into(), to48(&BigUint::from(2u8)));
                push(kind, "scalar-boundary#n-1".into(), to48(&(&n - BigUint::from(1u8))));
                push(kind, "scalar-boundary#n".into(), to48(&n));
                push(kind, "scalar-boundary#n+1".into(), to48(&(&n + BigUint::from(1u8))));
                push(kind, "scalar-boundary#2^384-1".into(), vec![0xff; 48]);
                for j in [8usize, 16, 24, 47] {
                    // small scalars: leading zero bytes must survive encode
                    let mut v = vec![0u8; 48];
                    v[j..].copy_from_slice(&rng::det_bytes(seed, j as u64, 48 - j));
                    if v.iter().all(|b| *b == 0) {
                        v[47] = 7;
                    }
                    push(kind, format!("scalar-boundary#leading-zeros-{j}"), v);
                }
            }
            for k in &ks {
                let sk = secret_bytes(ver, k);
                let pk = public_bytes(ver, &sk);
                let unc = model::p384_uncompress(&pk).unwrap();
                for kind in ["Public", "PkePublic"] {
                    push(kind, "sec1-compressed-valid".into(), pk.clone());
                    let mut neg = pk.clone();
                    neg[0] ^= 1;
                    push(kind, "sec1-compressed-negated".into(), neg);
                    push(kind, "sec1-uncompressed-97".into(), unc.clone());
                    let mut hy = unc.clone();
                    hy[0] = 6 | (unc[96] & 1);
                    push(kind, "sec1-hybrid-97".into(), hy);
                    let mut compact = pk.clone();
                    compact[0] = 5;
                    push(kind, "sec1-compact-tag05".into(), compact);
                    for tag in [0u8, 1, 4, 6, 7, 8, 0xff] {
                        let mut t = pk.clone();
                        t[0] = tag;
                        push(kind, format!("sec1-49-bytes-tag{tag:02x}"), t);
                    }
                    push(kind, "sec1-x-only-48".into(), pk[1..].to_vec());
                    // off-curve x: search from a seeded x
                    let mut x = rng::det_bytes(hash_of(k), 0x0ff, 48);
                    x[0] &= 0x7f;
                    while p384_x_on_curve(&x) {
                        x[47] = x[47].wrapping_add(1);
                    }
                    let mut off = vec![2u8];
                    off.extend_from_slice(&x);
                    push(kind, "sec1-off-curve-x".into(), off);
                }
            }
            for kind in ["Public", "PkePublic"] {
                push(kind, "sec1-infinity#00".into(), vec![0u8]);
                push(kind, "sec1-infinity#padded".into(), vec![0u8; 49]);
                let mut xp = vec![2u8];
                xp.extend_from_slice(&to48(&p384_p()));
                push(kind, "sec1-x-equals-p".into(), xp);
                let mut xm = vec![3u8];
                xm.extend_from_slice(&[0xff; 48]);
                push(kind, "sec1-x-all-ones".into(), xm);
            }
        }
        Ver::V2 | Ver::V4 => {
            for (shape, bytes) in ed25519_edge_encodings() {
                for kind in ["Public", "PkePublic"] {
                    push(kind, shape.clone(), bytes.clone());
                }
            }
            for k in &ks {
                let sk = secret_bytes(ver, k);
                let pk = public_bytes(ver, &sk);
                for kind in ["Secret", "PkeSecret"] {
                    push(kind, "ed25519-seed-with-own-public".into(), sk.clone());
                    let other = public_bytes(ver, &secret_bytes(ver, &KeySeed::from_u64(hash_of(k) ^ 0xabc)));
                    let mut mism = sk[..32].to_vec();
                    mism.extend_from_slice(&other);
                    push(kind, "ed25519-seed-with-foreign-public".into(), mism);
                    let mut flip = sk.clone();
                    flip[63] ^= 0x80;
                    push(kind, "ed25519-public-half-sign-bit-flipped".into(), flip);
                    let mut z = sk[..32].to_vec();
                    z.extend_from_slice(&[0u8; 32]);
                    push(kind, "ed25519-public-half-zero".into(), z);
                }
                for kind in ["Public", "PkePublic"] {
                    let mut ident = vec![0u8; 32];
                    ident[0] = 1;
                    push(kind, "ed25519-identity".into(), ident);
                    push(kind, "ed25519-public-valid".into(), pk.clone());
                    // a y that does not decompress
                    let mut y = rng::det_bytes(hash_of(k), 0xedd, 32);
                    while ed25519_decompressible(&y) {
                        y[0] = y[0].wrapping_add(1);
                    }
                    push(kind, "ed25519-not-a-point".into(), y);
                }
            }
        }
        Ver::V1 => {
            let n2 = crate::keypool::n2048();
            let n4 = crate::keypool::n4096();
            for i in 0..n2.max(n4) {
                let k2 = crate::keypool::rsa2048(i);
                let k4 = crate::keypool::rsa4096(i);
                let p2 = public_bytes(ver, &k2);
                let p4 = public_bytes(ver, &k4);
                push("Secret", "rsa-valid-der".into(), k2.clone());
                push("Secret", "rsa-valid-pem".into(), crate::props::c13::pem_encode("RSA PRIVATE KEY", &k2));
                push("Secret", "rsa-wrong-modulus-4096".into(), k4.clone());
                push("Secret", "rsa-wrong-modulus-4096-pem".into(), crate::props::c13::pem_encode("RSA PRIVATE KEY", &k4));
                push("Public", "rsa-valid-der".into(), p2.clone());
                push("Public", "rsa-valid-pem".into(), crate::props::c13::pem_encode("PUBLIC KEY", &p2));
                push("Public", "rsa-wrong-modulus-4096".into(), p4.clone());
                push("PkeSecret", "rsa-valid-der".into(), k4.clone());
                push("PkeSecret", "rsa-wrong-modulus-2048".into(), k2.clone());
                push("PkePublic", "rsa-valid-der".into(), p4.clone());
                push("PkePublic", "rsa-valid-pem".into(), crate::props::c13::pem_encode("PUBLIC KEY", &p4));
                push("PkePublic", "rsa-wrong-modulus-2048".into(), p2.clone());
                for cut in [1usize, 2, 17, 100] {
                    push("Secret", format!("rsa-truncated-{cut}"), k2[..k2.len() - cut].to_vec());
                    push("Public", format!("rsa-truncated-{cut}"), p2[..p2.len() - cut].to_vec());
                }
                // public key offered as secret and vice versa
                push("Secret", "rsa-wrong-modulus-public-as-secret".into(), p2.clone());
                push("Public", "rsa-wrong-modulus-secret-as-public".into(), k2.clone());
            }
            // structurally odd private keys (well-formed DER, dishonest numbers): acceptance is not
            // constrained here, panics - at decode time or when an accepted key is used - are
            for i in 0..2usize {
                // every envelope a private key travels in: PKCS#1 DER, PKCS#1 PEM, PKCS#8 DER, PKCS#8 PEM,
                // and PEM under labels of neighbouring formats
                for (shape, der) in crate::keypool::odd_private_keys(2048, i) {
                    push("Secret", shape.clone(), der.clone());
                    push("Secret", format!("{shape}-pem"), crate::props::c13::pem_encode("RSA PRIVATE KEY", &der));
                    let p8 = crate::keypool::pkcs8_wrap(&der);
                    push("Secret", format!("{shape}-pkcs8-der"), p8.clone());
                    push("Secret", format!("{shape}-pkcs8-pem"), crate::props::c13::pem_encode("PRIVATE KEY", &p8));
                    push("Secret", format!("{shape}-pkcs1-under-pkcs8-label"), crate::props::c13::pem_encode("PRIVATE KEY", &der));
                    push("Secret", format!("{shape}-pkcs8-under-pkcs1-label"), crate::props::c13::pem_encode("RSA PRIVATE KEY", &p8));
                    push("Secret", format!("{shape}-encrypted-label"), crate::props::c13::pem_encode("ENCRYPTED PRIVATE KEY", &p8));
                }
                for (shape, der) in crate::keypool::odd_private_keys(4096, i) {
                    push("PkeSecret", shape.clone(), der.clone());
                    if i == 0 {
                        let p8 = crate::keypool::pkcs8_wrap(&der);
                        push("PkeSecret", format!("{shape}-pem"), crate::props::c13::pem_encode("RSA PRIVATE KEY", &der));
                        push("PkeSecret", format!("{shape}-pkcs8-der"), p8.clone());
                        push("PkeSecret", format!("{shape}-pkcs8-pem"), crate::props::c13::pem_encode("PRIVATE KEY", &p8));
                    }
                }
                // honest keys in the PKCS#8 envelopes (whether they are accepted is the decoder's affair;
                // what is accepted must serialise, derive its public key and be usable)
                {
                    let der = crate::keypool::rsa2048(i);
                    let p8 = crate::keypool::pkcs8_wrap(&der);
                    push("Secret", "rsa-honest-in-pkcs8-der".into(), p8.clone());
                    push("Secret", "rsa-honest-in-pkcs8-pem".into(), crate::props::c13::pem_encode("PRIVATE KEY", &p8));
                }
                for (shape, der) in crate::keypool::odd_public_keys(2048, i) {
                    push("Public", shape.clone(), der.clone());
                    push("Public", format!("{shape}-pem"), crate::props::c13::pem_encode("PUBLIC KEY", &der));
                }
                for (shape, der) in crate::keypool::odd_public_keys(4096, i) {
                    push("PkePublic", shape.clone(), der.clone());
                }
            }
            // moduli one bit / one byte beside the allowed sizes, and common other sizes
            for (bits, der) in crate::keypool::odd_sizes() {
                let pubder = public_bytes(ver, &der);
                for kind in ["Secret", "PkeSecret"] {
                    push(kind, format!("rsa-wrong-modulus-{bits}"), der.clone());
                    push(kind, format!("rsa-wrong-modulus-{bits}-pem"), crate::props::c13::pem_encode("RSA PRIVATE KEY", &der));
                }
                for kind in ["Public", "PkePublic"] {
                    push(kind, format!("rsa-wrong-modulus-{bits}"), pubder.clone());
                    push(kind, format!("rsa-wrong-modulus-{bits}-pem"), crate::props::c13::pem_encode("PUBLIC KEY", &pubder));
                }
            }
        }
    }
    out
}

fn subs_for<B: Backend>(out: &mut Vec<SubCheck>) {
    let v1 = B::VER == Ver::V1;
    out.push(SubCheck::prop(
        format!("c08.generated/{}", B::NAME),
        if v1 { 12 } else { 6 },
        match B::NAME {
            "paseto-v1" => (40, 400),
            "paseto-v3" => (120, 2500),
            "paseto-v3-aws-lc" => (300, 6000),
            _ => (1000, 20000),
        },
        |_t| (gens::key_seed(), prop::bool::weighted(0.3), any::<u32>()).prop_map(|(key, random, msg_seed)| GenCase { key, random, msg_seed }),
        gen_case::<B>,
    ));
    out.push(SubCheck::custom(
        format!("c08.bytes/{}", B::NAME),
        4,
        |acc: &mut Acc| {
            let seed = mix(acc.seed, fnv(B::NAME.as_bytes()));
            let all = shapes::<B>(seed, acc.tier);
            for c in &all {
                acc.check(c, |acc| bytes_case::<B>(c, acc));
            }
            acc.exhaustive.push(format!("{}: every byte-string length 0..=128 x 3 contents x 5 key kinds", B::NAME));
        },
        |v: &Value, acc: &mut Acc| {
            let c: BytesCase = serde_json::from_value(v.clone()).map_err(|e| Fail::new("HARNESS/replay-decode", format!("{e}")))?;
            bytes_case::<B>(&c, acc)
        },
    ));
}

pub fn def() -> PropertyDef {
    let mut subs = Vec::new();
    crate::for_backends!(B => subs_for::<B>(&mut subs));
    PropertyDef {
        id: "C08",
        level: "exploration",
        rule: "(a) proptest over generated keys of all five kinds (parsed from generated bytes, or random()): PASERK text and raw bytes round-trip to identical encode bytes, decode.encode idempotent, clone encodes identically, public_key() equals the reference derivation (libsodium / p384 / SPKI of the RSA key) and the public half of the serialisation, and tokens signed by the original / clone / re-parsed secret key verify under public_key() / its clone / the re-parsed public key; (b) enumeration of byte strings offered as keys: every length 0..=128 x {random, 0x00, 0xff} x 5 kinds plus structured shapes (scalars 0,1,2,n-1,n,n+1,2^384-1, leading-zero scalars; SEC1 tags 00..08/ff, compressed/negated/uncompressed/hybrid/compact/infinity, x = p, off-curve x; Ed25519 seeds with foreign / flipped / zero public halves, non-decompressible y; RSA keys of the wrong modulus size, truncated DER, public-as-secret) against an independent acceptance oracle (own big-integer curve arithmetic); anything accepted must re-encode to the same bytes and behave (sign/verify) consistently. Non-trivial iff the key is not from random() / the shape has a definite must-accept or must-reject verdict",
        assumptions: vec![
            "Ed25519 public keys: only wrong lengths and non-decompressible strings must be rejected (small-order and non-canonical points are not constrained by PASETO/PASERK)",
            "v1 keys may be supplied as PEM; the canonical form is DER",
        ],
        subs,
    }
}
