//! C17 — shared keys behave the same under concurrent use and after failed operations.
//! Plans of operations run on real threads against ONE shared key set; the oracle is a
//! sequential model (results precomputed on a fresh copy of the keys).  Runs in a child
//! process so that a crash is observed as a violation.

use std::sync::{Arc, Barrier};

use paseto_core::PasetoError;
use paseto_core::paserk::{PasswordWrappedKey, PieWrappedKey, SealedKey};
use paseto_core::tokens::{SealedToken, UnsealedToken};
use paseto_core::validation::NoValidation;
use paseto_core::version::{Local, Public};
use proptest::prelude::*;
use serde::{Deserialize, Serialize};
use serde_json::json;

use crate::backends::*;
use crate::engine::*;
use crate::gens;
use crate::refmodel::Ver;

#[derive(Clone, Copy, Debug, Serialize, Deserialize, PartialEq, Eq, Hash)]
pub enum Op {
    Sign(u8),
    Verify(u8),
    VerifyBad(u8),
    Encrypt(u8),
    Decrypt(u8),
    DecryptBad(u8),
    DecryptWrongAssertion(u8),
    WrapPie,
    UnwrapPie,
    UnwrapPieWrongKey,
    UnwrapPwWrongPassword,
    /// the right password on a copy of the blob whose cost parameters were changed to other valid ones
    UnwrapPwTamperedParams,
    UnwrapPw,
    SealKey,
    UnsealKey,
    UnsealKeyBad,
    Id,
    Display,
    CloneUse,
    CloneDrop,
    PublicKey,
    Yield,
    Spin(u8),
}

#[derive(Clone, Debug, Serialize, Deserialize, PartialEq, Eq, Hash)]
pub struct Plan {
    pub key: KeySeed,
    pub threads: Vec<Vec<Op>>,
}

fn op_strategy(heavy_ok: bool) -> impl Strategy<Value = Op> {
    prop_oneof![
        6 => (0u8..4).prop_map(Op::Sign),
        6 => (0u8..4).prop_map(Op::Verify),
        3 => (0u8..4).prop_map(Op::VerifyBad),
        5 => (0u8..4).prop_map(Op::Encrypt),
        5 => (0u8..4).prop_map(Op::Decrypt),
        3 => (0u8..4).prop_map(Op::DecryptBad),
        1 => (0u8..4).prop_map(Op::DecryptWrongAssertion),
        2 => Just(Op::WrapPie),
        2 => Just(Op::UnwrapPie),
        2 => Just(Op::UnwrapPieWrongKey),
        1 => Just(Op::UnwrapPw),
        2 => Just(Op::UnwrapPwWrongPassword),
        2 => Just(Op::UnwrapPwTamperedParams),
        1 => Just(Op::SealKey),
        1 => Just(Op::UnsealKey),
        1 => Just(Op::UnsealKeyBad),
        3 => Just(Op::Id),
        3 => Just(Op::Display),
        5 => Just(Op::CloneUse),
        5 => Just(Op::CloneDrop),
        3 => Just(Op::PublicKey),
        2 => Just(Op::Yield),
        2 => (1u8..40).prop_map(Op::Spin),
    ]
    // RSA-4096 key sealing costs ~15 ms per operation: not in v1 plans
    .prop_map(move |o| if !heavy_ok && matches!(o, Op::SealKey | Op::UnsealKey | Op::UnsealKeyBad) { Op::Yield } else { o })
}

fn plan_strategy<B: Backend>(max_ops: usize) -> impl Strategy<Value = Plan> {
    let heavy_ok = B::VER != Ver::V1;
    (gens::key_seed(), prop_oneof![2 => 1usize..=1, 8 => 2usize..=16].prop_flat_map(move |n| proptest::collection::vec(proptest::collection::vec(op_strategy(heavy_ok), 1..max_ops), n..=n))).prop_map(|(key, threads)| Plan { key, threads })
}

struct Shared<B: Backend> {
    lk: LocalKeyOf<B>,
    sk: SecretKeyOf<B>,
    pk: PublicKeyOf<B>,
    wk: LocalKeyOf<B>,
    wrong_wk: LocalKeyOf<B>,
    pke_sk: PkeSecretOf<B>,
    pke_pk: PkePublicOf<B>,
}

/// Expected results, precomputed sequentially on a *separate* copy of the keys.
struct Expect {
    msgs: Vec<Vec<u8>>,
    signed: Vec<String>,
    signed_bad: Vec<String>,
    encrypted: Vec<String>,
    encrypted_bad: Vec<String>,
    pie: String,
    pw: String,
    pw_tampered: String,
    sealed: String,
    sealed_bad: String,
    lid: String,
    sid: String,
    pid: String,
    pk_text: String,
    lk_raw: Vec<u8>,
}

fn mk_shared<B: Backend>(key: &KeySeed) -> Shared<B> {
    let sk = secret_key::<B>(key);
    let (pke_sk, pke_pk, _, _) = pke_pair::<B>(key);
    Shared {
        lk: local_key::<B>(key),
        pk: sk.public_key(),
        sk,
        wk: local_key::<B>(&KeySeed::from_u64(hash_of(key) ^ 1)),
        wrong_wk: local_key::<B>(&KeySeed::from_u64(hash_of(key) ^ 2)),
        pke_sk,
        pke_pk,
    }
}

fn flip_last(s: &str) -> String {
    let mut v: Vec<char> = s.chars().collect();
    let n = v.len();
    // change a character well inside the last segment (keeps the base64 tail canonical)
    let i = n - 6;
    v[i] = if v[i] == 'A' { 'B' } else { 'A' };
    v.into_iter().collect()
}

/// Failing tokens of different shapes (variant 0..3): a flipped character, the tag / signature
/// zeroed (degenerate r = s = 0), its first half zeroed (r = 0), the token truncated by ten bytes.
fn corrupt(tok: &str, variant: usize, tail: usize) -> String {
    let cut = tok.match_indices('.').nth(1).map(|(i, _)| i + 1).unwrap_or(0);
    let (header, _) = tok.split_at(cut);
    let Ok((mut payload, footer)) = crate::refmodel::disassemble(header, tok) else { return flip_last(tok) };
    let n = payload.len();
    let t = tail.min(n);
    match variant % 4 {
        0 => return flip_last(tok),
        1 => payload[n - t..].fill(0),
        2 => payload[n - t..n - t / 2].fill(0),
        _ => payload.truncate(n.saturating_sub(10)),
    }
    let out = crate::refmodel::assemble(header, &payload, &footer);
    if out == tok { flip_last(tok) } else { out }
}

fn mk_expect<B: Backend>(key: &KeySeed) -> Result<Expect, String> {
    let s = mk_shared::<B>(key);
    let msgs: Vec<Vec<u8>> = (0..4u64).map(|i| crate::rng::det_bytes(hash_of(key), 0x17 + i, 10 + 30 * i as usize)).collect();
    let e = |x: PasetoError| format!("{x}");
    let mut signed = Vec::new();
    let mut encrypted = Vec::new();
    for (i, m) in msgs.iter().enumerate() {
        let aad: &[u8] = if B::VER.has_assertion() && i % 2 == 1 { b"aad" } else { b"" };
        signed.push(UnsealedToken::<V<B>, Public, Raw>::new(Raw(m.clone())).with_footer(vec![i as u8; i]).seal(&s.sk, aad).map_err(e)?.to_string());
        encrypted.push(UnsealedToken::<V<B>, Local, Raw>::new(Raw(m.clone())).with_footer(vec![i as u8; i]).seal(&s.lk, aad).map_err(e)?.to_string());
    }
    let sealed = s.lk.clone().seal(&s.pke_pk).map_err(e)?.to_string();
    let pw = s.lk.clone().password_wrap_with_params(b"hunter2", &pw_params::<B>(&cheapest_params(B::VER))).map_err(e)?.to_string();
    // the same blob with the cost field changed to another cheap valid value (iterations 1 -> 2, passes 1 -> 2)
    let pw_tampered = {
        let cut = pw.rfind('.').map(|i| i + 1).unwrap_or(0);
        let mut blob = crate::util::b64_decode(&pw[cut..]).unwrap_or_default();
        let sl = crate::refmodel::pbkw_salt_len(B::VER);
        if B::VER.nist() {
            if blob.len() > sl + 3 {
                blob[sl + 3] ^= 3; // 1 -> 2 iterations
            }
        } else if blob.len() > sl + 11 {
            blob[sl + 11] ^= 3; // opslimit 1 -> 2
        }
        format!("{}{}", &pw[..cut], crate::util::b64_encode(&blob))
    };
    Ok(Expect {
        signed_bad: signed.iter().enumerate().map(|(i, t)| corrupt(t, i, B::VER.sig_len())).collect(),
        encrypted_bad: encrypted.iter().enumerate().map(|(i, t)| corrupt(t, i, B::VER.local_tag_len())).collect(),
        signed,
        encrypted,
        pie: s.sk.clone().wrap_pie(&s.wk).map_err(e)?.to_string(),
        pw,
        pw_tampered,
        sealed_bad: flip_last(&sealed),
        sealed,
        lid: s.lk.id().to_string(),
        sid: s.sk.id().to_string(),
        pid: s.pk.id().to_string(),
        pk_text: s.pk.to_string(),
        lk_raw: key_bytes(&s.lk),
        msgs,
    })
}

fn aad_for<B: Backend>(i: usize) -> &'static [u8] {
    if B::VER.has_assertion() && i % 2 == 1 { b"aad" } else { b"" }
}

fn verify_tok<B: Backend>(pk: &PublicKeyOf<B>, tok: &str, i: usize) -> Result<Vec<u8>, PasetoError> {
    let t: SealedToken<V<B>, Public, Raw, Vec<u8>> = tok.parse()?;
    t.unseal(pk, aad_for::<B>(i), &NoValidation::dangerous_no_validation()).map(|u| u.claims.0)
}
fn decrypt_tok<B: Backend>(k: &LocalKeyOf<B>, tok: &str, aad: &[u8]) -> Result<Vec<u8>, PasetoError> {
    let t: SealedToken<V<B>, Local, Raw, Vec<u8>> = tok.parse()?;
    t.unseal(k, aad, &NoValidation::dangerous_no_validation()).map(|u| u.claims.0)
}

/// Execute one op on the shared keys; Err(description) iff the result is not one that
/// sequential use could produce.
fn exec<B: Backend>(s: &Shared<B>, x: &Expect, op: Op) -> Result<(), String> {
    let i4 = |i: u8| (i % 4) as usize;
    match op {
        Op::Sign(i) => {
            let i = i4(i);
            let t = UnsealedToken::<V<B>, Public, Raw>::new(Raw(x.msgs[i].clone())).with_footer(vec![i as u8; i]).seal(&s.sk, aad_for::<B>(i)).map_err(|e| format!("sign failed: {e}"))?.to_string();
            if B::DETERMINISTIC_SIG && t != x.signed[i] {
                return Err("deterministic signature differs from the sequential one".into());
            }
            match verify_tok::<B>(&s.pk, &t, i) {
                Ok(m) if m == x.msgs[i] => Ok(()),
                other => Err(format!("own signature does not verify: {:?}", other.map(|m| m.len()).map_err(|e| err_kind(&e)))),
            }
        }
        Op::Verify(i) => match verify_tok::<B>(&s.pk, &x.signed[i4(i)], i4(i)) {
            Ok(m) if m == x.msgs[i4(i)] => Ok(()),
            other => Err(format!("valid token: {:?}", other.map(|m| m.len()).map_err(|e| err_kind(&e)))),
        },
        Op::VerifyBad(i) => match verify_tok::<B>(&s.pk, &x.signed_bad[i4(i)], i4(i)) {
            Err(_) => Ok(()),
            Ok(_) => Err("corrupted token verified".into()),
        },
        Op::Encrypt(i) => {
            let i = i4(i);
            let t = UnsealedToken::<V<B>, Local, Raw>::new(Raw(x.msgs[i].clone())).seal(&s.lk, aad_for::<B>(i)).map_err(|e| format!("encrypt failed: {e}"))?.to_string();
            match decrypt_tok::<B>(&s.lk, &t, aad_for::<B>(i)) {
                Ok(m) if m == x.msgs[i] => Ok(()),
                other => Err(format!("own ciphertext does not decrypt: {:?}", other.map(|m| m.len()).map_err(|e| err_kind(&e)))),
            }
        }
        Op::Decrypt(i) => match decrypt_tok::<B>(&s.lk, &x.encrypted[i4(i)], aad_for::<B>(i4(i))) {
            Ok(m) if m == x.msgs[i4(i)] => Ok(()),
            other => Err(format!("valid token: {:?}", other.map(|m| m.len()).map_err(|e| err_kind(&e)))),
        },
        Op::DecryptBad(i) => match decrypt_tok::<B>(&s.lk, &x.encrypted_bad[i4(i)], aad_for::<B>(i4(i))) {
            Err(_) => Ok(()),
            Ok(_) => Err("corrupted token decrypted".into()),
        },
        Op::DecryptWrongAssertion(i) => match decrypt_tok::<B>(&s.lk, &x.encrypted[i4(i)], b"another assertion") {
            Err(_) => Ok(()),
            Ok(_) => Err("token decrypted under another assertion".into()),
        },
        Op::WrapPie => {
            let w = s.sk.clone().wrap_pie(&s.wk).map_err(|e| format!("wrap failed: {e}"))?;
            let k = w.unwrap(&s.wk).map_err(|e| format!("unwrap of own wrap failed: {e}"))?;
            if key_bytes(&k) == key_bytes(&s.sk) { Ok(()) } else { Err("wrap/unwrap changed the key".into()) }
        }
        Op::UnwrapPie => {
            let w: PieWrappedKey<V<B>, paseto_core::version::Secret> = x.pie.parse().map_err(|e| format!("{e}"))?;
            let k = w.unwrap(&s.wk).map_err(|e| format!("unwrap failed: {e}"))?;
            if key_bytes(&k) == key_bytes(&s.sk) { Ok(()) } else { Err("unwrapped key differs".into()) }
        }
        Op::UnwrapPieWrongKey => {
            let w: PieWrappedKey<V<B>, paseto_core::version::Secret> = x.pie.parse().map_err(|e| format!("{e}"))?;
            if w.unwrap(&s.wrong_wk).is_err() { Ok(()) } else { Err("unwrapped with the wrong key".into()) }
        }
        Op::UnwrapPw => {
            let w: PasswordWrappedKey<V<B>, Local> = x.pw.parse().map_err(|e| format!("{e}"))?;
            let k = w.unwrap(b"hunter2").map_err(|e| format!("password unwrap failed: {e}"))?;
            if key_bytes(&k) == x.lk_raw { Ok(()) } else { Err("password-unwrapped key differs".into()) }
        }
        Op::UnwrapPwWrongPassword => {
            let w: PasswordWrappedKey<V<B>, Local> = x.pw.parse().map_err(|e| format!("{e}"))?;
            if w.unwrap(b"hunter3").is_err() { Ok(()) } else { Err("unwrapped with the wrong password".into()) }
        }
        Op::UnwrapPwTamperedParams => {
            let w: PasswordWrappedKey<V<B>, Local> = x.pw_tampered.parse().map_err(|e| format!("{e}"))?;
            if w.unwrap(b"hunter2").is_err() { Ok(()) } else { Err("a blob with changed cost parameters unwrapped".into()) }
        }
        Op::SealKey => {
            let sealed = s.lk.clone().seal(&s.pke_pk).map_err(|e| format!("seal failed: {e}"))?;
            let k = sealed.unseal(&s.pke_sk).map_err(|e| format!("unseal of own seal failed: {e}"))?;
            if key_bytes(&k) == x.lk_raw { Ok(()) } else { Err("seal/unseal changed the key".into()) }
        }
        Op::UnsealKey => {
            let w: SealedKey<V<B>> = x.sealed.parse().map_err(|e| format!("{e}"))?;
            let k = w.unseal(&s.pke_sk).map_err(|e| format!("unseal failed: {e}"))?;
            if key_bytes(&k) == x.lk_raw { Ok(()) } else { Err("unsealed key differs".into()) }
        }
        Op::UnsealKeyBad => {
            let w: SealedKey<V<B>> = x.sealed_bad.parse().map_err(|e| format!("{e}"))?;
            if w.unseal(&s.pke_sk).is_err() { Ok(()) } else { Err("corrupted sealed key unsealed".into()) }
        }
        Op::Id => {
            if s.lk.id().to_string() == x.lid && s.sk.id().to_string() == x.sid && s.pk.id().to_string() == x.pid { Ok(()) } else { Err("key id differs from the sequential one".into()) }
        }
        Op::Display => {
            if s.pk.to_string() == x.pk_text && key_bytes(&s.lk) == x.lk_raw { Ok(()) } else { Err("serialisation differs from the sequential one".into()) }
        }
        Op::CloneUse => {
            let sk2 = s.sk.clone();
            let pk2 = s.pk.clone();
            let t = UnsealedToken::<V<B>, Public, Raw>::new(Raw(x.msgs[0].clone())).seal(&sk2, &[]).map_err(|e| format!("clone sign failed: {e}"))?.to_string();
            let t2: SealedToken<V<B>, Public, Raw, Vec<u8>> = t.parse().map_err(|e| format!("{e}"))?;
            let r = t2.unseal(&pk2, &[], &NoValidation::dangerous_no_validation()).map(|u| u.claims.0);
            drop(sk2);
            drop(pk2);
            match r {
                Ok(m) if m == x.msgs[0] => Ok(()),
                _ => Err("token signed by a clone does not verify under a cloned public key".into()),
            }
        }
        Op::CloneDrop => {
            let a = s.sk.clone();
            let b = s.pk.clone();
            let c = s.pke_sk.clone();
            let d = a.clone();
            drop(a);
            drop(c);
            let ok = key_bytes(&d) == key_bytes(&s.sk) && key_bytes(&b) == key_bytes(&s.pk);
            drop(b);
            drop(d);
            if ok { Ok(()) } else { Err("clone of a clone encodes differently".into()) }
        }
        Op::PublicKey => {
            if key_bytes(&s.sk.public_key()) == key_bytes(&s.pk) { Ok(()) } else { Err("public_key() differs".into()) }
        }
        Op::Yield => {
            std::thread::yield_now();
            Ok(())
        }
        Op::Spin(n) => {
            for _ in 0..(n as u32 * 50) {
                std::hint::spin_loop();
            }
            Ok(())
        }
    }
}

const PROBES: [Op; 12] = [Op::Sign(0), Op::Verify(1), Op::Encrypt(2), Op::Decrypt(3), Op::UnwrapPie, Op::UnwrapPw, Op::Id, Op::Display, Op::PublicKey, Op::CloneUse, Op::VerifyBad(0), Op::DecryptBad(1)];

fn run_plan<B: Backend>(p: &Plan, acc: &mut Acc) -> R {
    let name = B::NAME;
    crate::rng::reseed_case(hash_of(p));
    let expect = Arc::new(mk_expect::<B>(&p.key).map_err(|e| Fail::new(format!("C17/{name}/setup"), e))?);
    let shared = Arc::new(mk_shared::<B>(&p.key));
    let n = p.threads.len();
    let barrier = Arc::new(Barrier::new(n));
    let mut handles = Vec::new();
    for (ti, ops) in p.threads.iter().enumerate() {
        let (sh, ex, ba, ops) = (shared.clone(), expect.clone(), barrier.clone(), ops.clone());
        handles.push(std::thread::spawn(move || -> Vec<String> {
            crate::rng::set_passthrough();
            ba.wait();
            let mut bad = Vec::new();
            for (oi, op) in ops.iter().enumerate() {
                match crate::util::catch(|| exec::<B>(&sh, &ex, *op)) {
                    Ok(Ok(())) => {}
                    Ok(Err(e)) => bad.push(format!("thread {ti} op {oi} {op:?}: {e}")),
                    Err(loc) => bad.push(format!("thread {ti} op {oi} {op:?}: PANIC at {loc}")),
                }
            }
            bad
        }));
    }
    let mut bad = Vec::new();
    for h in handles {
        match h.join() {
            Ok(b) => bad.extend(b),
            Err(_) => bad.push("a worker thread died".into()),
        }
    }
    if let Some(first) = bad.first() {
        let class = if first.contains("PANIC") {
            "panic"
        } else if n == 1 {
            "sequential-history-result-differs"
        } else {
            "concurrent-result-differs"
        };
        return Err(Fail::new(format!("C17/{name}/{class}"), format!("{} operation(s) gave a result sequential use cannot produce; first: {first}", bad.len())));
    }
    // after the history the shared keys behave like freshly parsed ones
    for op in PROBES {
        if let Err(e) = exec::<B>(&shared, &expect, op) {
            return Err(Fail::new(format!("C17/{name}/key-altered-by-history"), format!("after the plan, probe {op:?} on the shared key: {e}")));
        }
    }
    let ops_total: usize = p.threads.iter().map(|t| t.len()).sum();
    acc.evals_n(ops_total as u64);
    let overlap_clone = p.threads.iter().filter(|t| t.iter().any(|o| matches!(o, Op::CloneUse | Op::CloneDrop))).count() >= 1;
    let failing = p.threads.iter().flatten().any(|o| matches!(o, Op::VerifyBad(_) | Op::DecryptBad(_) | Op::UnwrapPieWrongKey | Op::UnwrapPwWrongPassword | Op::UnwrapPwTamperedParams | Op::UnsealKeyBad | Op::DecryptWrongAssertion(_)));
    if (n >= 2 && overlap_clone) || (n == 1 && failing) {
        acc.nt(hash_of(p));
    }
    acc.class(&format!("threads:{}", if n == 1 { "1".to_string() } else if n <= 4 { "2-4".into() } else if n <= 8 { "5-8".into() } else { "9-16".into() }));
    if failing {
        acc.class("plan:has-failing-operations");
    }
    acc.sample(|| json!({"backend": name, "threads": n, "ops_per_thread": p.threads.iter().map(|t| t.len()).collect::<Vec<_>>(), "first_thread": p.threads[0].iter().take(8).map(|o| format!("{o:?}")).collect::<Vec<_>>()}));
    println!("PROGRESS plan {} threads {} ops", n, ops_total);
    Ok(())
}

fn subs_for<B: Backend>(out: &mut Vec<SubCheck>) {
    let (cases, max_ops) = match B::NAME {
        "paseto-v1" => ((80, 800), 16),
        "paseto-v3" => ((100, 1000), 20),
        "paseto-v3-aws-lc" => ((300, 3000), 40),
        _ => ((500, 5000), 40),
    };
    out.push(SubCheck::prop(format!("c17.plans/{}", B::NAME), 10, cases, move |_t| plan_strategy::<B>(max_ops), run_plan::<B>).isolated());
}

pub fn def() -> PropertyDef {
    let mut subs = Vec::new();
    crate::for_backends!(B => subs_for::<B>(&mut subs));
    PropertyDef {
        id: "C17",
        level: "exploration",
        rule: "proptest plans: 1..16 real threads x up to 40 operations each over {sign, verify, encrypt, decrypt, PIE wrap/unwrap, password unwrap, key seal/unseal, id, display, public_key, clone-and-use, clone-and-drop, failing variants (corrupted tokens: flipped character / zeroed tag or signature (r = s = 0) / zeroed first half (r = 0) / truncated; wrong assertion, wrong wrapping key, wrong password, right password on a blob with changed cost parameters, corrupted sealed key), yield / spin points} on ONE shared key set started on a barrier; oracle = sequential model: deterministic operations return exactly the value precomputed on a separate copy of the keys, randomised ones verify / decrypt to the original, failing ones fail, nothing panics; after every plan a fixed probe set on the shared keys gives the sequential results (failed operations must not alter a key). Each back end runs in its own child process: a crash (SIGSEGV / SIGABRT / double free) is reported as a violation. Non-trivial iff >= 2 threads with a clone/drop overlapping uses, or a single-thread history containing failing operations",
        assumptions: vec![
            "the OS scheduler chooses the interleavings (stress exploration, not schedule enumeration); aws-lc and libsodium are not instrumented, so C-side data races are visible only through wrong results or crashes",
        ],
        subs,
    }
}
