//! C17 — shared keys behave the same under concurrent use and after failed operations.
//! Plans of operations run on real threads against ONE shared key set; the oracle is a
//! sequential model (results precomputed on a fresh copy of the keys).  Runs in a child
//! process so that a crash is observed as a violation.

use std::sync::{Arc, Barrier};

use paseto_core::PasetoError;
use paseto_core::paserk::{PasswordWrappedKey, PieWrappedKey, SealedKey};
use paseto_core::tokens::{SealedToken, UnsealedToken};
use paseto_core::validation::NoValidation;
use paseto_core::version::{Local, Public};
use proptest::prelude::*;
use serde::{Deserialize, Serialize};
use serde_json::json;

use crate::backends::*;
use crate::engine::*;
use crate::gens;
use crate::refmodel::Ver;

#[derive(Clone, Copy, Debug, Serialize, Deserialize, PartialEq, Eq, Hash)]
pub enum Op {
    Sign(u8),
    Verify(u8),
    VerifyBad(u8),
    Encrypt(u8),
    Decrypt(u8),
    DecryptBad(u8),
    DecryptWrongAssertion(u8),
    WrapPie,
    UnwrapPie,
    UnwrapPieWrongKey,
    UnwrapPwWrongPassword,
    /// the right password on a copy of the blob whose cost parameters were changed to other valid ones
    UnwrapPwTamperedParams,
    /// the right password on a copy of the blob whose cost parameters are ones the KDF refuses
    /// (variant: memory not a KiB multiple / zero passes / zero lanes / zero memory / 2^63 bytes / zero or other iterations)
    UnwrapPwInvalidParams(u8),
    UnwrapPw,
    SealKey,
    UnsealKey,
    UnsealKeyBad,
    Id,
    Display,
    CloneUse,
    CloneDrop,
    /// clones of the keys are put into a thread-local of the caller and dropped when the thread exits
    /// (after the library's own thread-locals, which were created later, are gone)
    CloneKeepUntilThreadExit,
    PublicKey,
    Yield,
    Spin(u8),
}

#[derive(Clone, Debug, Serialize, Deserialize, PartialEq, Eq, Hash)]
pub struct Plan {
    pub key: KeySeed,
    pub threads: Vec<Vec<Op>>,
    /// failing operations that ran in this process before the plan (filled in only in a reported
    /// case, so that its replay starts from the same history; generated plans leave it empty)
    #[serde(default)]
    pub prior: Vec<Op>,
}

fn op_strategy(heavy_ok: bool) -> impl Strategy<Value = Op> {
    prop_oneof![
        6 => (0u8..4).prop_map(Op::Sign),
        6 => (0u8..4).prop_map(Op::Verify),
        3 => (0u8..4).prop_map(Op::VerifyBad),
        8 => (0u8..4).prop_map(Op::Encrypt),
        5 => (0u8..4).prop_map(Op::Decrypt),
        3 => (0u8..4).prop_map(Op::DecryptBad),
        1 => (0u8..4).prop_map(Op::DecryptWrongAssertion),
        2 => Just(Op::WrapPie),
        2 => Just(Op::UnwrapPie),
        2 => Just(Op::UnwrapPieWrongKey),
        1 => Just(Op::UnwrapPw),
        2 => Just(Op::UnwrapPwWrongPassword),
        2 => Just(Op::UnwrapPwTamperedParams),
        3 => (0u8..6).prop_map(Op::UnwrapPwInvalidParams),
        1 => Just(Op::SealKey),
        1 => Just(Op::UnsealKey),
        1 => Just(Op::UnsealKeyBad),
        3 => Just(Op::Id),
        3 => Just(Op::Display),
        5 => Just(Op::CloneUse),
        5 => Just(Op::CloneDrop),
        2 => Just(Op::CloneKeepUntilThreadExit),
        3 => Just(Op::PublicKey),
        2 => Just(Op::Yield),
        2 => (1u8..40).prop_map(Op::Spin),
    ]
    // RSA-4096 key sealing costs ~15 ms per operation: not in v1 plans
    .prop_map(move |o| if !heavy_ok && matches!(o, Op::SealKey | Op::UnsealKey | Op::UnsealKeyBad) { Op::Yield } else { o })
}

fn plan_strategy<B: Backend>(max_ops: usize) -> impl Strategy<Value = Plan> {
    let heavy_ok = B::VER != Ver::V1;
    let mixed = (gens::key_seed(), prop_oneof![2 => 1usize..=1, 8 => 2usize..=16].prop_flat_map(move |n| proptest::collection::vec(proptest::collection::vec(op_strategy(heavy_ok), 1..max_ops), n..=n))).prop_map(|(key, threads)| Plan { key, threads, prior: Vec::new() });
    // bursts: every thread hammers ONE kind of operation (with a second kind sprinkled in), so that
    // the threads are inside the same library code at the same time for the whole plan
    let burst = (gens::key_seed(), 4usize..=16, op_strategy(heavy_ok), op_strategy(heavy_ok), 0u8..8).prop_map(move |(key, n, main, other, every)| {
        let len = max_ops.max(8);
        let threads = (0..n).map(|t| (0..len).map(|i| if every > 0 && (i + t) % (every as usize + 3) == 0 { other } else { main }).collect()).collect();
        Plan { key, threads, prior: Vec::new() }
    });
    prop_oneof![5 => mixed, 1 => burst]
}

struct Shared<B: Backend> {
    lk: LocalKeyOf<B>,
    sk: SecretKeyOf<B>,
    pk: PublicKeyOf<B>,
    wk: LocalKeyOf<B>,
    wrong_wk: LocalKeyOf<B>,
    pke_sk: PkeSecretOf<B>,
    pke_pk: PkePublicOf<B>,
}

/// Expected results, precomputed sequentially on a *separate* copy of the keys.
struct Expect {
    msgs: Vec<Vec<u8>>,
    signed: Vec<String>,
    signed_bad: Vec<String>,
    encrypted: Vec<String>,
    encrypted_bad: Vec<String>,
    pie: String,
    pw: String,
    pw_tampered: String,
    pw_invalid: Vec<String>,
    sealed: String,
    sealed_bad: String,
    lid: String,
    sid: String,
    pid: String,
    pk_text: String,
    lk_raw: Vec<u8>,
}

fn mk_shared<B: Backend>(key: &KeySeed) -> Shared<B> {
    let sk = secret_key::<B>(key);
    let (pke_sk, pke_pk, _, _) = pke_pair::<B>(key);
    Shared {
        lk: local_key::<B>(key),
        pk: sk.public_key(),
        sk,
        wk: local_key::<B>(&KeySeed::from_u64(hash_of(key) ^ 1)),
        wrong_wk: local_key::<B>(&KeySeed::from_u64(hash_of(key) ^ 2)),
        pke_sk,
        pke_pk,
    }
}

fn flip_last(s: &str) -> String {
    let mut v: Vec<char> = s.chars().collect();
    let n = v.len();
    // change a character well inside the last segment (keeps the base64 tail canonical)
    let i = n - 6;
    v[i] = if v[i] == 'A' { 'B' } else { 'A' };
    v.into_iter().collect()
}

/// Failing tokens of different shapes (variant 0..3): a flipped character, the tag / signature
/// zeroed (degenerate r = s = 0), its first half zeroed (r = 0), the token truncated by ten bytes.
fn corrupt(tok: &str, variant: usize, tail: usize) -> String {
    let cut = tok.match_indices('.').nth(1).map(|(i, _)| i + 1).unwrap_or(0);
    let (header, _) = tok.split_at(cut);
    let Ok((mut payload, footer)) = crate::refmodel::disassemble(header, tok) else { return flip_last(tok) };
    let n = payload.len();
    let t = tail.min(n);
    match variant % 4 {
        0 => return flip_last(tok),
        1 => payload[n - t..].fill(0),
        2 => payload[n - t..n - t / 2].fill(0),
        _ => payload.truncate(n.saturating_sub(10)),
    }
    let out = crate::refmodel::assemble(header, &payload, &footer);
    if out == tok { flip_last(tok) } else { out }
}

fn mk_expect<B: Backend>(key: &KeySeed) -> Result<Expect, String> {
    let s = mk_shared::<B>(key);
    let msgs: Vec<Vec<u8>> = (0..4u64).map(|i| crate::rng::det_bytes(hash_of(key), 0x17 + i, 10 + 30 * i as usize)).collect();
    let e = |x: PasetoError| format!("{x}");
    let mut signed = Vec::new();
    let mut encrypted = Vec::new();
    for (i, m) in msgs.iter().enumerate() {
        let aad: &[u8] = if B::VER.has_assertion() && i % 2 == 1 { b"aad" } else { b"" };
        signed.push(UnsealedToken::<V<B>, Public, Raw>::new(Raw(m.clone())).with_footer(vec![i as u8; i]).seal(&s.sk, aad).map_err(e)?.to_string());
        encrypted.push(UnsealedToken::<V<B>, Local, Raw>::new(Raw(m.clone())).with_footer(vec![i as u8; i]).seal(&s.lk, aad).map_err(e)?.to_string());
    }
    let sealed = s.lk.clone().seal(&s.pke_pk).map_err(e)?.to_string();
    let pw = s.lk.clone().password_wrap_with_params(b"hunter2", &pw_params::<B>(&cheapest_params(B::VER))).map_err(e)?.to_string();
    // the same blob with the cost field changed to another cheap valid value (iterations 1 -> 2, passes 1 -> 2)
    let pw_tampered = {
        let cut = pw.rfind('.').map(|i| i + 1).unwrap_or(0);
        let mut blob = crate::util::b64_decode(&pw[cut..]).unwrap_or_default();
        let sl = crate::refmodel::pbkw_salt_len(B::VER);
        if B::VER.nist() {
            if blob.len() > sl + 3 {
                blob[sl + 3] ^= 3; // 1 -> 2 iterations
            }
        } else if blob.len() > sl + 11 {
            blob[sl + 11] ^= 3; // opslimit 1 -> 2
        }
        format!("{}{}", &pw[..cut], crate::util::b64_encode(&blob))
    };
    // ... and to values the KDF itself refuses
    let pw_invalid: Vec<String> = (0..6u8)
        .map(|variant| {
            let cut = pw.rfind('.').map(|i| i + 1).unwrap_or(0);
            let mut blob = crate::util::b64_decode(&pw[cut..]).unwrap_or_default();
            let sl = crate::refmodel::pbkw_salt_len(B::VER);
            if B::VER.nist() {
                // salt | iterations u32
                if blob.len() > sl + 4 {
                    let it: u32 = match variant % 3 {
                        0 => 0,
                        1 => 3,
                        _ => 1, // (unchanged cost; the nonce is changed instead)
                    };
                    blob[sl..sl + 4].copy_from_slice(&it.to_be_bytes());
                    if variant % 3 == 2 {
                        blob[sl + 4] ^= 1;
                    }
                }
            } else if blob.len() > sl + 16 {
                // salt | mem u64 | time u32 | para u32
                match variant % 6 {
                    0 => blob[sl + 7] ^= 1,                                             // memory not a multiple of 1024
                    1 => blob[sl + 8..sl + 12].fill(0),                                  // zero passes
                    2 => blob[sl + 12..sl + 16].fill(0),                                 // zero lanes
                    3 => blob[sl..sl + 8].fill(0),                                       // zero memory
                    4 => blob[sl..sl + 8].copy_from_slice(&(1u64 << 63).to_be_bytes()), // more KiB than fit u32
                    _ => blob[sl + 12..sl + 16].copy_from_slice(&2u32.to_be_bytes()),    // two lanes
                }
            }
            format!("{}{}", &pw[..cut], crate::util::b64_encode(&blob))
        })
        .collect();
    Ok(Expect {
        signed_bad: signed.iter().enumerate().map(|(i, t)| corrupt(t, i, B::VER.sig_len())).collect(),
        encrypted_bad: encrypted.iter().enumerate().map(|(i, t)| corrupt(t, i, B::VER.local_tag_len())).collect(),
        signed,
        encrypted,
        pie: s.sk.clone().wrap_pie(&s.wk).map_err(e)?.to_string(),
        pw,
        pw_tampered,
        pw_invalid,
        sealed_bad: flip_last(&sealed),
        sealed,
        lid: s.lk.id().to_string(),
        sid: s.sk.id().to_string(),
        pid: s.pk.id().to_string(),
        pk_text: s.pk.to_string(),
        lk_raw: key_bytes(&s.lk),
        msgs,
    })
}

fn aad_for<B: Backend>(i: usize) -> &'static [u8] {
    if B::VER.has_assertion() && i % 2 == 1 { b"aad" } else { b"" }
}

fn verify_tok<B: Backend>(pk: &PublicKeyOf<B>, tok: &str, i: usize) -> Result<Vec<u8>, PasetoError> {
    let t: SealedToken<V<B>, Public, Raw, Vec<u8>> = tok.parse()?;
    t.unseal(pk, aad_for::<B>(i), &NoValidation::dangerous_no_validation()).map(|u| u.claims.0)
}
fn decrypt_tok<B: Backend>(k: &LocalKeyOf<B>, tok: &str, aad: &[u8]) -> Result<Vec<u8>, PasetoError> {
    let t: SealedToken<V<B>, Local, Raw, Vec<u8>> = tok.parse()?;
    t.unseal(k, aad, &NoValidation::dangerous_no_validation()).map(|u| u.claims.0)
}

/// Execute one op on the shared keys; Err(description) iff the result is not one that
/// sequential use could produce.
fn exec<B: Backend>(s: &Shared<B>, x: &Expect, op: Op) -> Result<(), String> {
    let i4 = |i: u8| (i % 4) as usize;
    match op {
        Op::Sign(i) => {
            let i = i4(i);
            let t = UnsealedToken::<V<B>, Public, Raw>::new(Raw(x.msgs[i].clone())).with_footer(vec![i as u8; i]).seal(&s.sk, aad_for::<B>(i)).map_err(|e| format!("sign failed: {e}"))?.to_string();
            if B::DETERMINISTIC_SIG && t != x.signed[i] {
                return Err("deterministic signature differs from the sequential one".into());
            }
            match verify_tok::<B>(&s.pk, &t, i) {
                Ok(m) if m == x.msgs[i] => Ok(()),
                other => Err(format!("own signature does not verify: {:?}", other.map(|m| m.len()).map_err(|e| err_kind(&e)))),
            }
        }
        Op::Verify(i) => match verify_tok::<B>(&s.pk, &x.signed[i4(i)], i4(i)) {
            Ok(m) if m == x.msgs[i4(i)] => Ok(()),
            other => Err(format!("valid token: {:?}", other.map(|m| m.len()).map_err(|e| err_kind(&e)))),
        },
        Op::VerifyBad(i) => match verify_tok::<B>(&s.pk, &x.signed_bad[i4(i)], i4(i)) {
            Err(_) => Ok(()),
            Ok(_) => Err("corrupted token verified".into()),
        },
        Op::Encrypt(i) => {
            let i = i4(i);
            let t = UnsealedToken::<V<B>, Local, Raw>::new(Raw(x.msgs[i].clone())).seal(&s.lk, aad_for::<B>(i)).map_err(|e| format!("encrypt failed: {e}"))?.to_string();
            // a nonce that repeats, or that contains an all-zero 64-bit word, is not something sequential
            // use produces (2^-256 resp. 2^-62 per token)
            {
                let cut = t.match_indices('.').nth(1).map(|(i, _)| i + 1).unwrap_or(0);
                let body = crate::util::b64_decode(t[cut..].split('.').next().unwrap_or("")).unwrap_or_default();
                let n = B::VER.local_nonce_len().min(body.len());
                let nonce = body[..n].to_vec();
                if nonce.chunks(8).any(|w| w.len() == 8 && w.iter().all(|b| *b == 0)) {
                    return Err(format!("the nonce {} of a token encrypted here contains an all-zero 64-bit word", crate::util::hx(&nonce)));
                }
                if !NONCES.lock().unwrap().insert(nonce.clone()) {
                    return Err(format!("the nonce {} of a token encrypted here was used by an earlier token of this process", crate::util::hx(&nonce)));
                }
            }
            match decrypt_tok::<B>(&s.lk, &t, aad_for::<B>(i)) {
                Ok(m) if m == x.msgs[i] => Ok(()),
                other => Err(format!("own ciphertext does not decrypt: {:?}", other.map(|m| m.len()).map_err(|e| err_kind(&e)))),
            }
        }
        Op::Decrypt(i) => match decrypt_tok::<B>(&s.lk, &x.encrypted[i4(i)], aad_for::<B>(i4(i))) {
            Ok(m) if m == x.msgs[i4(i)] => Ok(()),
            other => Err(format!("valid token: {:?}", other.map(|m| m.len()).map_err(|e| err_kind(&e)))),
        },
        Op::DecryptBad(i) => match decrypt_tok::<B>(&s.lk, &x.encrypted_bad[i4(i)], aad_for::<B>(i4(i))) {
            Err(_) => Ok(()),
            Ok(_) => Err("corrupted token decrypted".into()),
        },
        Op::DecryptWrongAssertion(i) => match decrypt_tok::<B>(&s.lk, &x.encrypted[i4(i)], b"another assertion") {
            Err(_) => Ok(()),
            Ok(_) => Err("token decrypted under another assertion".into()),
        },
        Op::WrapPie => {
            let w = s.sk.clone().wrap_pie(&s.wk).map_err(|e| format!("wrap failed: {e}"))?;
            let k = w.unwrap(&s.wk).map_err(|e| format!("unwrap of own wrap failed: {e}"))?;
            if key_bytes(&k) == key_bytes(&s.sk) { Ok(()) } else { Err("wrap/unwrap changed the key".into()) }
        }
        Op::UnwrapPie => {
            let w: PieWrappedKey<V<B>, paseto_core::version::Secret> = x.pie.parse().map_err(|e| format!("{e}"))?;
            let k = w.unwrap(&s.wk).map_err(|e| format!("unwrap failed: {e}"))?;
            if key_bytes(&k) == key_bytes(&s.sk) { Ok(()) } else { Err("unwrapped key differs".into()) }
        }
        Op::UnwrapPieWrongKey => {
            let w: PieWrappedKey<V<B>, paseto_core::version::Secret> = x.pie.parse().map_err(|e| format!("{e}"))?;
            if w.unwrap(&s.wrong_wk).is_err() { Ok(()) } else { Err("unwrapped with the wrong key".into()) }
        }
        Op::UnwrapPw => {
            let w: PasswordWrappedKey<V<B>, Local> = x.pw.parse().map_err(|e| format!("{e}"))?;
            let k = w.unwrap(b"hunter2").map_err(|e| format!("password unwrap failed: {e}"))?;
            if key_bytes(&k) == x.lk_raw { Ok(()) } else { Err("password-unwrapped key differs".into()) }
        }
        Op::UnwrapPwWrongPassword => {
            let w: PasswordWrappedKey<V<B>, Local> = x.pw.parse().map_err(|e| format!("{e}"))?;
            if w.unwrap(b"hunter3").is_err() { Ok(()) } else { Err("unwrapped with the wrong password".into()) }
        }
        Op::UnwrapPwTamperedParams => {
            let w: PasswordWrappedKey<V<B>, Local> = x.pw_tampered.parse().map_err(|e| format!("{e}"))?;
            if w.unwrap(b"hunter2").is_err() { Ok(()) } else { Err("a blob with changed cost parameters unwrapped".into()) }
        }
        Op::UnwrapPwInvalidParams(v) => {
            let text = &x.pw_invalid[(v as usize) % x.pw_invalid.len()];
            match text.parse::<PasswordWrappedKey<V<B>, Local>>() {
                Err(_) => Ok(()),
                Ok(w) => {
                    if w.unwrap(b"hunter2").is_err() { Ok(()) } else { Err("a blob with refused / changed cost parameters unwrapped".into()) }
                }
            }
        }
        Op::SealKey => {
            let sealed = s.lk.clone().seal(&s.pke_pk).map_err(|e| format!("seal failed: {e}"))?;
            let k = sealed.unseal(&s.pke_sk).map_err(|e| format!("unseal of own seal failed: {e}"))?;
            if key_bytes(&k) == x.lk_raw { Ok(()) } else { Err("seal/unseal changed the key".into()) }
        }
        Op::UnsealKey => {
            let w: SealedKey<V<B>> = x.sealed.parse().map_err(|e| format!("{e}"))?;
            let k = w.unseal(&s.pke_sk).map_err(|e| format!("unseal failed: {e}"))?;
            if key_bytes(&k) == x.lk_raw { Ok(()) } else { Err("unsealed key differs".into()) }
        }
        Op::UnsealKeyBad => {
            let w: SealedKey<V<B>> = x.sealed_bad.parse().map_err(|e| format!("{e}"))?;
            if w.unseal(&s.pke_sk).is_err() { Ok(()) } else { Err("corrupted sealed key unsealed".into()) }
        }
        Op::Id => {
            if s.lk.id().to_string() == x.lid && s.sk.id().to_string() == x.sid && s.pk.id().to_string() == x.pid { Ok(()) } else { Err("key id differs from the sequential one".into()) }
        }
        Op::Display => {
            if s.pk.to_string() == x.pk_text && key_bytes(&s.lk) == x.lk_raw { Ok(()) } else { Err("serialisation differs from the sequential one".into()) }
        }
        Op::CloneUse => {
            let sk2 = s.sk.clone();
            let pk2 = s.pk.clone();
            let t = UnsealedToken::<V<B>, Public, Raw>::new(Raw(x.msgs[0].clone())).seal(&sk2, &[]).map_err(|e| format!("clone sign failed: {e}"))?.to_string();
            let t2: SealedToken<V<B>, Public, Raw, Vec<u8>> = t.parse().map_err(|e| format!("{e}"))?;
            let r = t2.unseal(&pk2, &[], &NoValidation::dangerous_no_validation()).map(|u| u.claims.0);
            drop(sk2);
            drop(pk2);
            match r {
                Ok(m) if m == x.msgs[0] => Ok(()),
                _ => Err("token signed by a clone does not verify under a cloned public key".into()),
            }
        }
        Op::CloneDrop => {
            let a = s.sk.clone();
            let b = s.pk.clone();
            let c = s.pke_sk.clone();
            let d = a.clone();
            drop(a);
            drop(c);
            let ok = key_bytes(&d) == key_bytes(&s.sk) && key_bytes(&b) == key_bytes(&s.pk);
            drop(b);
            drop(d);
            if ok { Ok(()) } else { Err("clone of a clone encodes differently".into()) }
        }
        Op::CloneKeepUntilThreadExit => {
            KEPT.with(|k| {
                let mut k = k.borrow_mut();
                if k.len() < 64 {
                    k.push(Box::new((s.lk.clone(), s.sk.clone(), s.pk.clone(), s.pke_sk.clone(), s.pke_pk.clone())));
                }
            });
            Ok(())
        }
        Op::PublicKey => {
            if key_bytes(&s.sk.public_key()) == key_bytes(&s.pk) { Ok(()) } else { Err("public_key() differs".into()) }
        }
        Op::Yield => {
            std::thread::yield_now();
            Ok(())
        }
        Op::Spin(n) => {
            for _ in 0..(n as u32 * 50) {
                std::hint::spin_loop();
            }
            Ok(())
        }
    }
}

/// nonces of all local tokens encrypted in this process (every plan, every thread)
static NONCES: std::sync::LazyLock<std::sync::Mutex<std::collections::HashSet<Vec<u8>>>> = std::sync::LazyLock::new(|| std::sync::Mutex::new(std::collections::HashSet::new()));

thread_local! {
    /// what a worker thread keeps until it exits; touched FIRST on every worker thread, before any
    /// library call, so that it is destroyed after every thread-local the library creates
    static KEPT: std::cell::RefCell<Vec<Box<dyn std::any::Any>>> = const { std::cell::RefCell::new(Vec::new()) };
}

const PROBES: [Op; 12] = [Op::Sign(0), Op::Verify(1), Op::Encrypt(2), Op::Decrypt(3), Op::UnwrapPie, Op::UnwrapPw, Op::Id, Op::Display, Op::PublicKey, Op::CloneUse, Op::VerifyBad(0), Op::DecryptBad(1)];

fn is_failing(o: &Op) -> bool {
    matches!(o, Op::VerifyBad(_) | Op::DecryptBad(_) | Op::UnwrapPieWrongKey | Op::UnwrapPwWrongPassword | Op::UnwrapPwTamperedParams | Op::UnwrapPwInvalidParams(_) | Op::UnsealKeyBad | Op::DecryptWrongAssertion(_))
}

// --- supervision: an operation that never returns -------------------------------------------
//
// Every thread of a plan publishes what it is executing; the supervising thread watches a global
// progress counter.  If nothing completes for STALL seconds, the threads still inside a library
// call are examined through /proc: a thread that burned CPU for most of the window is spinning, a
// set of threads that all sleep without consuming CPU is blocked.  Either way the same operations
// are then executed on a fresh copy of the keys in a fresh process (the control): only if they
// return there promptly is the non-return attributed to the history (a violation: "operations
// after any history of failures give the same results as on a fresh copy"); everything else -
// a slow machine, a control that stalls too - is reported as inconclusive.

struct Busy {
    tid: u32,
    what: String,
    op: Option<Op>,
}

struct Progress {
    counter: std::sync::atomic::AtomicU64,
    slots: std::sync::Mutex<Vec<Option<Busy>>>,
}

impl Progress {
    fn enter(&self, slot: usize, what: String, op: Option<Op>) {
        let mut g = self.slots.lock().unwrap();
        g[slot] = Some(Busy { tid: my_tid(), what, op });
    }
    fn leave(&self, slot: usize) {
        self.slots.lock().unwrap()[slot] = None;
        self.counter.fetch_add(1, std::sync::atomic::Ordering::SeqCst);
    }
}

use crate::util::{my_tid, thread_cpu};

fn stall_seconds() -> u64 {
    std::env::var("PV_C17_STALL_S").ok().and_then(|s| s.parse().ok()).unwrap_or(30)
}

/// failing operations executed by earlier plans of this process, in order (bounded)
static PRIOR: std::sync::Mutex<Vec<Op>> = std::sync::Mutex::new(Vec::new());

struct Outcome {
    bad: Vec<String>,
    probe: Option<String>,
}

fn plan_body<B: Backend>(p: Plan, prog: Arc<Progress>) -> Result<Outcome, String> {
    crate::rng::set_seeded(hash_of(&p));
    prog.enter(0, "setup: expected results computed on a separate copy of the keys".into(), None);
    let expect = Arc::new(mk_expect::<B>(&p.key)?);
    let shared = Arc::new(mk_shared::<B>(&p.key));
    prog.leave(0);
    for (k, op) in p.prior.iter().enumerate() {
        prog.enter(0, format!("earlier failing operation {k}: {op:?}"), Some(*op));
        let _ = crate::util::catch(|| exec::<B>(&shared, &expect, *op));
        prog.leave(0);
    }
    let n = p.threads.len();
    let barrier = Arc::new(Barrier::new(n));
    let mut handles = Vec::new();
    for (ti, ops) in p.threads.iter().enumerate() {
        let (sh, ex, ba, ops, pr) = (shared.clone(), expect.clone(), barrier.clone(), ops.clone(), prog.clone());
        handles.push(std::thread::spawn(move || -> Vec<String> {
            KEPT.with(|k| k.borrow_mut().clear());
            crate::rng::set_passthrough();
            ba.wait();
            let mut bad = Vec::new();
            for (oi, op) in ops.iter().enumerate() {
                pr.enter(ti + 1, format!("thread {ti} op {oi} {op:?}"), Some(*op));
                match crate::util::catch(|| exec::<B>(&sh, &ex, *op)) {
                    Ok(Ok(())) => {}
                    Ok(Err(e)) => bad.push(format!("thread {ti} op {oi} {op:?}: {e}")),
                    Err(loc) => bad.push(format!("thread {ti} op {oi} {op:?}: PANIC at {loc}")),
                }
                pr.leave(ti + 1);
            }
            bad
        }));
    }
    let mut bad = Vec::new();
    for h in handles {
        match h.join() {
            Ok(b) => bad.extend(b),
            Err(_) => bad.push("a worker thread died".into()),
        }
    }
    let mut probe = None;
    if bad.is_empty() {
        // after the history the shared keys behave like freshly parsed ones
        for op in PROBES {
            prog.enter(0, format!("probe after the plan: {op:?}"), Some(op));
            let r = exec::<B>(&shared, &expect, op);
            prog.leave(0);
            if let Err(e) = r {
                probe = Some(format!("after the plan, probe {op:?} on the shared key: {e}"));
                break;
            }
        }
    }
    Ok(Outcome { bad, probe })
}

/// `pv c17-control <backend>`: the given operations on a fresh copy of the keys in this fresh process.
pub fn control_main(backend: &str, input: &str) -> i32 {
    #[derive(Deserialize)]
    struct In {
        key: KeySeed,
        ops: Vec<Op>,
    }
    let Ok(i) = serde_json::from_str::<In>(input) else { return 2 };
    fn go<B: Backend>(i: &In) -> i32 {
        crate::rng::set_seeded(1);
        let Ok(x) = mk_expect::<B>(&i.key) else { return 2 };
        let s = mk_shared::<B>(&i.key);
        for op in &i.ops {
            if let Ok(Err(e)) = crate::util::catch(|| exec::<B>(&s, &x, *op)) {
                println!("CONTROL-DIFFERS {op:?}: {e}");
            }
        }
        println!("CONTROL-OK");
        0
    }
    let mut rc = 2;
    crate::for_backends!(B => if B::NAME == backend { rc = go::<B>(&i); });
    rc
}

/// Some(elapsed) iff the control returned
fn run_control<B: Backend>(key: &KeySeed, ops: &[Op], limit: std::time::Duration) -> Option<std::time::Duration> {
    use std::io::Write;
    let exe = std::env::current_exe().ok()?;
    let t0 = std::time::Instant::now();
    let mut ch = std::process::Command::new(exe).args(["c17-control", B::NAME]).stdin(std::process::Stdio::piped()).stdout(std::process::Stdio::piped()).stderr(std::process::Stdio::null()).spawn().ok()?;
    ch.stdin.take()?.write_all(json!({"key": key, "ops": ops}).to_string().as_bytes()).ok()?;
    loop {
        match ch.try_wait() {
            Ok(Some(st)) => {
                let mut out = String::new();
                use std::io::Read;
                let _ = ch.stdout.take()?.read_to_string(&mut out);
                return if st.success() && out.contains("CONTROL-OK") { Some(t0.elapsed()) } else { None };
            }
            Ok(None) if t0.elapsed() > limit => {
                let _ = ch.kill();
                let _ = ch.wait();
                return None;
            }
            Ok(None) => std::thread::sleep(std::time::Duration::from_millis(20)),
            Err(_) => return None,
        }
    }
}

/// The plan does not make progress: decide what that is.  Never returns Ok.
fn stalled<B: Backend>(p: &Plan, prog: &Progress, acc: &mut Acc) -> Fail {
    use std::time::{Duration, Instant};
    let name = B::NAME;
    let window = Duration::from_secs(stall_seconds());
    let snapshot = |prog: &Progress| -> Vec<(u32, String, Option<Op>, Option<(u64, char)>)> { prog.slots.lock().unwrap().iter().flatten().map(|b| (b.tid, b.what.clone(), b.op, thread_cpu(b.tid))).collect() };
    let c0 = prog.counter.load(std::sync::atomic::Ordering::SeqCst);
    let before = snapshot(prog);
    let t0 = Instant::now();
    while t0.elapsed() < window {
        std::thread::sleep(Duration::from_millis(200));
        if prog.counter.load(std::sync::atomic::Ordering::SeqCst) != c0 {
            return Fail::new("HARNESS/c17-slow", format!("{name}: a plan made no progress for {}s and then continued: the machine is too slow for a verdict", 2 * window.as_secs()));
        }
    }
    let after = snapshot(prog);
    let wall = t0.elapsed().as_nanos() as u64;
    let mut spinning = Vec::new();
    let mut sleeping = Vec::new();
    let mut unclear = Vec::new();
    for (tid, what, op, cpu1) in &after {
        let cpu0 = before.iter().find(|b| b.0 == *tid && b.1 == *what).and_then(|b| b.3);
        match (cpu0, cpu1) {
            (Some((a, _)), Some((b, st))) => {
                let used = b.saturating_sub(a);
                if used * 5 >= wall {
                    spinning.push((what.clone(), *op, used));
                } else if used * 1000 < wall && matches!(st, 'S' | 'D') {
                    sleeping.push((what.clone(), *op, used));
                } else {
                    unclear.push(what.clone());
                }
            }
            _ => unclear.push(what.clone()),
        }
    }
    let (class, stuck) = if !spinning.is_empty() {
        ("spins-without-returning", spinning)
    } else if !sleeping.is_empty() && unclear.is_empty() {
        ("blocks-without-returning", sleeping)
    } else {
        return Fail::new("HARNESS/c17-stall-unclear", format!("{name}: no progress for {}s but the threads inside library calls are neither spinning nor all asleep: {unclear:?}", 2 * window.as_secs()));
    };
    let ops: Vec<Op> = stuck.iter().filter_map(|s| s.1).collect();
    let limit = window / 2;
    match run_control::<B>(&p.key, &ops, limit) {
        Some(took) => {
            let _ = acc;
            Fail::new(
                format!("C17/{name}/{class}-after-history"),
                format!(
                    "{} operation(s) have not returned for {}s ({}); the same operation(s) on a fresh copy of the keys in a fresh process returned within {:.3}s. Stuck: {}. Failing operations executed in this process before this plan: {}",
                    stuck.len(),
                    2 * window.as_secs(),
                    if class.starts_with("spins") { format!("CPU time consumed by the first of them during the last {}s: {:.1}s", window.as_secs(), stuck[0].2 as f64 / 1e9) } else { "all of them asleep, no CPU time consumed".to_string() },
                    took.as_secs_f64(),
                    stuck.iter().take(4).map(|s| s.0.clone()).collect::<Vec<_>>().join("; "),
                    p.prior.len()
                ),
            )
        }
        None => Fail::new("HARNESS/c17-control-stalled", format!("{name}: no progress for {}s, and the control (the same operations on a fresh copy of the keys in a fresh process) did not return within {}s either", 2 * window.as_secs(), limit.as_secs())),
    }
}

fn run_plan<B: Backend>(p: &Plan, acc: &mut Acc) -> R {
    use std::sync::atomic::Ordering;
    use std::time::{Duration, Instant};
    let name = B::NAME;
    let n = p.threads.len();
    let prog = Arc::new(Progress { counter: std::sync::atomic::AtomicU64::new(0), slots: std::sync::Mutex::new((0..=n).map(|_| None).collect()) });
    let (tx, rx) = std::sync::mpsc::channel();
    {
        let (p2, prog2) = (p.clone(), prog.clone());
        std::thread::spawn(move || {
            let r = crate::util::catch(|| plan_body::<B>(p2, prog2));
            let _ = tx.send(r);
        });
    }
    let window = Duration::from_secs(stall_seconds());
    let mut last = (prog.counter.load(Ordering::SeqCst), Instant::now());
    let outcome = loop {
        match rx.recv_timeout(Duration::from_millis(500)) {
            Ok(r) => break r,
            Err(std::sync::mpsc::RecvTimeoutError::Disconnected) => return Err(Fail::new("HARNESS/c17-runner", "the plan runner vanished")),
            Err(std::sync::mpsc::RecvTimeoutError::Timeout) => {
                let c = prog.counter.load(Ordering::SeqCst);
                if c != last.0 {
                    last = (c, Instant::now());
                } else if last.1.elapsed() >= window {
                    // the process is unusable from here on (threads stuck inside the library): decide,
                    // report, and leave
                    let mut reported = p.clone();
                    if reported.prior.is_empty() {
                        reported.prior = PRIOR.lock().unwrap().clone();
                    }
                    let fail = stalled::<B>(&reported, &prog, acc);
                    if std::env::var_os("PV_CHILD").is_some() {
                        if fail.sig.starts_with("HARNESS/") {
                            acc.harness_errors.push(format!("{}: {}", fail.sig, fail.what));
                        } else {
                            acc.fail(fail, json!({"label": "main", "nondeterministic": false, "input": reported, "note": "not shrunk: the process was unusable after the operation failed to return"}));
                        }
                        println!("ACC {}", serde_json::to_string(&acc.to_wire()).unwrap());
                        std::process::exit(0);
                    }
                    return Err(fail);
                }
            }
        }
    };
    let outcome = match outcome {
        Ok(Ok(o)) => o,
        Ok(Err(e)) => return Err(Fail::new(format!("C17/{name}/setup"), e)),
        Err(loc) => return Err(Fail::new(format!("C17/{name}/panic"), format!("the plan runner panicked at {loc}"))),
    };
    {
        let mut g = PRIOR.lock().unwrap();
        if g.len() < 50_000 {
            g.extend(p.threads.iter().flatten().filter(|o| is_failing(o)).copied());
        }
    }
    if let Some(first) = outcome.bad.first() {
        let class = if first.contains("PANIC") {
            "panic"
        } else if n == 1 {
            "sequential-history-result-differs"
        } else {
            "concurrent-result-differs"
        };
        return Err(Fail::new(format!("C17/{name}/{class}"), format!("{} operation(s) gave a result sequential use cannot produce; first: {first}", outcome.bad.len())));
    }
    if let Some(e) = outcome.probe {
        return Err(Fail::new(format!("C17/{name}/key-altered-by-history"), e));
    }
    let ops_total: usize = p.threads.iter().map(|t| t.len()).sum();
    acc.evals_n(ops_total as u64);
    let overlap_clone = p.threads.iter().filter(|t| t.iter().any(|o| matches!(o, Op::CloneUse | Op::CloneDrop))).count() >= 1;
    let failing = p.threads.iter().flatten().any(is_failing);
    if (n >= 2 && overlap_clone) || (n == 1 && failing) {
        acc.nt(hash_of(p));
    }
    acc.class(&format!("threads:{}", if n == 1 { "1".to_string() } else if n <= 4 { "2-4".into() } else if n <= 8 { "5-8".into() } else { "9-16".into() }));
    if failing {
        acc.class("plan:has-failing-operations");
    }
    acc.sample(|| json!({"backend": name, "threads": n, "ops_per_thread": p.threads.iter().map(|t| t.len()).collect::<Vec<_>>(), "first_thread": p.threads[0].iter().take(8).map(|o| format!("{o:?}")).collect::<Vec<_>>()}));
    println!("PROGRESS plan {} threads {} ops", n, ops_total);
    Ok(())
}

// ---------------------------------------------------------------------------
// bursts of the randomised sealing operations alone: T threads encrypt and PIE-wrap in a tight loop
// with one shared key; every nonce of the process must be distinct and look random.  (State shared
// between calls - pools, caches, counters - shows up here as repeated or partly zero nonces, which no
// sequential use produces, although every single token still decrypts.)

fn nonce_bursts<B: Backend>(acc: &mut Acc) {
    let name = B::NAME;
    let (threads, per_thread) = match (B::VER, acc.tier) {
        (Ver::V1, Tier::Quick) => (8usize, 400usize),
        (Ver::V1, Tier::Thorough) => (16, 3000),
        (_, Tier::Quick) => (8, 4000),
        (_, Tier::Thorough) => (16, 40000),
    };
    let ks = KeySeed::from_u64(mix(acc.seed, 0xb0057));
    let lk = Arc::new(local_key::<B>(&ks));
    let wk = Arc::new(local_key::<B>(&KeySeed::from_u64(mix(acc.seed, 0xb0058))));
    let barrier = Arc::new(Barrier::new(threads));
    let mut handles = Vec::new();
    for t in 0..threads {
        let (lk, wk, ba) = (lk.clone(), wk.clone(), barrier.clone());
        handles.push(std::thread::spawn(move || -> Result<Vec<(u8, Vec<u8>)>, String> {
            crate::rng::set_passthrough();
            ba.wait();
            let mut out = Vec::with_capacity(per_thread);
            let nl = B::VER.local_nonce_len();
            let tl = if B::VER.nist() { 48 } else { 32 };
            for i in 0..per_thread {
                if (i + t) % 4 == 3 {
                    let w = (*lk).clone().wrap_pie(&wk).map_err(|e| format!("wrap_pie failed: {e}"))?.to_string();
                    let b = crate::util::b64_decode(w.rsplit('.').next().unwrap_or("")).unwrap_or_default();
                    out.push((1u8, b.get(tl..tl + 32).unwrap_or_default().to_vec()));
                } else {
                    let tok = UnsealedToken::<V<B>, Local, Raw>::new(Raw(vec![0x42; 24])).seal(&lk, &[]).map_err(|e| format!("encrypt failed: {e}"))?.to_string();
                    let b = crate::util::b64_decode(tok.rsplit('.').next().unwrap_or("")).unwrap_or_default();
                    out.push((0u8, b[..nl.min(b.len())].to_vec()));
                }
            }
            Ok(out)
        }));
    }
    let mut seen: std::collections::HashSet<(u8, Vec<u8>)> = std::collections::HashSet::new();
    let (mut repeats, mut zero_words, mut total) = (0u64, 0u64, 0u64);
    let mut example = String::new();
    for h in handles {
        match h.join() {
            Ok(Ok(v)) => {
                for (kind, n) in v {
                    total += 1;
                    if n.chunks(8).any(|w| w.len() == 8 && w.iter().all(|b| *b == 0)) {
                        zero_words += 1;
                        example = crate::util::hx(&n);
                    }
                    if !seen.insert((kind, n.clone())) {
                        repeats += 1;
                        example = crate::util::hx(&n);
                    }
                }
            }
            Ok(Err(e)) => {
                acc.fail(Fail::new(format!("C17/{name}/nonce-bursts/operation-failed"), e), json!({"backend": name}));
                return;
            }
            Err(_) => {
                acc.fail(Fail::new(format!("C17/{name}/nonce-bursts/panic"), "a worker thread panicked".to_string()), json!({"backend": name}));
                return;
            }
        }
    }
    acc.evals_n(total);
    acc.nt(hash_of(&(name, threads, per_thread)));
    acc.class_n("burst:concurrent-encrypt-and-pie-wrap", total);
    if repeats > 0 || zero_words > 0 {
        acc.fail(
            Fail::new(format!("C17/{name}/nonce-bursts/nonces-not-fresh"), format!("of {total} nonces made by {threads} threads with one shared key, {repeats} repeat an earlier one and {zero_words} contain an all-zero 64-bit word (e.g. {example}); no sequential use of the key produces this")),
            json!({"backend": name, "threads": threads, "per_thread": per_thread}),
        );
    }
    acc.sample(|| json!({"backend": name, "threads": threads, "operations": total, "repeats": repeats}));
}

fn subs_for<B: Backend>(out: &mut Vec<SubCheck>) {
    let (cases, max_ops) = match B::NAME {
        "paseto-v1" => ((80, 800), 16),
        "paseto-v3" => ((100, 1000), 20),
        "paseto-v3-aws-lc" => ((300, 3000), 40),
        _ => ((500, 5000), 40),
    };
    out.push(SubCheck::prop(format!("c17.plans/{}", B::NAME), 10, cases, move |_t| plan_strategy::<B>(max_ops), run_plan::<B>).isolated());
    out.push(SubCheck::custom(format!("c17.nonce-bursts/{}", B::NAME), 3, nonce_bursts::<B>, |_v: &serde_json::Value, acc: &mut Acc| { nonce_bursts::<B>(acc); Ok(()) }).isolated());
}

pub fn def() -> PropertyDef {
    let mut subs = Vec::new();
    crate::for_backends!(B => subs_for::<B>(&mut subs));
    PropertyDef {
        id: "C17",
        level: "exploration",
        rule: "proptest plans: 1..16 real threads x up to 40 operations each over {sign, verify, encrypt, decrypt, PIE wrap/unwrap, password unwrap, key seal/unseal, id, display, public_key, clone-and-use, clone-and-drop, clones kept in a thread-local of the caller until the worker thread exits, failing variants (corrupted tokens: flipped character / zeroed tag or signature (r = s = 0) / zeroed first half (r = 0) / truncated; wrong assertion, wrong wrapping key, wrong password, right password on a blob with changed cost parameters - other valid ones and six kinds the KDF refuses -, corrupted sealed key), yield / spin points} on ONE shared key set started on a barrier (one plan in six is a burst: all threads repeat one kind of operation for the whole plan); oracle = sequential model: deterministic operations return exactly the value precomputed on a separate copy of the keys, randomised ones verify / decrypt to the original and no local token's nonce repeats within the process or contains an all-zero 64-bit word, failing ones fail, nothing panics; after every plan a fixed probe set on the shared keys gives the sequential results (failed operations must not alter a key). Every operation must also RETURN: the plan is supervised, and when nothing completes for 60 s the threads inside library calls are classified through /proc (spinning: >= 20% CPU of the last 30 s; blocked: all asleep with no CPU time); the same operations are then run on a fresh copy of the keys in a fresh process, and only if they return there within 15 s is the non-return reported as a violation (otherwise inconclusive, exit 2). Separately, per back end, 8 (thorough 16) threads encrypt and PIE-wrap in a tight loop with one shared key (4000 / 40000 operations each; v1 400 / 3000): all nonces of the process are distinct and none contains an all-zero 64-bit word. Each back end runs in its own child process: a crash (SIGSEGV / SIGABRT / double free) is reported as a violation. Non-trivial iff >= 2 threads with a clone/drop overlapping uses, or a single-thread history containing failing operations",
        assumptions: vec![
            "the OS scheduler chooses the interleavings (stress exploration, not schedule enumeration); aws-lc and libsodium are not instrumented, so C-side data races are visible only through wrong results or crashes",
        ],
        subs,
    }
}
