//! C01 — seal -> serialise -> parse -> unseal is the identity, for the library's own randomness.

use paseto_core::key::Key;
use paseto_core::tokens::{SealedToken, UnsealedToken};
use paseto_core::validation::NoValidation;
use paseto_core::version::{Local, Public, Purpose, SealingVersion};
use proptest::prelude::*;
use serde::{Deserialize, Serialize};
use serde_json::json;

use crate::backends::*;
use crate::engine::*;
use crate::ensure;
use crate::gens::{self as gen_, BytesSpec};
use crate::refmodel as model;
use crate::rng;

#[derive(Clone, Debug, Serialize, Deserialize)]
pub enum Path {
    /// encrypt()/sign() with the library's own RNG (seeded stream where interceptable)
    Lib,
    /// the library's own RNG path (generic seal) with the draw scripted: 0 = all-zero, 1 = all-ones, 2 = repeated byte pattern
    Scripted(u8),
    /// dangerous_seal_with_nonce with a caller nonce of the version's own length
    Dangerous(u32),
}

#[derive(Clone, Debug, Serialize, Deserialize)]
pub struct Case {
    /// v1 / v3 local: force the derived AES-CTR counter block (paseto_verif hook) for seal and unseal alike
    #[serde(default)]
    pub iv: Option<crate::props::c03::NonceKind>,
    /// entry points: 0 generic seal/unseal, 1 *_with_aad aliases, 2 plain aliases (when the assertion is empty)
    #[serde(default)]
    pub via: (u8, u8),
    /// use the payload type with a non-empty encoding suffix
    #[serde(default)]
    pub suffix: bool,
    pub public: bool,
    pub key_random: bool,
    pub key: KeySeed,
    pub msg: BytesSpec,
    pub footer: BytesSpec,
    pub assertion: BytesSpec,
    pub path: Path,
}

fn strat<B: Backend>(tier: Tier, public: bool) -> impl Strategy<Value = Case> {
    let path = prop_oneof![
        6 => Just(Path::Lib),
        2 => (0u8..3).prop_map(Path::Scripted),
        2 => any::<u32>().prop_map(Path::Dangerous),
    ];
    (
        prop::bool::weighted(0.25),
        gen_::key_seed(),
        gen_::payload(tier),
        gen_::footer(),
        gen_::assertion(B::VER.has_assertion()),
        path,
        prop::bool::weighted(0.3),
        (0u8..3, 0u8..3),
        if B::VER.nist() && !public { prop_oneof![4 => Just(None), 1 => crate::props::c03::nonce_kind().prop_map(Some)].boxed() } else { Just(None).boxed() },
    )
        .prop_map(move |(key_random, key, msg, footer, assertion, path, suffix, via, iv)| Case {
            iv,
            via,
            suffix,
            public,
            key_random: key_random && B::VER != model::Ver::V1, // RSA generation is too slow per case
            key,
            msg,
            footer,
            assertion,
            path,
        })
}

fn roundtrip<B: Backend, P: Aliases<V<B>>, M: BytesPayload>(
    acc: &mut Acc,
    c: &Case,
    sealing: &Key<V<B>, P::SealingKey>,
    unsealing: &Key<V<B>, P>,
) -> R
where
    V<B>: SealingVersion<P>,
{
    let name = B::NAME;
    let purpose = if c.public { "public" } else { "local" };
    let m = c.msg.bytes();
    let f = c.footer.bytes();
    let i = c.assertion.bytes();
    let ver = B::VER;

    let tok = UnsealedToken::<V<B>, P, M>::new(M::from_bytes(m.clone())).with_footer(f.clone());
    let draw_len = if c.public { 0 } else { ver.local_draw_len() };
    let sealed = match &c.path {
        Path::Lib => {
            acc.class(&format!("entry:{}", P::alias_name(c.via.0, i.is_empty(), true)));
            P::seal_via(c.via.0, tok, sealing, &i)
        }
        Path::Scripted(k) if B::GETRANDOM && !c.public => {
            // we do not know how many bytes the library will ask for; script both candidate widths
            let mk = |n: usize| match k {
                0 => vec![0u8; n],
                1 => vec![0xffu8; n],
                _ => (0..n).map(|x| (x as u8).wrapping_mul(37)).collect::<Vec<u8>>(),
            };
            rng::begin_op();
            rng::script(vec![mk(draw_len)]);
            let r = tok.seal(sealing, &i);
            rng::end_op();
            r
        }
        Path::Scripted(_) => {
            acc.class("scripted-not-applicable(lib path used)");
            tok.seal(sealing, &i)
        }
        Path::Dangerous(seed) => {
            let nonce = if c.public { Vec::new() } else { rng::det_bytes(*seed as u64, 0xd, draw_len) };
            tok.dangerous_seal_with_nonce(sealing, &i, nonce)
        }
    };
    let sealed = match sealed {
        Ok(s) => s,
        Err(e) => {
            return Err(Fail::new(
                format!("C01/{name}/{purpose}/seal/err-{}", err_kind(&e)),
                format!("sealing a valid payload failed: {e}"),
            ));
        }
    };
    let s = sealed.to_string();

    // spec length of the payload segment
    let h = token_header::<M>(ver, purpose);
    let (payload, footer_bytes) = model::disassemble(&h, &s)
        .map_err(|e| Fail::new(format!("C01/{name}/{purpose}/display/malformed"), format!("{e}: {s:.80}")))?;
    let expect = if c.public { m.len() + ver.sig_len() } else { ver.local_nonce_len() + m.len() + ver.local_tag_len() };
    ensure!(
        payload.len() == expect,
        format!("C01/{name}/{purpose}/seal/payload-length"),
        "payload segment has {} bytes, the format prescribes {expect} for a {}-byte message",
        payload.len(),
        m.len()
    );
    ensure!(
        footer_bytes == f,
        format!("C01/{name}/{purpose}/display/footer"),
        "serialised footer differs from the one sealed"
    );

    let parsed: SealedToken<V<B>, P, M, Vec<u8>> = s
        .parse()
        .map_err(|e| Fail::new(format!("C01/{name}/{purpose}/parse/err"), format!("own output does not parse: {e}")))?;
    ensure!(
        parsed.unverified_footer() == &f,
        format!("C01/{name}/{purpose}/parse/footer"),
        "parsed footer differs"
    );
    ensure!(
        parsed.to_string() == s,
        format!("C01/{name}/{purpose}/parse/reserialise"),
        "parse -> to_string is not the identity"
    );
    acc.class(&format!("entry:{}", P::alias_name(c.via.1, i.is_empty(), false)));
    let un = P::unseal_via(c.via.1, parsed, unsealing, &i, &NoValidation::dangerous_no_validation()).map_err(|e| {
        Fail::new(
            format!("C01/{name}/{purpose}/unseal/err-{}", err_kind(&e)),
            format!("unsealing own token with the matching key failed: {e}"),
        )
    })?;
    ensure!(
        un.claims.bytes() == &m[..],
        format!("C01/{name}/{purpose}/unseal/claims-differ"),
        "claims differ: got {} bytes {}, sealed {} bytes {}",
        un.claims.bytes().len(),
        crate::util::hx(un.claims.bytes()),
        m.len(),
        crate::util::hx(&m)
    );
    ensure!(un.footer == f, format!("C01/{name}/{purpose}/unseal/footer-differ"), "footer differs after unseal");

    // the in-memory sealed token (not re-parsed) must unseal as well
    let un2 = sealed.unseal(unsealing, &i, &NoValidation::dangerous_no_validation()).map_err(|e| {
        Fail::new(format!("C01/{name}/{purpose}/unseal-direct/err-{}", err_kind(&e)), format!("{e}"))
    })?;
    ensure!(un2.claims.bytes() == &m[..], format!("C01/{name}/{purpose}/unseal-direct/claims-differ"), "claims differ");

    acc.eval();
    let block = if ver.nist() { 16 } else { 64 };
    let nontrivial = m.len() > block || !f.is_empty() || !i.is_empty() || !c.key_random;
    if nontrivial {
        acc.nt(hash_of(&(c.public, &c.key, &c.msg, &c.footer, &c.assertion, format!("{:?}", c.path))));
    }
    acc.class(match m.len() {
        0 => "msg:empty",
        1..=16 => "msg:<=16",
        17..=300 => "msg:17..300",
        301..=4100 => "msg:301..4100",
        _ => "msg:>4100",
    });
    acc.class(if f.is_empty() { "footer:none" } else { "footer:some" });
    acc.class(if i.is_empty() { "assertion:none" } else { "assertion:some" });
    acc.class(match c.path {
        Path::Lib => "path:lib-rng",
        Path::Scripted(_) => "path:scripted-draw",
        Path::Dangerous(_) => "path:caller-nonce",
    });
    acc.class(if c.key_random { "key:random()" } else { "key:parsed" });
    acc.class(if M::SUFFIX.is_empty() { "encoding-suffix:none" } else { "encoding-suffix:non-empty" });
    acc.sample(|| json!({"backend": name, "purpose": purpose, "msg_len": m.len(), "footer": crate::util::hx(&f), "assertion_len": i.len(), "path": format!("{:?}", c.path), "token_prefix": s.chars().take(60).collect::<String>()}));
    Ok(())
}

pub fn run_case<B: Backend>(c: &Case, acc: &mut Acc) -> R {
    rng::reseed_case(hash_of(&(&c.key, &c.msg, &c.footer)));
    let _g = c.iv.as_ref().filter(|_| B::VER.nist() && !c.public).map(|k| {
        acc.class(if k.is_wrap() { "forced-counter-block:carry" } else { "forced-counter-block:other" });
        crate::props::c03::IvGuard::<B>::new(k.bytes(16).try_into().unwrap())
    });
    if c.public {
        let sk: SecretKeyOf<B> = if c.key_random {
            SecretKeyOf::<B>::random().map_err(|e| Fail::new(format!("C01/{}/public/random-key", B::NAME), format!("{e}")))?
        } else {
            secret_key::<B>(&c.key)
        };
        let pk = sk.public_key();
        if c.suffix { roundtrip::<B, Public, RawS>(acc, c, &sk, &pk) } else { roundtrip::<B, Public, Raw>(acc, c, &sk, &pk) }
    } else {
        let k: LocalKeyOf<B> = if c.key_random {
            LocalKeyOf::<B>::random().map_err(|e| Fail::new(format!("C01/{}/local/random-key", B::NAME), format!("{e}")))?
        } else {
            local_key::<B>(&c.key)
        };
        if c.suffix { roundtrip::<B, Local, RawS>(acc, c, &k, &k) } else { roundtrip::<B, Local, Raw>(acc, c, &k, &k) }
    }
}

fn subs_for<B: Backend>(out: &mut Vec<SubCheck>) {
    for public in [false, true] {
        let p = if public { "public" } else { "local" };
        // randomised signers need volume to reach the rare signature shapes (short r/s, leading zero)
        let cases: (u32, u32) = match (B::NAME, public) {
            ("paseto-v1", true) => (400, 4000),
            ("paseto-v3-aws-lc", true) => (4000, 40000),
            ("paseto-v3", true) => (1500, 15000),
            _ => (1500, 30000),
        };
        out.push(SubCheck::prop(
            format!("c01.roundtrip/{}/{p}", B::NAME),
            if public { 10 } else { 3 },
            cases,
            move |tier| strat::<B>(tier, public),
            |c: &Case, acc: &mut Acc| run_case::<B>(c, acc),
        ));
    }
}


// ---------------------------------------------------------------------------
// other payload / footer types of the public API: Json<T>, RegisteredClaims, (), Json footers

#[derive(Clone, Debug, Serialize, Deserialize)]
pub struct TypedCase {
    pub public: bool,
    pub key: KeySeed,
    /// 0: Json<Value> payload + () footer, 1: Json<Value> payload + Json<Value> footer,
    /// 2: RegisteredClaims payload + Json<struct> footer, 3: Json<Value> payload + Vec<u8> footer,
    /// 4: Json<HashMap> payload + Json<HashMap> footer (non-deterministic member order)
    pub shape: u8,
    pub text: String,
    pub n: i64,
    pub assertion: BytesSpec,
}

/// an application's claims: the registered ones embedded with #[serde(flatten)] next to its own
#[derive(Clone, Serialize, Deserialize)]
struct Session {
    #[serde(flatten)]
    registered: paseto_json::RegisteredClaims,
    role: String,
    n: i64,
}

/// every kind of value serde's data model has and JSON can carry without loss: integers of all widths
/// (128-bit ones beyond the 64-bit range included), bool, char, Option, tuples, sequences, enums
/// with and without data, nested maps
#[derive(Clone, Debug, Serialize, Deserialize, PartialEq)]
struct Wide {
    id: u128,
    neg: i128,
    u: u64,
    i: i64,
    small: i8,
    flag: bool,
    ch: char,
    opt: Option<u128>,
    none: Option<String>,
    pair: (u8, String),
    list: Vec<u128>,
    bytes: Vec<u8>,
    kind: WideKind,
    tagged: WideKind,
    unit: (),
    map: std::collections::BTreeMap<String, i128>,
}
#[derive(Clone, Debug, Serialize, Deserialize, PartialEq)]
enum WideKind {
    Plain,
    Tuple(u64, i64),
    Struct { a: u128, b: Option<bool> },
}
fn wide(text: &str, n: i64) -> Wide {
    let big = ((n as u64 as u128) << 64) | 0x8000_0000_0000_0001;
    Wide {
        id: if n % 3 == 0 { u128::MAX } else if n % 3 == 1 { u64::MAX as u128 + 1 } else { big },
        neg: if n % 2 == 0 { i128::MIN } else { i64::MIN as i128 - 1 - (n as i128).abs() },
        u: u64::MAX - (n as u64 % 3),
        i: n,
        small: (n % 128) as i8,
        flag: n % 2 == 0,
        ch: text.chars().next().unwrap_or('\u{10FFFF}'),
        opt: if n % 5 == 0 { None } else { Some(big) },
        none: None,
        pair: ((n % 256) as u8, text.chars().take(20).collect()),
        list: vec![0, 1, u64::MAX as u128, u64::MAX as u128 + 1, big, u128::MAX],
        bytes: text.bytes().take(40).collect(),
        kind: WideKind::Plain,
        tagged: if n % 2 == 0 { WideKind::Tuple(n as u64, n) } else { WideKind::Struct { a: big, b: if n % 4 == 1 { None } else { Some(true) } } },
        unit: (),
        map: [("min".to_string(), i128::MIN), ("max".to_string(), i128::MAX), (text.chars().take(12).collect(), n as i128)].into_iter().collect(),
    }
}

#[derive(Clone, Debug, Serialize, Deserialize, PartialEq)]
struct Kid {
    kid: String,
    n: i64,
}

fn typed_roundtrip<B: Backend, P: Purpose, M, F>(c: &TypedCase, sealing: &Key<V<B>, P::SealingKey>, unsealing: &Key<V<B>, P>, m: impl Fn() -> M, f: impl Fn() -> F, same: impl Fn(&M, &F) -> bool) -> R
where
    V<B>: SealingVersion<P>,
    M: paseto_core::encodings::Payload,
    F: paseto_core::encodings::Footer,
{
    let name = B::NAME;
    let purpose = if c.public { "public" } else { "local" };
    let i = c.assertion.bytes();
    let sealed = UnsealedToken::<V<B>, P, M>::new(m())
        .with_footer(f())
        .seal(sealing, &i)
        .map_err(|e| Fail::new(format!("C01/{name}/{purpose}/typed/seal/err-{}", err_kind(&e)), format!("{e}")))?;
    let s = sealed.to_string();
    let parsed: SealedToken<V<B>, P, M, F> = s.parse().map_err(|e| Fail::new(format!("C01/{name}/{purpose}/typed/parse"), format!("own output does not parse: {e} ({s:.60})")))?;
    ensure!(parsed.to_string() == s, format!("C01/{name}/{purpose}/typed/reserialise"), "parse -> to_string is not the identity");
    let un = parsed
        .unseal(unsealing, &i, &NoValidation::dangerous_no_validation())
        .map_err(|e| Fail::new(format!("C01/{name}/{purpose}/typed/unseal/err-{}", err_kind(&e)), format!("{e}")))?;
    ensure!(same(&un.claims, &un.footer), format!("C01/{name}/{purpose}/typed/claims-or-footer-differ"), "typed claims / footer differ after the round trip (shape {})", c.shape);
    Ok(())
}

fn typed_case<B: Backend>(c: &TypedCase, acc: &mut Acc) -> R {
    use paseto_json::{Json, RegisteredClaims};
    rng::reseed_case(hash_of(&(&c.key, &c.text, c.n)));
    let val = json!({"data": c.text, "n": c.n, "nested": {"list": [1, c.n, null, c.text]}});
    let fval = json!({"kid": c.text, "n": c.n});
    let claims = RegisteredClaims {
        iss: Some(c.text.clone()),
        sub: if c.n % 2 == 0 { Some(String::new()) } else { None },
        aud: None,
        exp: paseto_json::jiff::Timestamp::new(c.n.rem_euclid(4_000_000_000), (c.n.rem_euclid(1_000_000_000)) as i32).ok(),
        nbf: None,
        iat: paseto_json::jiff::Timestamp::new(0, 1).ok(),
        jti: Some("\u{0}\"\\".to_string()),
    };
    // all seven registered claims present (embedded in an application struct by shape 5)
    let full_claims = RegisteredClaims {
        iss: Some(c.text.clone()),
        sub: Some("subject".into()),
        aud: Some(String::new()),
        exp: paseto_json::jiff::Timestamp::new(c.n.rem_euclid(4_000_000_000), 5).ok(),
        nbf: paseto_json::jiff::Timestamp::new(1, 0).ok(),
        iat: paseto_json::jiff::Timestamp::new(0, 1).ok(),
        jti: Some(format!("id-{}", c.n)),
    };
    let hm_payload = || (0..12i64).map(|i| (format!("k{i}-{}", c.n), i ^ c.n)).collect::<std::collections::HashMap<String, i64>>();
    let hm_footer = || (0..12i64).map(|i| (format!("f{i}"), format!("{}{i}", c.text.chars().take(8).collect::<String>()))).collect::<std::collections::HashMap<String, String>>();
    macro_rules! go {
        ($P:ty, $sk:expr, $uk:expr) => {
            match c.shape % 7 {
                0 => typed_roundtrip::<B, $P, Json<serde_json::Value>, ()>(c, &$sk, &$uk, || Json(val.clone()), || (), |a, _| a.0 == val),
                1 => typed_roundtrip::<B, $P, Json<serde_json::Value>, Json<serde_json::Value>>(c, &$sk, &$uk, || Json(val.clone()), || Json(fval.clone()), |a, f| a.0 == val && f.0 == fval),
                2 => typed_roundtrip::<B, $P, RegisteredClaims, Json<Kid>>(c, &$sk, &$uk, || claims.clone(), || Json(Kid { kid: c.text.clone(), n: c.n }), |a, f| {
                    let b = &claims;
                    a.iss == b.iss && a.sub == b.sub && a.aud == b.aud && a.exp == b.exp && a.nbf == b.nbf && a.iat == b.iat && a.jti == b.jti && f.0 == Kid { kid: c.text.clone(), n: c.n }
                }),
                3 => typed_roundtrip::<B, $P, Json<serde_json::Value>, Vec<u8>>(c, &$sk, &$uk, || Json(val.clone()), || c.text.as_bytes().to_vec(), |a, f| a.0 == val && f == c.text.as_bytes()),
                6 => typed_roundtrip::<B, $P, Json<Wide>, Json<Wide>>(c, &$sk, &$uk, || Json(wide(&c.text, c.n)), || Json(wide(&c.text, c.n.wrapping_add(1))), |a, f| a.0 == wide(&c.text, c.n) && f.0 == wide(&c.text, c.n.wrapping_add(1))),
                5 => typed_roundtrip::<B, $P, Json<Session>, Json<Kid>>(c, &$sk, &$uk, || Json(Session { registered: full_claims.clone(), role: c.text.clone(), n: c.n }), || Json(Kid { kid: c.text.clone(), n: c.n }), |a, _| {
                    let (x, y) = (&a.0.registered, &full_claims);
                    a.0.role == c.text && a.0.n == c.n && x.iss == y.iss && x.sub == y.sub && x.aud == y.aud && x.exp == y.exp && x.nbf == y.nbf && x.iat == y.iat && x.jti == y.jti
                }),
                // a footer / payload whose serialisation is not deterministic: every HashMap instance has
                // its own iteration order, so encode(decode(bytes)) != bytes in general
                _ => typed_roundtrip::<B, $P, Json<std::collections::HashMap<String, i64>>, Json<std::collections::HashMap<String, String>>>(c, &$sk, &$uk, || Json(hm_payload()), || Json(hm_footer()), |a, f| a.0 == hm_payload() && f.0 == hm_footer()),
            }
        };
    }
    let r = if c.public {
        let sk = secret_key::<B>(&c.key);
        let pk = sk.public_key();
        go!(Public, sk, pk)
    } else {
        let k = local_key::<B>(&c.key);
        go!(Local, k, k)
    };
    r?;
    acc.eval();
    acc.nt(hash_of(&(c.public, &c.key, c.shape % 7, &c.text, c.n)));
    if c.text.len() > 8000 {
        acc.class("typed:text>8000-bytes");
    }
    acc.class(["typed:Json+unit-footer", "typed:Json+Json-footer", "typed:RegisteredClaims+Json<struct>-footer", "typed:Json+bytes-footer", "typed:Json<HashMap>+Json<HashMap>-footer", "typed:Json<struct with flattened RegisteredClaims>", "typed:Json<every serde value kind incl. 128-bit integers> payload and footer"][(c.shape % 7) as usize]);
    Ok(())
}

fn typed_subs_for<B: Backend>(out: &mut Vec<SubCheck>) {
    let cases = match B::NAME {
        "paseto-v1" => (80, 800),
        "paseto-v3" => (120, 1500),
        _ => (400, 8000),
    };
    out.push(SubCheck::prop(
        format!("c01.typed/{}", B::NAME),
        4,
        cases,
        |_t| {
            (any::<bool>(), gen_::key_seed(), 0u8..7, prop_oneof![
                4 => Just(String::new()).boxed(),
                8 => "\\PC{0,30}".boxed(),
                4 => any::<String>().boxed(),
                // long texts: typed footers / payloads of several KiB up to 100 KiB (sizes around 2^k)
                2 => (prop::sample::select(vec![1000usize, 4000, 8100, 8170, 8180, 8192, 8200, 16384, 20000, 65536, 100_000]), 0usize..40, any::<u8>()).prop_map(|(n, d, ch)| {
                    let c = [b'a', b'Z', b'0', b' ', b'"', b'\\'][(ch % 6) as usize] as char;
                    std::iter::repeat(c).take(n + d).collect::<String>()
                }).boxed(),
            ], any::<i64>(), gen_::assertion(B::VER.has_assertion()))
                .prop_map(|(public, key, shape, text, n, assertion)| TypedCase { public, key, shape, text, n, assertion })
        },
        typed_case::<B>,
    ));
}

pub fn def() -> PropertyDef {
    let mut subs = Vec::new();
    crate::for_backends!(B => subs_for::<B>(&mut subs));
    crate::for_backends!(B => typed_subs_for::<B>(&mut subs));
    PropertyDef {
        id: "C01",
        level: "exploration",
        rule: "proptest cases (back end x purpose x key source x payload encoding suffix {none, non-empty} x payload spec x footer x assertion x seal path {library RNG, scripted draw, caller nonce} x entry point {seal/unseal, encrypt|sign[_with_aad], decrypt|verify[_with_aad]}); oracle = round-trip identity + spec payload length + re-serialisation; a second family of cases uses the typed payload / footer types of the public API (Json<Value>, RegisteredClaims, (), Json<Value>, Json<struct> and Json<HashMap> footers, an application struct embedding RegisteredClaims with #[serde(flatten)]; texts up to 100 KiB so typed footers and payloads cross 8 KiB / 64 KiB); non-trivial iff payload longer than one cipher block, or non-empty footer or assertion, or a parsed (not random()) key; distinct by descriptor hash",
        assumptions: vec![
            "aws-lc and libsodium draw from their own OS-seeded generators (not scripted); rare signature shapes are reached by volume",
            "payload type is a raw-bytes Payload with SUFFIX \"\" (same header as JSON)",
        ],
        subs,
    }
}
