//! C06 — wrapped and sealed keys are tamper-evident and bound to header, key and password.
//! Fault enumeration over PIE / PBKW / PKE blobs of every back end.

use paseto_core::PasetoError;
use paseto_core::key::{HasKey, Key, SealingKey};
use paseto_core::paserk::{PasswordWrappedKey, PieWrappedKey, SealedKey};
use paseto_core::version::{Local, PkeSecret, Secret};
use proptest::prelude::*;
use serde::{Deserialize, Serialize};
use serde_json::{Value, json};

use crate::backends::*;
use crate::engine::*;
use crate::faults::{self, MutId};
use crate::gens::{self, BytesSpec};
use crate::refmodel::{self as model, PwParams, Ver};
use crate::rng;
use crate::util::{b64_decode, b64_encode};

#[derive(Clone, Debug, Serialize, Deserialize, Hash)]
pub struct BlobCase {
    /// 0 PIE, 1 PBKW, 2 PKE
    pub kind: u8,
    pub secret: bool,
    pub wrapped: KeySeed,
    pub wrapping: KeySeed,
    pub password: BytesSpec,
    /// v1 PKE on a getrandom back end: script the RSA-KEM draw so that the ciphertext c starts
    /// with this many zero bytes (the shape in which stripping / re-padding bugs live)
    #[serde(default)]
    pub aim_leading_zero: u8,
}

#[derive(Clone, Debug, Serialize, Deserialize)]
pub struct ReplayCase {
    pub blob: BlobCase,
    pub mutant: MutId,
}

pub fn blob_strategy(kind: u8, secret: bool) -> impl Strategy<Value = BlobCase> {
    (gens::key_seed(), gens::key_seed(), gens::password(), prop_oneof![2 => Just(0u8), 2 => Just(1u8), 1 => Just(2u8)]).prop_map(move |(wrapped, wrapping, password, aim)| BlobCase {
        kind,
        secret,
        wrapped,
        wrapping,
        password,
        aim_leading_zero: if kind == 2 { aim } else { 0 },
    })
}

fn kname(kind: u8) -> &'static str {
    ["pie", "pbkw", "pke"][kind as usize]
}

fn header<B: Backend>(kind: u8, secret: bool) -> String {
    let k = if secret { "secret" } else { "local" };
    match kind {
        0 => format!("{}.{k}-wrap.pie.", B::VER.k()),
        1 => format!("{}.{k}-pw.", B::VER.k()),
        _ => format!("{}.seal.", B::VER.k()),
    }
}

pub fn boundaries(ver: Ver, kind: u8, n: usize) -> Vec<usize> {
    match kind {
        0 => {
            let t = if ver.nist() { 48 } else { 32 };
            vec![t, t + 32]
        }
        1 => {
            let s = model::pbkw_salt_len(ver);
            let p = if ver.nist() { 4 } else { 16 };
            let nn = model::pbkw_nonce_len(ver);
            vec![s, s + p, s + p + nn, n - model::pbkw_tag_len(ver)]
        }
        _ => match ver {
            Ver::V1 => vec![48, 80],
            Ver::V3 => vec![48, 97],
            _ => vec![32, 64],
        },
    }
}

/// PBKW cost budget for mutated parameter fields (attacker-chosen costs beyond it are
/// resource exhaustion, outside the property)
fn within_budget(ver: Ver, blob: &[u8]) -> bool {
    match model::pbkw_split_blob(ver, blob) {
        Err(_) => true, // too short: rejected before any KDF
        Ok(p) => match p.params {
            PwParams::Pbkdf2 { iterations } => iterations <= 10_000,
            PwParams::Argon2id { mem_bytes, time, para } => mem_bytes <= 16 << 20 && time <= 3 && para <= 4,
        },
    }
}

/// HMAC keys are zero-padded to the block size (and hashed first when longer): two passwords
/// with the same padded form are one and the same PBKDF2-HMAC-SHA384 password.
pub fn hmac_equivalent(ver: Ver, a: &[u8], b: &[u8]) -> bool {
    if !ver.nist() {
        return a == b;
    }
    let norm = |x: &[u8]| -> Vec<u8> {
        let mut v = if x.len() > 128 { model::sha384(&[x]).to_vec() } else { x.to_vec() };
        v.resize(128, 0);
        v
    };
    norm(a) == norm(b)
}

fn unwrap_text<B: Backend, K: SealingKey>(kind: u8, text: &str, wk: &LocalKeyOf<B>, pw: &[u8]) -> Result<Vec<u8>, PasetoError>
where
    V<B>: HasKey<K>,
{
    match kind {
        0 => text.parse::<PieWrappedKey<V<B>, K>>()?.unwrap(wk).map(|k| key_bytes(&k)),
        _ => text.parse::<PasswordWrappedKey<V<B>, K>>()?.unwrap(pw).map(|k| key_bytes(&k)),
    }
}

fn unseal_text<B: Backend>(text: &str, sk: &Key<V<B>, PkeSecret>) -> Result<Vec<u8>, PasetoError> {
    text.parse::<SealedKey<V<B>>>()?.unseal(sk).map(|k| key_bytes(&k))
}

pub fn run_blob<B: Backend>(acc: &mut Acc, c: &BlobCase, filter: Option<&MutId>) {
    run_blob_opts::<B>(acc, c, filter, false)
}

/// `relabel_only`: only the control and the header-rewrite mutants (used by C10)
pub fn run_blob_opts<B: Backend>(acc: &mut Acc, c: &BlobCase, filter: Option<&MutId>, relabel_only: bool) {
    let name = B::NAME;
    let ver = B::VER;
    let kn = kname(c.kind);
    let ks = if c.secret { "secret" } else { "local" };
    let want = |id: &MutId| filter.map(|f| f == id).unwrap_or(true);
    let rcase = |id: &MutId| serde_json::to_value(&ReplayCase { blob: c.clone(), mutant: id.clone() }).unwrap();
    let wk = local_key::<B>(&c.wrapping);
    let pw = c.password.bytes();
    let (pke_sk, pke_pk, pke_sk_bytes, pke_pk_bytes) = pke_pair::<B>(&c.wrapping);
    if c.kind == 2 && ver == Ver::V1 && B::GETRANDOM && c.aim_leading_zero > 0 {
        match crate::props::c05::script_leading_zero_c(hash_of(&c.wrapped), c.aim_leading_zero, &pke_sk_bytes, &pke_pk_bytes) {
            Ok(0) => {}
            Ok(_) => acc.class("pke:v1-ciphertext-leading-zero-constructed"),
            Err(e) => {
                acc.fail(e, serde_json::to_value(c).unwrap());
                return;
            }
        }
    }

    // produce the blob with the library itself
    let orig_key: Vec<u8> = if c.secret { secret_bytes(ver, &c.wrapped) } else { local_key_bytes(&c.wrapped).to_vec() };
    let params = cheapest_params(ver);
    let text: Result<String, PasetoError> = match (c.kind, c.secret) {
        (0, false) => local_key::<B>(&c.wrapped).wrap_pie(&wk).map(|w| w.to_string()),
        (0, true) => secret_key::<B>(&c.wrapped).wrap_pie(&wk).map(|w| w.to_string()),
        (1, false) => local_key::<B>(&c.wrapped).password_wrap_with_params(&pw, &pw_params::<B>(&params)).map(|w| w.to_string()),
        (1, true) => secret_key::<B>(&c.wrapped).password_wrap_with_params(&pw, &pw_params::<B>(&params)).map(|w| w.to_string()),
        _ => {
            rng::begin_op();
            let r = local_key::<B>(&c.wrapped).seal(&pke_pk).map(|w| w.to_string());
            rng::end_op();
            r
        }
    };
    let ctl = MutId { class: "control".into(), pos: 0, arg: 0 };
    let text = match text {
        Ok(t) => t,
        Err(e) => {
            acc.fail(Fail::new(format!("C06/{name}/{kn}/{ks}/control/wrap-failed"), format!("{e}")), rcase(&ctl));
            return;
        }
    };
    let h = header::<B>(c.kind, c.secret);
    let Some(blob) = text.strip_prefix(&h).and_then(b64_decode) else {
        acc.fail(Fail::new(format!("C06/{name}/{kn}/{ks}/control/display"), format!("unexpected text {text:.40}")), rcase(&ctl));
        return;
    };
    let unwrap_any = |t: &str| -> Result<Vec<u8>, PasetoError> {
        match (c.kind, c.secret) {
            (2, _) => unseal_text::<B>(t, &pke_sk),
            (_, false) => unwrap_text::<B, Local>(c.kind, t, &wk, &pw),
            (_, true) => unwrap_text::<B, Secret>(c.kind, t, &wk, &pw),
        }
    };
    // control
    if want(&ctl) {
        acc.eval();
        match unwrap_any(&text) {
            Ok(k) if model::pem_to_der(&k) == model::pem_to_der(&orig_key) => acc.class("control:accepted"),
            Ok(_) => acc.fail(Fail::new(format!("C06/{name}/{kn}/{ks}/control/key-differs"), "unmutated blob unwraps to a different key"), rcase(&ctl)),
            Err(e) => acc.fail(Fail::new(format!("C06/{name}/{kn}/{ks}/control/rejected"), format!("unmutated blob rejected: {e}")), rcase(&ctl)),
        }
    }
    // byte-level mutants
    let bounds = boundaries(ver, c.kind, blob.len());
    let expensive = c.kind == 2 && ver == Ver::V1;
    let (full_limit, edge) = if expensive { acc.tier.pick((0, 2), (0, 40)) } else { acc.tier.pick((2048, 64), (8192, 64)) };
    let mut muts = faults::blob_mutants(&blob, &bounds, full_limit, edge, hash_of(c));
    if expensive && acc.tier == Tier::Quick {
        // RSA-4096 private operation per mutant: keep a deterministic spread of ~220
        let step = (muts.len() / 220).max(1);
        muts = muts.into_iter().enumerate().filter(|(i, m)| i % step == 0 || m.id.class.starts_with("delete") || m.id.class.starts_with("correlated")).map(|(_, m)| m).collect();
    }
    let min_len = *bounds.last().unwrap();
    if relabel_only {
        muts.clear();
    }
    for m in muts {
        if !want(&m.id) {
            continue;
        }
        if c.kind == 1 && !within_budget(ver, &m.blob) {
            acc.class("skipped:pbkw-params-over-budget");
            continue;
        }
        acc.eval();
        acc.class(&format!("mutant:{}", m.id.class));
        if m.blob.len() >= min_len {
            acc.nt(hash_of(&(c, &m.id)));
        }
        let t = format!("{h}{}", b64_encode(&m.blob));
        if let Ok(k) = unwrap_any(&t) {
            acc.fail(
                Fail::new(
                    format!("C06/{name}/{kn}/{ks}/{}/accepted", m.id.class),
                    format!("mutant {:?} unwrapped to a key ({})", m.id, if k == orig_key { "the original" } else { "a different one" }),
                ),
                rcase(&m.id),
            );
        }
    }
    // text-level extensions of the serialised blob: one more base64 character (a dangling sextet
    // carries no byte), padding, an extra section
    if !relabel_only {
        let mut exts: Vec<String> = crate::props::c02::ALPHABET.chars().map(|ch| ch.to_string()).collect();
        exts.extend([".".to_string(), "=".to_string(), "==".to_string(), " ".to_string(), ".AAAA".to_string(), "AA".to_string(), "AAA".to_string(), "AAAA".to_string()]);
        if expensive && acc.tier == Tier::Quick {
            // RSA-4096 private operation per accepted parse: the last character of the text and a few others
            let last = text.chars().last().map(|c| c.to_string()).unwrap_or_default();
            let fourth_last = text.chars().rev().nth(3).map(|c| c.to_string()).unwrap_or_default();
            exts = vec![last, fourth_last, "A".into(), "_".into(), ".".into(), "=".into()];
        }
        for (ei, ext) in exts.iter().enumerate() {
            let id = MutId { class: "text-extension".into(), pos: ei as u32, arg: 0 };
            if !want(&id) {
                continue;
            }
            acc.eval();
            acc.class("mutant:text-extension");
            acc.nt(hash_of(&(c, &id)));
            if unwrap_any(&format!("{text}{ext}")).is_ok() {
                acc.fail(Fail::new(format!("C06/{name}/{kn}/{ks}/text-extension/accepted"), format!("the serialised blob followed by {ext:?} unwrapped")), rcase(&id));
            }
        }
    }
    // text-level header edits: a stretch of the header inserted again (`k4.seal..seal.<data>`), in every
    // position the header's dots allow, 1..3 times, with and without the closing dot
    {
        let dots: Vec<usize> = text.match_indices('.').map(|(i, _)| i).collect();
        let mut variants: Vec<String> = Vec::new();
        for a in 0..dots.len() {
            for b in a + 1..dots.len() {
                for closing in [true, false] {
                    for times in 1..=3usize {
                        let (i, j) = (dots[a], dots[b]);
                        let part = if closing { &text[i..=j] } else { &text[i..j] };
                        let at = if closing { j + 1 } else { j };
                        variants.push(format!("{}{}{}", &text[..at], part.repeat(times), &text[at..]));
                    }
                }
            }
        }
        // the version prefix repeated as well
        if let Some(d0) = dots.first() {
            variants.push(format!("{}{}", &text[..=*d0], text));
        }
        for (vi, t2) in variants.iter().enumerate() {
            let id = MutId { class: "header-part-repeated".into(), pos: vi as u32, arg: 0 };
            if !want(&id) {
                continue;
            }
            acc.eval();
            acc.class("mutant:header-part-repeated");
            acc.nt(hash_of(&(c, &id)));
            if unwrap_any(t2).is_ok() {
                acc.fail(Fail::new(format!("C06/{name}/{kn}/{ks}/header-part-repeated/accepted"), format!("the text {:.60}... (part of the header inserted again) unwrapped", t2)), rcase(&id));
            }
        }
    }
    // other wrapping key / password / recipient
    let mut others: Vec<(MutId, Result<Vec<u8>, PasetoError>)> = Vec::new();
    let mk = |class: &str, pos: usize| MutId { class: class.into(), pos: pos as u32, arg: 0 };
    match if relabel_only { 9 } else { c.kind } {
        0 => {
            let kb = local_key_bytes(&c.wrapping);
            let mut cands: Vec<(MutId, [u8; 32])> = vec![(mk("key-other", 0), local_key_bytes(&KeySeed::from_u64(hash_of(&c.wrapping) ^ 0x99)))];
            let r = rng::det_bytes(hash_of(&c.wrapping), 0xb175, 16);
            for (j, rb) in r.iter().enumerate() {
                let bit = (*rb as usize + j * 16) % 256;
                let mut k2 = kb;
                k2[bit / 8] ^= 1 << (bit % 8);
                cands.push((mk("key-bit", bit), k2));
            }
            for (id, kb2) in cands {
                if !want(&id) {
                    continue;
                }
                let k2 = key_from_bytes::<V<B>, Local>(&kb2).expect("32 bytes");
                let r = if c.secret { unwrap_text::<B, Secret>(0, &text, &k2, &pw) } else { unwrap_text::<B, Local>(0, &text, &k2, &pw) };
                others.push((id, r));
            }
        }
        1 => {
            let mut pws: Vec<(MutId, Vec<u8>)> = Vec::new();
            let mut p2 = pw.clone();
            p2.push(1);
            pws.push((mk("password-extended", 0), p2));
            if !pw.is_empty() {
                pws.push((mk("password-truncated", 0), pw[..pw.len() - 1].to_vec()));
                pws.push((mk("password-empty", 0), Vec::new()));
                let mut p3 = pw.clone();
                p3[0] ^= 1;
                pws.push((mk("password-bit", 0), p3));
            } else {
                pws.push((mk("password-other", 0), b"x".to_vec()));
            }
            for (id, p) in pws {
                if !want(&id) {
                    continue;
                }
                if hmac_equivalent(ver, &p, &pw) {
                    // PBKDF2-HMAC zero-pads short keys: "abc" and "abc\0" are the same HMAC key by
                    // construction of the primitive the PASERK spec prescribes - not another password
                    acc.class("skipped:hmac-equivalent-password");
                    continue;
                }
                let r = if c.secret { unwrap_text::<B, Secret>(1, &text, &wk, &p) } else { unwrap_text::<B, Local>(1, &text, &wk, &p) };
                others.push((id, r));
            }
        }
        _ => {
            let id = mk("recipient-other", 0);
            if c.kind != 2 {
                // relabel-only mode of a non-PKE blob
            } else
            if want(&id) {
                let mut t = 1u64;
                let mut other = pke_pair::<B>(&KeySeed::from_u64(hash_of(&c.wrapping) ^ 0x77));
                while other.2 == pke_secret_bytes(ver, &c.wrapping) {
                    other = pke_pair::<B>(&KeySeed::from_u64(hash_of(&c.wrapping) ^ 0x77 ^ (t << 20)));
                    t += 1;
                }
                others.push((id, unseal_text::<B>(&text, &other.0)));
            }
        }
    }
    for (id, r) in others {
        acc.eval();
        acc.class(&format!("mutant:{}", id.class));
        acc.nt(hash_of(&(c, &id)));
        if r.is_ok() {
            acc.fail(Fail::new(format!("C06/{name}/{kn}/{ks}/{}/accepted", id.class), "blob unwrapped with another key / password / recipient"), rcase(&id));
        }
    }
    // after all those rejected attempts (wrong tags, tampered parameters under the RIGHT password,
    // other keys) the untouched blob must still unwrap to the original key: a failed unwrap leaves
    // nothing behind
    if filter.is_none() && !relabel_only {
        let id = mk("control-after-failures", 0);
        acc.eval();
        acc.nt(hash_of(&(c, &id)));
        match unwrap_any(&text) {
            Ok(k) if model::pem_to_der(&k) == model::pem_to_der(&orig_key) => acc.class("control-after-failures:accepted"),
            Ok(_) => acc.fail(Fail::new(format!("C06/{name}/{kn}/{ks}/control-after-failures/key-differs"), "after a series of rejected mutants the unmutated blob unwraps to a different key"), rcase(&id)),
            Err(e) => acc.fail(Fail::new(format!("C06/{name}/{kn}/{ks}/control-after-failures/rejected"), format!("after a series of rejected mutants the unmutated blob is rejected: {e}")), rcase(&id)),
        }
    }
    // header relabels: other key kind (same version), other versions (same secret bytes)
    if c.kind < 2 {
        let id = mk("relabel-kind", 0);
        if want(&id) {
            acc.eval();
            acc.class("mutant:relabel-kind");
            acc.nt(hash_of(&(c, &id)));
            let t2 = format!("{}{}", header::<B>(c.kind, !c.secret), b64_encode(&blob));
            let r = if c.secret { unwrap_text::<B, Local>(c.kind, &t2, &wk, &pw) } else { unwrap_text::<B, Secret>(c.kind, &t2, &wk, &pw) };
            if r.is_ok() {
                acc.fail(Fail::new(format!("C06/{name}/{kn}/{ks}/relabel-kind/accepted"), "blob accepted after rewriting local<->secret in the header"), rcase(&id));
            }
        }
    }
    let mut idx = 0usize;
    crate::for_backends!(T => {
        idx += 1;
        if T::VER != ver {
            let id = mk(&format!("relabel-version-{}", T::NAME), idx);
            if want(&id) {
                let t2 = format!("{}{}", header::<T>(c.kind, c.secret), b64_encode(&blob));
                let wk2 = local_key::<T>(&c.wrapping);
                let over = c.kind == 1 && !within_budget(T::VER, &blob);
                let r: Option<Result<Vec<u8>, PasetoError>> = match (c.kind, c.secret) {
                    _ if over => None,
                    (2, _) => {
                        // same recipient secret bytes only make sense between v2 and v4
                        key_from_bytes::<V<T>, PkeSecret>(&pke_secret_bytes(ver, &c.wrapping)).ok().map(|sk| unseal_text::<T>(&t2, &sk))
                    }
                    (k, false) => Some(unwrap_text::<T, Local>(k, &t2, &wk2, &pw)),
                    (k, true) => Some(unwrap_text::<T, Secret>(k, &t2, &wk2, &pw)),
                };
                match r {
                    None => acc.class("skipped:relabel-not-applicable"),
                    Some(r) => {
                        acc.eval();
                        acc.class("mutant:relabel-version");
                        acc.nt(hash_of(&(c, &id)));
                        if r.is_ok() {
                            acc.fail(Fail::new(format!("C06/{name}/{kn}/{ks}/relabel-version/accepted"), format!("blob accepted by {} after rewriting the version in the header", T::NAME)), rcase(&id));
                        }
                    }
                }
            }
        }
    });
    acc.sample(|| json!({"backend": name, "kind": kn, "wrapped": ks, "blob_len": blob.len(), "field_boundaries": bounds, "text_prefix": text.chars().take(48).collect::<String>()}));
}

fn replay<B: Backend>(v: &Value, acc: &mut Acc) -> R {
    replay_opts::<B>(v, acc, false)
}

pub fn replay_opts<B: Backend>(v: &Value, acc: &mut Acc, relabel_only: bool) -> R {
    let rc: ReplayCase = serde_json::from_value(v.clone()).map_err(|e| Fail::new("HARNESS/replay-decode", format!("{e}")))?;
    rng::reseed_case(hash_of(&rc.blob));
    acc.tier = Tier::Thorough;
    run_blob_opts::<B>(acc, &rc.blob, Some(&rc.mutant), relabel_only);
    Ok(())
}

/// Keyless forgeries of k1.seal: blobs computed from PUBLIC data alone.  The only secret-dependent
/// input of the unsealing computation is r = c^d mod n; a ciphertext the recipient's RSA operation
/// refuses (c >= n) has no r at all, so a blob built for any guessed r (empty, 0, 1, in either
/// width) must be refused under every recipient key.  (c = 0 and c = 1 are honest encapsulations of
/// r = 0 and r = 1 for every modulus at once - RSA-KEM has no way to refuse them and the PASERK
/// specification does not ask for it; they are not in this enumeration, see DESIGN section 7.)
fn keyless_forgeries_v1(acc: &mut Acc) {
    use num_bigint_dig::BigUint;
    type B = BV1;
    let attacker_key = *b"attacker-chosen-local-key-32byte";
    let mut total = 0u64;
    for ki in 0..2u64 {
        let ks = KeySeed::from_u64(0xc06f + ki);
        let (pke_sk, _pk, _sk_raw, pk_raw) = pke_pair::<B>(&ks);
        let Ok(rp) = model::rsa_pub_from_spki(&pk_raw) else {
            acc.harness_errors.push("c06 keyless: cannot read the recipient modulus".into());
            return;
        };
        let n = rp.n.clone();
        let one = BigUint::from(1u8);
        let top = (BigUint::from(1u8) << 4096) - &one;
        let mut cs: Vec<(String, Vec<u8>)> = vec![("all-ones".into(), vec![0xff; 512]), ("n".into(), model::i2osp(&n, 512)), ("n+1".into(), model::i2osp(&(&n + &one), 512)), ("n+2".into(), model::i2osp(&(&n + BigUint::from(2u8)), 512)), ("2^4096-2".into(), model::i2osp(&(&top - &one), 512))];
        // the midpoint between n and 2^4096
        cs.push(("(n+2^4096)/2".into(), model::i2osp(&((&n + &top) >> 1), 512)));
        let mut last1 = vec![0u8; 512];
        last1[511] = 1;
        let rs: Vec<(&str, Vec<u8>)> = vec![("empty", vec![]), ("00", vec![0]), ("00*512", vec![0; 512]), ("01", vec![1]), ("00..01", last1), ("c itself", vec![])];
        for (cname, c) in &cs {
            for (rname, r) in &rs {
                let r: &[u8] = if *rname == "c itself" { c } else { r };
                let text = model::pke_recompute_rsa(r, c, &attacker_key, None);
                let case = json!({"recipient": ki, "c": cname, "r_guess": rname, "text": text});
                total += 1;
                acc.check(&case, |acc| {
                    acc.eval();
                    acc.nt(hash_of(&(ki, cname, rname)));
                    let parsed = text.parse::<SealedKey<V<B>>>();
                    let Ok(sealed) = parsed else { return Ok(()) };
                    match sealed.unseal(&pke_sk) {
                        Err(_) => Ok(()),
                        Ok(k) => Err(Fail::new(
                            "C06/paseto-v1/pke/keyless-forgery/accepted".to_string(),
                            format!("a k1.seal blob computed from public data alone (c = {cname} >= n, r guessed as {rname}) unsealed under a recipient key to {}", crate::util::hx(&key_bytes(&k))),
                        )),
                    }
                });
            }
        }
    }
    acc.class_n("keyless-forgery:v1:c>=n", total);
    acc.exhaustive.push(format!("paseto-v1 keyless k1.seal forgeries: 6 ciphertexts >= n x 6 guesses of r x 2 recipients = {total}"));
}

/// Keyless forgeries of password-wrapped keys: for cost parameters no KDF can run with (zero
/// iterations / passes / memory / lanes) a back end must refuse, or at any rate stay bound to the
/// password.  A blob computed from public data alone - for the pre-key a skipped KDF would leave in a
/// zero-initialised buffer - must not unwrap under any password.
fn keyless_pbkw<B: Backend>(acc: &mut Acc) {
    let ver = B::VER;
    let name = B::NAME;
    let attacker_key = *b"attacker-chosen-local-key-32byte";
    let params: Vec<(&str, Vec<u8>)> = if ver.nist() {
        vec![("iterations=0", 0u32.to_be_bytes().to_vec())]
    } else {
        let p = |mem: u64, time: u32, para: u32| -> Vec<u8> {
            let mut v = mem.to_be_bytes().to_vec();
            v.extend_from_slice(&time.to_be_bytes());
            v.extend_from_slice(&para.to_be_bytes());
            v
        };
        vec![("mem=0,time=0,lanes=0", p(0, 0, 0)), ("time=0", p(8192, 0, 1)), ("lanes=0", p(8192, 1, 0)), ("mem=0", p(0, 1, 1)), ("mem=1023", p(1023, 1, 1))]
    };
    let prekeys: Vec<(&str, Vec<u8>)> = vec![("32 zero bytes", vec![0; 32]), ("empty", vec![]), ("64 zero bytes", vec![0; 64])];
    let salt = vec![0x5au8; model::pbkw_salt_len(ver)];
    let nonce = vec![0xa5u8; model::pbkw_nonce_len(ver)];
    let mut total = 0u64;
    for (pname, pb) in &params {
        for (kname_, prekey) in &prekeys {
            let text = model::pbkw_wrap_with_prekey(ver, "local", prekey, pb, &salt, &nonce, &attacker_key);
            for pw in [&b""[..], b"x", b"password"] {
                let case = json!({"backend": name, "params": pname, "prekey_guess": kname_, "password": String::from_utf8_lossy(pw), "text": text});
                total += 1;
                acc.check(&case, |acc| {
                    acc.eval();
                    acc.nt(hash_of(&(name, pname, kname_, pw)));
                    let Ok(w) = text.parse::<PasswordWrappedKey<V<B>, Local>>() else { return Ok(()) };
                    match w.unwrap(pw) {
                        Err(_) => Ok(()),
                        Ok(k) => Err(Fail::new(
                            format!("C06/{name}/pbkw/keyless-forgery/accepted"),
                            format!("a password-wrapped key computed from public data alone (parameters {pname}, pre-key guessed as {kname_}) unwrapped under the password {:?} to {}", String::from_utf8_lossy(pw), crate::util::hx(&key_bytes(&k))),
                        )),
                    }
                });
            }
        }
    }
    acc.class_n("keyless-forgery:pbkw:degenerate-parameters", total);
}

fn subs_for<B: Backend>(out: &mut Vec<SubCheck>) {
    out.push(SubCheck::custom(
        format!("c06.keyless-pbkw/{}", B::NAME),
        2,
        keyless_pbkw::<B>,
        |v: &Value, _acc: &mut Acc| {
            let text = v.get("text").and_then(|x| x.as_str()).unwrap_or("").to_string();
            let pw = v.get("password").and_then(|x| x.as_str()).unwrap_or("").as_bytes().to_vec();
            match text.parse::<PasswordWrappedKey<V<B>, Local>>().and_then(|w| w.unwrap(&pw)) {
                Err(_) => Ok(()),
                Ok(_) => Err(Fail::new(format!("C06/{}/pbkw/keyless-forgery/accepted", B::NAME), "a password-wrapped key computed from public data alone unwrapped")),
            }
        },
    ));
    for (kind, secret) in [(0u8, false), (0, true), (1, false), (1, true), (2, false)] {
        let ks = if secret { "secret" } else { "local" };
        let v1 = B::VER == Ver::V1;
        let (chunks, per_q, per_t): (u32, usize, usize) = match (kind, secret) {
            (2, _) if v1 => (3, 1, 2),
            (2, _) if B::VER == Ver::V3 => (2, 2, 12),
            (_, true) if v1 => (2, 2, 10),
            _ => (1, 8, 80),
        };
        for ch in 0..chunks {
            out.push(SubCheck::custom(
                format!("c06.mutants/{}/{}/{ks}/{ch}", B::NAME, kname(kind)),
                if kind == 2 && v1 { 20 } else if kind == 2 { 8 } else { 3 },
                move |acc: &mut Acc| {
                    let n = acc.tier.pick(per_q, per_t);
                    let seed = mix(acc.seed, fnv(format!("c06/{}/{kind}/{secret}/{ch}", B::NAME).as_bytes()));
                    for (j, b) in sample_values(&blob_strategy(kind, secret), seed, n).iter().enumerate() {
                        rng::reseed_case(hash_of(b) ^ j as u64);
                        run_blob::<B>(acc, b, None);
                    }
                },
                |v: &Value, acc: &mut Acc| replay::<B>(v, acc),
            ));
        }
    }
}

pub fn def() -> PropertyDef {
    let mut subs = Vec::new();
    crate::for_backends!(B => subs_for::<B>(&mut subs));
    subs.push(SubCheck::custom(
        "c06.keyless-forgeries/paseto-v1",
        6,
        keyless_forgeries_v1,
        |v: &Value, acc: &mut Acc| {
            // the case carries the blob text; the recipient is derived from its index
            let ki = v.get("recipient").and_then(|x| x.as_u64()).unwrap_or(0);
            let text = v.get("text").and_then(|x| x.as_str()).unwrap_or("").to_string();
            let (pke_sk, _, _, _) = pke_pair::<BV1>(&KeySeed::from_u64(0xc06f + ki));
            let _ = acc;
            match text.parse::<SealedKey<V<BV1>>>().and_then(|s| s.unseal(&pke_sk)) {
                Err(_) => Ok(()),
                Ok(_) => Err(Fail::new("C06/paseto-v1/pke/keyless-forgery/accepted", "a k1.seal blob computed from public data alone unsealed under a recipient key")),
            }
        },
    ));
    PropertyDef {
        id: "C06",
        level: "fault_enumeration",
        rule: "for each library-produced PIE / PBKW / PKE blob (proptest-sampled keys, passwords, recipients): every single-bit flip of every byte (v1 k1.seal: deterministic spread in quick, all tag/edk/edge bits in thorough), every truncation front and back, 1-3 byte insertions at every field boundary, header rewritten local<->secret and to every other version (same secret bytes), every stretch of the header between two of its dots inserted again 1..3 times, other wrapping key + one-bit neighbours, other / extended / truncated / empty password, other recipient; oracle: unwrap returns Err for every mutant and never a key, unmutated control returns the original key. paseto-v1 additionally: k1.seal blobs computed from public data alone for ciphertexts the RSA operation refuses (c >= n: n, n+1, n+2, midpoint, 2^4096-2, all-ones) and every guess of r in {empty, 0, 1 in one-byte and 512-byte width, c itself}, under two recipients: never a key. Every back end: password-wrapped keys computed from public data alone for cost parameters no KDF can run with (zero iterations / passes / lanes / memory) and the pre-key a skipped KDF would leave behind (zero bytes), under three passwords: never a key. PBKW mutants whose parameter field exceeds the budget (10000 iterations / 16 MiB / 3 passes) are skipped and counted. Non-trivial iff the mutant keeps all fixed-width fields; distinct by (blob, class, position)",
        assumptions: vec!["PBKW blobs use the cheapest parameters so that every mutant's KDF runs", "mutants are offered through FromStr + unwrap/unseal"],
        subs,
    }
}
