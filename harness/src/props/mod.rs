pub mod c01;
pub mod c05;

use crate::engine::PropertyDef;

pub fn def(id: &str) -> Option<PropertyDef> {
    Some(match id {
        "C01" => c01::def(),
        "C05" => c05::def(),
        _ => return None,
    })
}

pub const ALL: &[&str] = &["C01", "C05"];
