pub mod c01;
pub mod c02;
pub mod c03;
pub mod c04;
pub mod c05;
pub mod c06;
pub mod c07;
pub mod c08;
pub mod c09;
pub mod c10;
pub mod c11;
pub mod c12;
pub mod c13;
pub mod c14;
pub mod c15;
pub mod c16;
pub mod c17;

use crate::engine::PropertyDef;

pub fn def(id: &str) -> Option<PropertyDef> {
    Some(match id {
        "C01" => c01::def(),
        "C02" => c02::def(),
        "C03" => c03::def(),
        "C04" => c04::def(),
        "C05" => c05::def(),
        "C06" => c06::def(),
        "C07" => c07::def(),
        "C08" => c08::def(),
        "C09" => c09::def(),
        "C10" => c10::def(),
        "C11" => c11::def(),
        "C12" => c12::def(),
        "C13" => c13::def(),
        "C14" => c14::def(),
        "C15" => c15::def(),
        "C16" => c16::def(),
        "C17" => c17::def(),
        _ => return None,
    })
}

pub const ALL: &[&str] = &["C01", "C02", "C03", "C04", "C05", "C06", "C07", "C08", "C09", "C10", "C11", "C12", "C13", "C14", "C15", "C16", "C17"];
