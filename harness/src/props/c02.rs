//! C02 — unsealing accepts only the exact bytes, footer, assertion, header and key as sealed.
//! Fault enumeration: every mutant of the §3.5 catalogue must be rejected; the unmutated
//! control must be accepted (so "everything fails" cannot pass).

use paseto_core::PasetoError;
use paseto_core::encodings::Payload;
use paseto_core::key::Key;
use paseto_core::tokens::{SealedToken, UnsealedToken};
use paseto_core::validation::NoValidation;
use paseto_core::version::{Local, Public, Purpose, SealingVersion};
use proptest::prelude::*;
use serde::{Deserialize, Serialize};
use serde_json::{Value, json};

use crate::backends::*;
use crate::engine::*;
use crate::ensure;
use crate::faults::{self, MutId, TokenParts};
use crate::gens::{self, BytesSpec};
use crate::refmodel::{self as model, Ver};
use crate::rng;

#[derive(Clone, Debug, Serialize, Deserialize, Hash)]
pub struct TokCase {
    pub public: bool,
    pub key: KeySeed,
    pub msg: BytesSpec,
    pub footer: BytesSpec,
    pub assertion: BytesSpec,
    pub nonce_seed: u32,
}

#[derive(Clone, Debug, Serialize, Deserialize)]
pub struct ReplayCase {
    pub tok: TokCase,
    pub mutant: MutId,
}

pub const ALPHABET: &str = "ABCDEFGHIJKLMNOPQRSTUVWXYZabcdefghijklmnopqrstuvwxyz0123456789-_";

pub fn tok_strategy<B: Backend>(public: bool, big: bool) -> impl Strategy<Value = TokCase> {
    let msg_len = if big { (100u32..=1200).boxed() } else { prop_oneof![4 => 0u32..=40, 1 => 41u32..=70].boxed() };
    let short = |max: u32| {
        prop_oneof![
            2 => Just(BytesSpec::empty()),
            3 => (1u32..=max, 0u8..5, any::<u32>()).prop_map(|(len, fill, seed)| BytesSpec { len, fill, seed }),
        ]
    };
    // the larger token of each chunk also carries a long footer and assertion (every piece of the
    // authenticated input must be covered to its last byte, whatever its length)
    let long = |lo: u32, hi: u32| (lo..=hi, 0u8..5, any::<u32>()).prop_map(|(len, fill, seed)| BytesSpec { len, fill, seed });
    let assertion = if !B::VER.has_assertion() {
        Just(BytesSpec::empty()).boxed()
    } else if big {
        prop_oneof![1 => short(16), 2 => long(100, 400)].boxed()
    } else {
        short(16).boxed()
    };
    let footer = if big { prop_oneof![1 => short(24), 3 => long(150, 700)].boxed() } else { short(24).boxed() };
    (gens::key_seed(), msg_len, 0u8..4, any::<u32>(), footer, assertion, any::<u32>()).prop_map(
        move |(key, len, fill, seed, footer, assertion, nonce_seed)| TokCase {
            public,
            key,
            msg: BytesSpec { len, fill, seed },
            footer,
            assertion,
            nonce_seed,
        },
    )
}

pub struct Built {
    pub payload: Vec<u8>,
    pub footer: Vec<u8>,
    pub assertion: Vec<u8>,
    pub msg: Vec<u8>,
}

/// Seal the case's token on back end B (local: deterministic caller nonce; public: sign()).
pub fn build<B: Backend, P: Purpose, M: Payload>(c: &TokCase, key: &Key<V<B>, P::SealingKey>, m: M, msg_bytes: Vec<u8>) -> Result<Built, Fail>
where
    V<B>: SealingVersion<P>,
{
    let f = c.footer.bytes();
    let i = c.assertion.bytes();
    let purpose = if c.public { "public" } else { "local" };
    let tok = UnsealedToken::<V<B>, P, M>::new(m).with_footer(f.clone());
    let nonce = if c.public { Vec::new() } else { rng::det_bytes(c.nonce_seed as u64, 0xc02, B::VER.local_draw_len()) };
    let sealed = tok
        .dangerous_seal_with_nonce(key, &i, nonce)
        .map_err(|e| Fail::new(format!("C02/{}/{purpose}/control/seal-failed", B::NAME), format!("{e}")))?;
    let s = sealed.to_string();
    let h = format!("{}.{purpose}.", B::VER.v());
    let (payload, footer) = model::disassemble(&h, &s).map_err(|e| Fail::new(format!("C02/{}/{purpose}/control/display", B::NAME), e))?;
    Ok(Built { payload, footer, assertion: i, msg: msg_bytes })
}

/// v1.public: RSA-PSS signatures are randomised, and the `s + n` mutant exists only for signatures
/// below 2^2048 - n (a quarter of them or fewer, depending on the key): sign again, up to 16 times,
/// until the signature leaves room for it.
pub fn build_with_room<B: Backend, P: Purpose, M: Payload + Clone>(c: &TokCase, key: &Key<V<B>, P::SealingKey>, m: M, msg_bytes: Vec<u8>) -> Result<Built, Fail>
where
    V<B>: SealingVersion<P>,
{
    let mut b = build::<B, P, M>(c, key, m.clone(), msg_bytes.clone())?;
    if !(c.public && B::VER == Ver::V1) {
        return Ok(b);
    }
    let Some(n) = rsa_modulus::<B>(&c.key) else { return Ok(b) };
    let fits = |b: &Built| -> bool {
        let pl = b.payload.len();
        if pl < n.len() {
            return false;
        }
        let s = &b.payload[pl - n.len()..];
        let mut carry = 0u16;
        for i in (0..n.len()).rev() {
            carry = (s[i] as u16 + n[i] as u16 + carry) >> 8;
        }
        carry == 0
    };
    for _ in 0..16 {
        if fits(&b) {
            break;
        }
        b = build::<B, P, M>(c, key, m.clone(), msg_bytes.clone())?;
    }
    Ok(b)
}

/// Parse "<header><b64 payload>[.<b64 footer>]" on back end T and unseal it.
pub fn attempt<T: Backend, P: Aliases<V<T>>, M: Payload>(
    payload: &[u8],
    footer: &[u8],
    assertion: &[u8],
    key: &Key<V<T>, P>,
    purpose: &str,
) -> Result<M, PasetoError>
where
    V<T>: SealingVersion<P>,
{
    let s = model::assemble(&format!("{}.{purpose}.", T::VER.v()), payload, footer);
    let t: SealedToken<V<T>, P, M, Vec<u8>> = s.parse()?;
    // rotate through the generic unseal and the purpose-specific aliases
    let which = (payload.len() + footer.len() + assertion.len()) as u8;
    P::unseal_via(which, t, key, assertion, &NoValidation::dangerous_no_validation()).map(|u| u.claims)
}

pub struct KeyVariant<B: Backend, P: Purpose>
where
    V<B>: paseto_core::key::HasKey<P>,
{
    pub id: MutId,
    pub key: Key<V<B>, P>,
}

/// other keys: unrelated key, single-bit neighbours (local), negated point (v3 public)
pub fn local_key_variants<B: Backend>(c: &TokCase, bits: usize) -> Vec<(MutId, LocalKeyOf<B>)> {
    let mut out = Vec::new();
    let kb = local_key_bytes(&c.key);
    let other = KeySeed::from_u64(hash_of(&c.key) ^ 0x5555);
    out.push((MutId { class: "key-other".into(), pos: 0, arg: 0 }, local_key::<B>(&other)));
    let r = rng::det_bytes(hash_of(&c.key), 0xb175, bits.min(256));
    for (j, rb) in r.iter().enumerate() {
        let bit = if bits >= 256 { j } else { (*rb as usize + j * 8) % 256 };
        let mut k2 = kb;
        k2[bit / 8] ^= 1 << (bit % 8);
        out.push((
            MutId { class: "key-bit".into(), pos: bit as u32, arg: 0 },
            key_from_bytes::<V<B>, Local>(&k2).expect("32 bytes"),
        ));
    }
    out
}

pub fn public_key_variants<B: Backend>(c: &TokCase) -> Vec<(MutId, PublicKeyOf<B>)> {
    let mut out = Vec::new();
    // an unrelated key (the v1 pool is small: make sure it really is another key)
    let mine = public_bytes(B::VER, &secret_bytes(B::VER, &c.key));
    let mut opk = mine.clone();
    let mut t = 0u64;
    while opk == mine {
        let other = KeySeed::from_u64(hash_of(&c.key) ^ 0x7777 ^ (t << 32));
        opk = public_bytes(B::VER, &secret_bytes(B::VER, &other));
        t += 1;
    }
    out.push((
        MutId { class: "key-other".into(), pos: 0, arg: 0 },
        key_from_bytes::<V<B>, Public>(&opk).expect("other public key"),
    ));
    if B::VER == Ver::V3 {
        let mut pk = public_bytes(B::VER, &secret_bytes(B::VER, &c.key));
        pk[0] ^= 1; // 02 <-> 03: the negated point, a valid different key
        out.push((
            MutId { class: "key-negated-point".into(), pos: 0, arg: 0 },
            key_from_bytes::<V<B>, Public>(&pk).expect("negated point decodes"),
        ));
    }
    out
}

fn reject_sig<B: Backend>(purpose: &str, id: &MutId) -> String {
    format!("C02/{}/{purpose}/{}/accepted", B::NAME, id.class)
}

/// Try the same payload bytes under every other version's parser with the same key bytes.
fn relabel_other_versions<B: Backend>(acc: &mut Acc, c: &TokCase, b: &Built, filter: Option<&MutId>) {
    let purpose = if c.public { "public" } else { "local" };
    let key_raw: Vec<u8> = if c.public { public_bytes(B::VER, &secret_bytes(B::VER, &c.key)) } else { local_key_bytes(&c.key).to_vec() };
    let mut idx = 0u32;
    crate::for_backends!(T => {
        idx += 1;
        if T::VER != B::VER {
            for (ai, aad) in [b.assertion.clone(), Vec::new()].iter().enumerate() {
                let id = MutId { class: format!("relabel-version-{}", T::NAME), pos: idx, arg: ai as u32 };
                if filter.map(|f| *f == id).unwrap_or(true) {
                    let res: Option<Result<Raw, PasetoError>> = if c.public {
                        key_from_bytes::<V<T>, Public>(&key_raw).ok().map(|k| attempt::<T, Public, Raw>(&b.payload, &b.footer, aad, &k, purpose))
                    } else {
                        key_from_bytes::<V<T>, Local>(&key_raw).ok().map(|k| attempt::<T, Local, Raw>(&b.payload, &b.footer, aad, &k, purpose))
                    };
                    match res {
                        None => acc.class("relabel:key-bytes-not-a-key-there"),
                        Some(r) => {
                            acc.eval();
                            acc.class("mutant:relabel-version");
                            if b.payload.len() >= T::VER.local_nonce_len() {
                                acc.nt(hash_of(&(c, &id)));
                            }
                            if let Ok(_claims) = r {
                                let rc = ReplayCase { tok: c.clone(), mutant: id.clone() };
                                acc.fail(Fail::new(reject_sig::<B>(purpose, &id), format!("a {} {purpose} token was accepted by {} after rewriting only the header", B::NAME, T::NAME)), serde_json::to_value(&rc).unwrap());
                            }
                        }
                    }
                }
            }
        }
    });
}

/// Enumerate (or, with `filter`, re-execute one of) the mutants of one token.
pub fn run_token<B: Backend>(acc: &mut Acc, c: &TokCase, filter: Option<&MutId>) {
    let full_limit = acc.tier.pick(176, 2048);
    let purpose = if c.public { "public" } else { "local" };
    let m = c.msg.bytes();
    let want = |id: &MutId| filter.map(|f| f == id).unwrap_or(true);
    let ctl_id = MutId { class: "control".into(), pos: 0, arg: 0 };
    macro_rules! body {
        ($P:ty, $sealkey:expr, $unsealkey:expr, $keyvars:expr, $otherP:ty, $otherkey:expr, $otherpurpose:expr) => {{
            let built = match build_with_room::<B, $P, Raw>(c, &$sealkey, Raw(m.clone()), m.clone()) {
                Ok(b) => b,
                Err(f) => {
                    acc.fail(f, serde_json::to_value(&ReplayCase { tok: c.clone(), mutant: ctl_id.clone() }).unwrap());
                    return;
                }
            };
            // positive control
            if want(&ctl_id) {
                acc.eval();
                match attempt::<B, $P, Raw>(&built.payload, &built.footer, &built.assertion, &$unsealkey, purpose) {
                    Ok(cl) if cl.0 == m => acc.class("control:accepted"),
                    Ok(_) => acc.fail(Fail::new(format!("C02/{}/{purpose}/control/claims-differ", B::NAME), "control token unsealed to different claims"), serde_json::to_value(&ReplayCase { tok: c.clone(), mutant: ctl_id.clone() }).unwrap()),
                    Err(e) => acc.fail(Fail::new(format!("C02/{}/{purpose}/control/rejected", B::NAME), format!("unmutated token rejected: {e}")), serde_json::to_value(&ReplayCase { tok: c.clone(), mutant: ctl_id.clone() }).unwrap()),
                }
            }
            // v1/v2: sealing with a non-empty assertion must be refused, not ignored
            if !B::VER.has_assertion() {
                let id = MutId { class: "seal-with-assertion".into(), pos: 0, arg: 0 };
                if want(&id) {
                    acc.eval();
                    let r = UnsealedToken::<V<B>, $P, Raw>::new(Raw(m.clone())).with_footer(built.footer.clone()).seal(&$sealkey, b"implicit");
                    if r.is_ok() {
                        acc.fail(Fail::new(format!("C02/{}/{purpose}/seal-with-assertion/accepted", B::NAME), "sealing with a non-empty implicit assertion succeeded on a version without implicit assertions"), serde_json::to_value(&ReplayCase { tok: c.clone(), mutant: id }).unwrap());
                    }
                }
            }
            let modulus: Option<Vec<u8>> = if c.public && B::VER == Ver::V1 { rsa_modulus::<B>(&c.key) } else { None };
            let parts = TokenParts {
                payload: &built.payload,
                footer: &built.footer,
                assertion: &built.assertion,
                prefix: if c.public { 0 } else { B::VER.local_nonce_len() },
                suffix: if c.public { B::VER.sig_len() } else { B::VER.local_tag_len() },
                modulus: modulus.as_deref(),
            };
            let min_len = parts.prefix + parts.suffix;
            for mt in faults::token_mutants(&parts, B::VER.has_assertion(), hash_of(c), full_limit) {
                if !want(&mt.id) {
                    continue;
                }
                acc.eval();
                acc.class(&format!("mutant:{}", mt.id.class));
                if mt.payload.len() >= min_len {
                    acc.nt(hash_of(&(c, &mt.id)));
                }
                if let Ok(cl) = attempt::<B, $P, Raw>(&mt.payload, &mt.footer, &mt.assertion, &$unsealkey, purpose) {
                    let rc = ReplayCase { tok: c.clone(), mutant: mt.id.clone() };
                    acc.fail(
                        Fail::new(reject_sig::<B>(purpose, &mt.id), format!("mutant {:?} was accepted (claims {} bytes; original {} bytes)", mt.id, cl.0.len(), m.len())),
                        serde_json::to_value(&rc).unwrap(),
                    );
                }
            }
            // text-level extensions: extra sections / characters after the token's last section
            {
                let text = model::assemble(&format!("{}.{purpose}.", B::VER.v()), &built.payload, &built.footer);
                let fb64 = crate::util::b64_encode(&built.footer);
                let mut exts: Vec<String> = vec![".".into(), "..".into(), ".AAAA".into(), format!(".{fb64}"), ".AAAA.BBBB".into(), ". ".into(), ".not base64!".into(), " ".into(), "\n".into(), "=".into(), "\u{0}".into()];
                // one more base64 character (a dangling sextet carries no byte): every alphabet character
                exts.extend(ALPHABET.chars().map(|ch| ch.to_string()));
                let pb64_end = text.len() - if built.footer.is_empty() { 0 } else { fb64.len() + 1 };
                for (ei, ext) in exts.iter().enumerate() {
                    let id = MutId { class: "text-extension".into(), pos: ei as u32, arg: 0 };
                    if !want(&id) {
                        continue;
                    }
                    if built.footer.is_empty() && (ext == "." || (ext.starts_with('.') && !ext[1..].contains('.') && ext.len() > 1)) {
                        // "<token>." is the same token (empty footer); "<token>.<x>" is a footer mutant, covered above
                        continue;
                    }
                    acc.eval();
                    acc.class("mutant:text-extension");
                    acc.nt(hash_of(&(c, &id)));
                    // appended to the whole token, and (single characters) to the payload segment before the footer
                    let mut variants = vec![format!("{text}{ext}")];
                    if ext.len() == 1 && !built.footer.is_empty() {
                        variants.push(format!("{}{ext}{}", &text[..pb64_end], &text[pb64_end..]));
                    }
                    for s2 in variants {
                        let r = s2.parse::<SealedToken<V<B>, $P, Raw, Vec<u8>>>().and_then(|t| t.unseal(&$unsealkey, &built.assertion, &NoValidation::dangerous_no_validation()));
                        if r.is_ok() {
                            let rc = ReplayCase { tok: c.clone(), mutant: id.clone() };
                            acc.fail(Fail::new(reject_sig::<B>(purpose, &id), format!("the token with {ext:?} appended to a segment was accepted: {}", s2.chars().rev().take(24).collect::<String>().chars().rev().collect::<String>())), serde_json::to_value(&rc).unwrap());
                        }
                    }
                }
            }
            // other keys
            for (id, k) in $keyvars {
                if !want(&id) {
                    continue;
                }
                acc.eval();
                acc.class(&format!("mutant:{}", id.class));
                acc.nt(hash_of(&(c, &id)));
                if attempt::<B, $P, Raw>(&built.payload, &built.footer, &built.assertion, &k, purpose).is_ok() {
                    let rc = ReplayCase { tok: c.clone(), mutant: id.clone() };
                    acc.fail(Fail::new(reject_sig::<B>(purpose, &id), format!("token accepted under another key ({:?})", id)), serde_json::to_value(&rc).unwrap());
                }
            }
            // other purpose, same version
            let id = MutId { class: "relabel-purpose".into(), pos: 0, arg: 0 };
            if want(&id) {
                acc.eval();
                acc.class("mutant:relabel-purpose");
                acc.nt(hash_of(&(c, &id)));
                if attempt::<B, $otherP, Raw>(&built.payload, &built.footer, &built.assertion, &$otherkey, $otherpurpose).is_ok() {
                    let rc = ReplayCase { tok: c.clone(), mutant: id.clone() };
                    acc.fail(Fail::new(reject_sig::<B>(purpose, &id), "payload accepted under the other purpose's header"), serde_json::to_value(&rc).unwrap());
                }
            }
            relabel_other_versions::<B>(acc, c, &built, filter);
            // after all the rejected mutants the genuine token must still unseal (nothing left behind)
            if filter.is_none() {
                let id = MutId { class: "control-after-failures".into(), pos: 0, arg: 0 };
                acc.eval();
                match attempt::<B, $P, Raw>(&built.payload, &built.footer, &built.assertion, &$unsealkey, purpose) {
                    Ok(cl) if cl.0 == m => acc.class("control-after-failures:accepted"),
                    _ => acc.fail(Fail::new(format!("C02/{}/{purpose}/control-after-failures/rejected", B::NAME), "after the rejected mutants the genuine token no longer unseals to its claims"), serde_json::to_value(&ReplayCase { tok: c.clone(), mutant: id }).unwrap()),
                }
            }
            acc.sample(|| json!({"backend": B::NAME, "purpose": purpose, "payload_len": built.payload.len(), "footer_len": built.footer.len(), "assertion_len": built.assertion.len(), "example_mutants": ["flip-tag@last-bit", "shift-body-to-footer k=1", "key-bit"]}));
        }};
    }
    if c.public {
        let sk = secret_key::<B>(&c.key);
        let pk = sk.public_key();
        let lk = local_key::<B>(&c.key);
        body!(Public, sk, pk, public_key_variants::<B>(c), Local, lk, "local");
    } else {
        let lk = local_key::<B>(&c.key);
        let sk = secret_key::<B>(&c.key);
        let pk = sk.public_key();
        let bits = acc.tier.pick(24, 256);
        body!(Local, lk, lk, local_key_variants::<B>(c, bits), Public, pk, "public");
    }
}

fn replay<B: Backend>(v: &Value, acc: &mut Acc) -> R {
    let rc: ReplayCase = serde_json::from_value(v.clone()).map_err(|e| Fail::new("HARNESS/replay-decode", format!("{e}")))?;
    rng::reseed_case(hash_of(&rc.tok));
    acc.tier = Tier::Thorough; // exhaustive bit positions so that any recorded position exists
    run_token::<B>(acc, &rc.tok, Some(&rc.mutant));
    if acc.violations.is_empty() && acc.evals == 0 {
        acc.tier = Tier::Quick;
        run_token::<B>(acc, &rc.tok, Some(&rc.mutant));
    }
    Ok(())
}

fn subs_for<B: Backend>(out: &mut Vec<SubCheck>) {
    for public in [false, true] {
        let p = if public { "public" } else { "local" };
        // (chunks, tokens per chunk) by verification cost
        let (chunks, per_q, per_t): (u32, usize, usize) = match (B::NAME, public) {
            (_, false) => (2, 20, 200),
            ("paseto-v3", true) => (8, 1, 6),
            ("paseto-v3-aws-lc", true) => (4, 3, 12),
            _ => (2, 10, 100),
        };
        for ch in 0..chunks {
            out.push(SubCheck::custom(
                format!("c02.mutants/{}/{p}/{ch}", B::NAME),
                if public { 10 } else { 4 },
                move |acc: &mut Acc| {
                    let n = acc.tier.pick(per_q, per_t);
                    let seed = mix(acc.seed, fnv(format!("c02/{}/{p}/{ch}", B::NAME).as_bytes()));
                    let toks = sample_values(&tok_strategy::<B>(public, false), seed, n);
                    for (j, t) in toks.iter().enumerate() {
                        rng::reseed_case(hash_of(t) ^ j as u64);
                        run_token::<B>(acc, t, None);
                    }
                    // one larger token per chunk (sampled bit positions)
                    let big = sample_values(&tok_strategy::<B>(public, true), seed ^ 0xb16, 1);
                    if !(public && B::NAME == "paseto-v3" && acc.tier == Tier::Quick && ch > 1) {
                        run_token::<B>(acc, &big[0], None);
                    }
                },
                |v: &Value, acc: &mut Acc| replay::<B>(v, acc),
            ));
        }
    }
}


// ---------------------------------------------------------------------------
// structured footers: the footer bytes that are authenticated must be the bytes RECEIVED,
// not a re-encoding of the decoded footer value.  Footer types whose decoding is not
// injective (JSON, or the harness's `Lossy`) admit different byte strings for one value.

/// decode folds ASCII case and drops trailing spaces; encode writes the stored bytes
#[derive(Clone, Debug, PartialEq)]
pub struct Lossy(pub Vec<u8>);

impl paseto_core::encodings::Footer for Lossy {
    fn encode(&self, mut w: impl paseto_core::encodings::WriteBytes) -> Result<(), Box<dyn std::error::Error + Send + Sync>> {
        w.write(&self.0);
        Ok(())
    }
    fn decode(f: &[u8]) -> Result<Self, Box<dyn std::error::Error + Send + Sync>> {
        let mut v = f.to_ascii_lowercase();
        while v.last() == Some(&b' ') {
            v.pop();
        }
        Ok(Lossy(v))
    }
}

#[derive(Clone, Debug, Serialize, Deserialize)]
pub struct TypedFooterCase {
    pub public: bool,
    pub key: KeySeed,
    pub msg: BytesSpec,
    /// 0 Lossy, 1 Json<Value>
    pub footer_ty: u8,
    pub kid: String,
    pub variant: u8,
}

pub fn typed_variants_pub(c: &TypedFooterCase) -> (Vec<u8>, Vec<(String, Vec<u8>)>) {
    typed_variants(c)
}

fn typed_variants(c: &TypedFooterCase) -> (Vec<u8>, Vec<(String, Vec<u8>)>) {
    if c.footer_ty == 0 {
        let canon = format!("kid={}", c.kid.to_ascii_lowercase()).into_bytes();
        let mut vs = vec![("trailing-space".to_string(), [&canon[..], b" "].concat()), ("trailing-spaces".to_string(), [&canon[..], b"   "].concat())];
        let mut up = canon.clone();
        up[0] = b'K';
        vs.push(("case-changed".to_string(), up));
        (canon, vs)
    } else {
        let kid = serde_json::to_string(&c.kid).unwrap();
        let canon = format!("{{\"kid\":{kid}}}").into_bytes();
        let vs = vec![
            ("whitespace".to_string(), format!("{{\"kid\": {kid}}}").into_bytes()),
            ("leading-space".to_string(), format!(" {{\"kid\":{kid}}}").into_bytes()),
            ("trailing-newline".to_string(), format!("{{\"kid\":{kid}}}\n").into_bytes()),
            ("shadowed-duplicate".to_string(), format!("{{\"kid\":\"attacker\",\"kid\":{kid}}}").into_bytes()),
            ("escaped-key".to_string(), format!("{{\"\\u006bid\":{kid}}}").into_bytes()),
        ];
        (canon, vs)
    }
}

fn typed_footer_run<B: Backend, P: Purpose, F: paseto_core::encodings::Footer + Clone + PartialEq>(
    acc: &mut Acc,
    c: &TypedFooterCase,
    sealing: &Key<V<B>, P::SealingKey>,
    unsealing: &Key<V<B>, P>,
    value: F,
    canon: &[u8],
    variants: &[(String, Vec<u8>)],
) -> R
where
    V<B>: SealingVersion<P>,
{
    let name = B::NAME;
    let purpose = if c.public { "public" } else { "local" };
    let m = c.msg.bytes();
    let sealed = UnsealedToken::<V<B>, P, Raw>::new(Raw(m.clone()))
        .with_footer(value.clone())
        .seal(sealing, &[])
        .map_err(|e| Fail::new(format!("C02/{name}/{purpose}/typed-footer/seal-failed"), format!("{e}")))?;
    let s = sealed.to_string();
    let h = format!("{}.{purpose}.", B::VER.v());
    let (payload, fbytes) = model::disassemble(&h, &s).map_err(|e| Fail::new("HARNESS/c02-typed", e))?;
    crate::ensure!(fbytes == canon, "HARNESS/c02-typed-canon", "footer encodes as {:?}", String::from_utf8_lossy(&fbytes));
    // control
    let ctl: SealedToken<V<B>, P, Raw, F> = s.parse().map_err(|e| Fail::new(format!("C02/{name}/{purpose}/typed-footer/control-parse"), format!("{e}")))?;
    let u = ctl.unseal(unsealing, &[], &NoValidation::dangerous_no_validation()).map_err(|e| Fail::new(format!("C02/{name}/{purpose}/typed-footer/control-rejected"), format!("{e}")))?;
    crate::ensure!(u.claims.0 == m && u.footer == value, format!("C02/{name}/{purpose}/typed-footer/control-differs"), "control differs");
    acc.eval();
    for (vi, (vname, bytes)) in variants.iter().enumerate() {
        if vi as u8 != c.variant % variants.len() as u8 && c.variant != 255 {
            continue;
        }
        let t = model::assemble(&h, &payload, bytes);
        let parsed: SealedToken<V<B>, P, Raw, F> = match t.parse() {
            Ok(p) => p,
            Err(_) => {
                acc.class("typed-footer:variant-does-not-decode");
                continue;
            }
        };
        if *parsed.unverified_footer() != value {
            acc.class("typed-footer:variant-decodes-differently");
        } else {
            acc.class("typed-footer:same-value-different-bytes");
        }
        acc.eval();
        acc.nt(hash_of(&(name, purpose, &c.key, &c.kid, c.footer_ty, vname)));
        if parsed.unseal(unsealing, &[], &NoValidation::dangerous_no_validation()).is_ok() {
            return Err(Fail::new(
                format!("C02/{name}/{purpose}/typed-footer-{vname}/accepted"),
                format!("token accepted although its footer bytes were changed from {:?} to {:?} (same decoded footer value)", String::from_utf8_lossy(canon), String::from_utf8_lossy(bytes)),
            ));
        }
    }
    Ok(())
}

fn typed_footer_case<B: Backend>(c: &TypedFooterCase, acc: &mut Acc) -> R {
    rng::reseed_case(hash_of(&(&c.key, &c.kid)));
    let (canon, variants) = typed_variants(c);
    macro_rules! go {
        ($P:ty, $sk:expr, $uk:expr) => {
            if c.footer_ty == 0 {
                typed_footer_run::<B, $P, Lossy>(acc, c, &$sk, &$uk, Lossy(canon.clone()), &canon, &variants)
            } else {
                let v: serde_json::Value = serde_json::from_slice(&canon).map_err(|e| Fail::new("HARNESS/c02-json", format!("{e}")))?;
                typed_footer_run::<B, $P, JsonFooter>(acc, c, &$sk, &$uk, JsonFooter(v), &canon, &variants)
            }
        };
    }
    if c.public {
        let sk = secret_key::<B>(&c.key);
        let pk = sk.public_key();
        go!(Public, sk, pk)
    } else {
        let k = local_key::<B>(&c.key);
        go!(Local, k, k)
    }
}

/// paseto_json::Json<Value> with the PartialEq the generic runner needs
#[derive(Clone, Debug, PartialEq)]
pub struct JsonFooter(pub serde_json::Value);
impl paseto_core::encodings::Footer for JsonFooter {
    fn encode(&self, w: impl paseto_core::encodings::WriteBytes) -> Result<(), Box<dyn std::error::Error + Send + Sync>> {
        paseto_core::encodings::Footer::encode(&paseto_json::Json(self.0.clone()), w)
    }
    fn decode(f: &[u8]) -> Result<Self, Box<dyn std::error::Error + Send + Sync>> {
        <paseto_json::Json<serde_json::Value> as paseto_core::encodings::Footer>::decode(f).map(|j| JsonFooter(j.0))
    }
}

fn typed_subs_for<B: Backend>(out: &mut Vec<SubCheck>) {
    let cases = match B::NAME {
        "paseto-v1" => (40, 400),
        "paseto-v3" => (60, 800),
        _ => (200, 4000),
    };
    out.push(SubCheck::prop(
        format!("c02.typed-footer/{}", B::NAME),
        5,
        cases,
        |_t| {
            (any::<bool>(), gens::key_seed(), gens::small_payload(), 0u8..2, "[a-z0-9-]{1,12}", prop_oneof![4 => any::<u8>(), 1 => Just(255u8)])
                .prop_map(|(public, key, msg, footer_ty, kid, variant)| TypedFooterCase { public, key, msg, footer_ty, kid, variant })
        },
        typed_footer_case::<B>,
    ));
}


// ---------------------------------------------------------------------------
// the payload-encoding suffix is part of the header and must be authenticated too

#[derive(Clone, Debug, Serialize, Deserialize)]
pub struct EncCase {
    pub public: bool,
    pub key: KeySeed,
    pub msg: BytesSpec,
    pub footer: BytesSpec,
    pub assertion: BytesSpec,
    /// seal under the suffixed encoding and offer to the plain one (true) or the reverse
    pub from_suffixed: bool,
}

fn enc_relabel<B: Backend, P: Purpose, A: BytesPayload, Z: BytesPayload>(acc: &mut Acc, c: &EncCase, sealing: &Key<V<B>, P::SealingKey>, unsealing: &Key<V<B>, P>) -> R
where
    V<B>: SealingVersion<P>,
{
    let name = B::NAME;
    let purpose = if c.public { "public" } else { "local" };
    let (m, f, i) = (c.msg.bytes(), c.footer.bytes(), c.assertion.bytes());
    let s = UnsealedToken::<V<B>, P, A>::new(A::from_bytes(m.clone()))
        .with_footer(f.clone())
        .seal(sealing, &i)
        .map_err(|e| Fail::new(format!("C02/{name}/{purpose}/encoding-relabel/seal-failed"), format!("{e}")))?
        .to_string();
    let ha = token_header::<A>(B::VER, purpose);
    let hz = token_header::<Z>(B::VER, purpose);
    // control under its own encoding
    let ctl: SealedToken<V<B>, P, A, Vec<u8>> = s.parse().map_err(|e| Fail::new(format!("C02/{name}/{purpose}/encoding-relabel/control-parse"), format!("{e}")))?;
    let u = ctl.unseal(unsealing, &i, &NoValidation::dangerous_no_validation()).map_err(|e| Fail::new(format!("C02/{name}/{purpose}/encoding-relabel/control-rejected"), format!("{e}")))?;
    crate::ensure!(u.claims.bytes() == &m[..], format!("C02/{name}/{purpose}/encoding-relabel/control-differs"), "control differs");
    // the own header must not parse as the other encoding, and the rewritten header must not verify
    crate::ensure!(s.parse::<SealedToken<V<B>, P, Z, Vec<u8>>>().is_err() || ha == hz, format!("C02/{name}/{purpose}/encoding-relabel/parsed-under-other-encoding"), "a {ha} token parses as {hz}");
    let relabelled = format!("{hz}{}", &s[ha.len()..]);
    acc.eval();
    acc.nt(hash_of(&(name, purpose, &c.key, &c.msg, c.from_suffixed)));
    acc.class("mutant:relabel-encoding-suffix");
    if let Ok(t) = relabelled.parse::<SealedToken<V<B>, P, Z, Vec<u8>>>() {
        if t.unseal(unsealing, &i, &NoValidation::dangerous_no_validation()).is_ok() {
            return Err(Fail::new(
                format!("C02/{name}/{purpose}/relabel-encoding/accepted"),
                format!("a token sealed under header {ha} is accepted after rewriting the header to {hz} (the encoding suffix is not authenticated)"),
            ));
        }
    }
    Ok(())
}

fn enc_case<B: Backend>(c: &EncCase, acc: &mut Acc) -> R {
    rng::reseed_case(hash_of(&(&c.key, &c.msg)));
    if c.public {
        let sk = secret_key::<B>(&c.key);
        let pk = sk.public_key();
        if c.from_suffixed { enc_relabel::<B, Public, RawS, Raw>(acc, c, &sk, &pk) } else { enc_relabel::<B, Public, Raw, RawS>(acc, c, &sk, &pk) }
    } else {
        let k = local_key::<B>(&c.key);
        if c.from_suffixed { enc_relabel::<B, Local, RawS, Raw>(acc, c, &k, &k) } else { enc_relabel::<B, Local, Raw, RawS>(acc, c, &k, &k) }
    }
}

/// the public modulus (256 bytes, big endian) of the v1 signing key derived from a key seed
pub fn rsa_modulus<B: Backend>(key: &KeySeed) -> Option<Vec<u8>> {
    let sk = secret_bytes(B::VER, key);
    let pk = public_bytes(B::VER, &sk);
    let rp = model::rsa_pub_from_spki(&model::pem_to_der(&pk)).ok()?;
    let mut n = rp.n.to_bytes_be();
    while n.len() < 256 {
        n.insert(0, 0);
    }
    Some(n)
}

pub fn enc_strategy<B: Backend>() -> impl Strategy<Value = EncCase> {
    (any::<bool>(), gens::key_seed(), gens::small_payload(), gens::footer(), gens::assertion(B::VER.has_assertion()), any::<bool>())
        .prop_map(|(public, key, msg, footer, assertion, from_suffixed)| EncCase { public, key, msg, footer, assertion, from_suffixed })
}

fn enc_subs_for<B: Backend>(out: &mut Vec<SubCheck>) {
    let cases = match B::NAME {
        "paseto-v1" => (40, 400),
        "paseto-v3" => (60, 800),
        _ => (200, 4000),
    };
    out.push(SubCheck::prop(
        format!("c02.encoding-relabel/{}", B::NAME),
        5,
        cases,
        |_t| {
            (any::<bool>(), gens::key_seed(), gens::small_payload(), gens::footer(), gens::assertion(B::VER.has_assertion()), any::<bool>())
                .prop_map(|(public, key, msg, footer, assertion, from_suffixed)| EncCase { public, key, msg, footer, assertion, from_suffixed })
        },
        enc_case::<B>,
    ));
}

// ---------------------------------------------------------------------------
// "moving bytes across the message / footer boundary" with the length field materialised:
// if any piece length were authenticated lossily (a bit dropped, truncated to fewer bytes,
// clamped), a genuine token's tag would also fit the re-split token built here.  For each
// family member the genuine token carries, at offset t of its authenticated middle piece, the
// 8 bytes that the *next* length field would have in the re-split token.

#[derive(Clone, Debug, Serialize, Deserialize)]
pub struct SpliceCase {
    pub public: bool,
    pub key: KeySeed,
    /// length of the genuine message
    pub len: u32,
    /// offset at which the forged token ends its message
    pub t: u32,
    /// the 8 bytes at offset t (the forged footer's length as a lossy encoder would write it)
    #[serde(with = "crate::util::hexser")]
    pub field: Vec<u8>,
    pub family: String,
    pub assertion: bool,
    pub content_seed: u32,
}

pub struct Splice {
    pub genuine_payload: Vec<u8>,
    pub forged_payload: Vec<u8>,
    pub forged_footer: Vec<u8>,
    pub assertion: Vec<u8>,
}

pub fn splice_cases<B: Backend>(seed: u64) -> Vec<SpliceCase> {
    let mut out = Vec::new();
    let mut k = 0u64;
    for public in [true, false] {
        if !public && !matches!(B::VER, model::Ver::V3 | model::Ver::V4) {
            continue; // v1 / v2 derive the nonce from the message: the ciphertext cannot be shaped
        }
        let mut push = |len: u32, t: u32, field: Vec<u8>, family: String| {
            for assertion in [false, true] {
                if assertion && !B::VER.has_assertion() {
                    continue;
                }
                k += 1;
                out.push(SpliceCase { public, key: KeySeed::from_u64(mix(seed, k)), len, t, field: field.clone(), family: family.clone(), assertion, content_seed: (mix(seed, k) >> 7) as u32 });
            }
        };
        // a bit of the length dropped / the length truncated to b bits: L and L - 2^b alias, 2^b aliases 0
        for b in 3u32..=16 {
            for r in [0u32, 5, 72] {
                push((1 << b) + r, r, vec![0u8; 8], format!("length-bit-{b}-dropped"));
            }
        }
        // the length clamped at cap: everything >= cap aliases, small lengths are exact
        for cap in [255u32, 65535] {
            push(cap + 50, cap + 10, 40u64.to_le_bytes().to_vec(), format!("length-clamped-at-{cap}"));
        }
    }
    out
}

/// build the genuine token with the library and the re-split token from its bytes
pub fn splice_build<B: Backend>(c: &SpliceCase) -> Result<Splice, Fail> {
    let name = B::NAME;
    let ver = B::VER;
    let (len, t) = (c.len as usize, c.t as usize);
    let assertion: Vec<u8> = if c.assertion { b"implicit".to_vec() } else { Vec::new() };
    let mut target = rng::det_bytes(c.content_seed as u64, 0x5b11, len);
    target[t..t + 8].copy_from_slice(&c.field);
    let (genuine_payload, mid_start, mid_end) = if c.public {
        let sk = secret_key::<B>(&c.key);
        let tok = UnsealedToken::<V<B>, Public, Raw>::new(Raw(target.clone())).seal(&sk, &assertion).map_err(|e| Fail::new(format!("C02/{name}/public/splice/seal-failed"), format!("{e}")))?.to_string();
        let (p, _) = model::disassemble(&model::header(ver, "public"), &tok).map_err(|e| Fail::new("HARNESS/splice-disassemble", e))?;
        (p, 0usize, len)
    } else {
        let lk = local_key::<B>(&c.key);
        let draw = rng::det_bytes(c.content_seed as u64, 0xd4a3, ver.local_draw_len());
        let seal = |m: Vec<u8>| -> Result<Vec<u8>, Fail> {
            let tok = UnsealedToken::<V<B>, Local, Raw>::new(Raw(m)).dangerous_seal_with_nonce(&lk, &assertion, draw.clone()).map_err(|e| Fail::new(format!("C02/{name}/local/splice/seal-failed"), format!("{e}")))?.to_string();
            model::disassemble(&model::header(ver, "local"), &tok).map(|x| x.0).map_err(|e| Fail::new("HARNESS/splice-disassemble", e))
        };
        let nl = ver.local_nonce_len();
        // keystream for this key and nonce = ciphertext of the all-zero message
        let zero = seal(vec![0u8; len])?;
        let ks = &zero[nl..nl + len];
        let m: Vec<u8> = target.iter().zip(ks).map(|(a, b)| a ^ b).collect();
        let p = seal(m)?;
        if p[nl..nl + len] != target[..] {
            return Err(Fail::new("HARNESS/splice-ciphertext", "could not shape the ciphertext (keystream depends on the message?)"));
        }
        (p, nl, nl + len)
    };
    let mut forged_payload = genuine_payload[..mid_start + t].to_vec();
    forged_payload.extend_from_slice(&genuine_payload[mid_end..]);
    let mut forged_footer = genuine_payload[mid_start + t + 8..mid_end].to_vec();
    forged_footer.extend_from_slice(&[0u8; 8]);
    Ok(Splice { genuine_payload, forged_payload, forged_footer, assertion })
}

fn splice_case<B: Backend>(c: &SpliceCase, acc: &mut Acc) -> R {
    let name = B::NAME;
    let purpose = if c.public { "public" } else { "local" };
    let sp = splice_build::<B>(c)?;
    let (ctl, forged) = if c.public {
        let pk = secret_key::<B>(&c.key).public_key();
        (attempt::<B, Public, Raw>(&sp.genuine_payload, b"", &sp.assertion, &pk, purpose).is_ok(), attempt::<B, Public, Raw>(&sp.forged_payload, &sp.forged_footer, &sp.assertion, &pk, purpose).is_ok())
    } else {
        let lk = local_key::<B>(&c.key);
        (attempt::<B, Local, Raw>(&sp.genuine_payload, b"", &sp.assertion, &lk, purpose).is_ok(), attempt::<B, Local, Raw>(&sp.forged_payload, &sp.forged_footer, &sp.assertion, &lk, purpose).is_ok())
    };
    ensure!(ctl, format!("C02/{name}/{purpose}/splice/control-rejected"), "the genuine token was rejected");
    ensure!(
        !forged,
        format!("C02/{name}/{purpose}/splice-{}/accepted", c.family.trim_end_matches(|ch: char| ch.is_ascii_digit() || ch == '-')),
        "a token that was never sealed is accepted: the genuine {}-byte message re-split at byte {} with the rest moved into the footer ({}) carries the genuine tag",
        c.len,
        c.t,
        c.family
    );
    acc.eval();
    acc.nt(hash_of(&(c.public, &c.family, c.len, c.t, c.assertion)));
    acc.class(&format!("splice:{}", if c.family.starts_with("length-bit") { "length-bit-dropped" } else { "length-clamped" }));
    acc.sample(|| json!({"backend": name, "purpose": purpose, "family": c.family, "genuine_message_len": c.len, "forged_message_len": c.t, "forged_footer_len": sp.forged_footer.len()}));
    Ok(())
}

fn splice_subs_for<B: Backend>(out: &mut Vec<SubCheck>) {
    out.push(SubCheck::custom(
        format!("c02.length-alias-splices/{}", B::NAME),
        if B::VER == model::Ver::V1 { 8 } else { 3 },
        |acc: &mut Acc| {
            for c in splice_cases::<B>(acc.seed) {
                acc.check(&c, |acc| splice_case::<B>(&c, acc));
            }
        },
        |v: &Value, acc: &mut Acc| {
            let c: SpliceCase = serde_json::from_value(v.clone()).map_err(|e| Fail::new("HARNESS/replay-decode", format!("{e}")))?;
            splice_case::<B>(&c, acc)
        },
    ));
}

pub fn def() -> PropertyDef {
    let mut subs = Vec::new();
    crate::for_backends!(B => subs_for::<B>(&mut subs));
    crate::for_backends!(B => typed_subs_for::<B>(&mut subs));
    crate::for_backends!(B => enc_subs_for::<B>(&mut subs));
    crate::for_backends!(B => splice_subs_for::<B>(&mut subs));
    PropertyDef {
        id: "C02",
        level: "fault_enumeration",
        rule: "for each generated sealed token (proptest-sampled key, message, footer, assertion): the full mutation catalogue - every single-bit flip of payload, footer and assertion (exhaustive for tokens up to 176 B quick / 2 KiB thorough, edges + sample beyond), every truncation length front and back, 1-3 byte extensions at each field boundary, 1-3 byte interior deletions at each field boundary, text-level extensions of the serialised token (extra '.'-separated sections, trailing characters), 1-3 byte shifts across body|footer|assertion, footer/assertion add-remove-replace-swap, other key, one-bit key neighbours, negated P-384 point, other purpose header, other version header with the same key bytes, payload-encoding suffix rewritten in the header (tokens sealed under a suffixed Payload type offered as the plain one and vice versa), v1/v2 sealing with an assertion; structured footers (JSON and a case/space-insensitive footer type): every different byte string that decodes to the SAME footer value (whitespace, trailing newline, shadowed duplicate key, escaped key, changed case) must be rejected too; length-alias splices: genuine tokens (public: every back end; local: v3/v4, ciphertext shaped through the nonce path) whose middle piece carries at offset t the bytes a lossy length field would have, re-split at t with the remainder moved into the footer - would authenticate iff some piece length were encoded with a dropped bit (bits 3..16), truncated, or clamped (255, 65535); oracle: every mutant rejected, unmutated control accepted with the original claims. Non-trivial iff the mutant is long enough to reach the cryptographic check; distinct by (token, class, position)",
        assumptions: vec![
            "mutants are offered through FromStr + unseal (the public path); a mutant equal to the original tuple is dropped by byte comparison",
            "ECDSA (r, n-s) malleability is not a single-bit neighbour and is not demanded",
        ],
        subs,
    }
}
