//! C03 — tokens are bit-exact PASETO; every back end agrees with the spec (reference model)
//! and with its sibling.

use paseto_core::tokens::{SealedToken, UnsealedToken};
use paseto_core::validation::NoValidation;
use paseto_core::version::{Local, Public};
use proptest::prelude::*;
use serde::{Deserialize, Serialize};
use serde_json::json;

use crate::backends::*;
use crate::engine::*;
use crate::ensure;
use crate::gens::{self, BytesSpec};
use crate::refmodel::{self as model, Ver};
use crate::rng;

#[derive(Clone, Debug, Serialize, Deserialize, PartialEq, Eq, Hash)]
pub enum NonceKind {
    Seed(u32),
    Zero,
    Ones,
    /// counter block (last 16 bytes of the nonce / forced IV) = 00..00 ff..ff (low 64 bits wrap after block 0)
    WrapLow64,
    /// counter block = ff..ff f0 + k  (128-bit wrap within the message)
    WrapNear128(u8),
    /// counter block = ff..ff (wraps to zero after one block)
    WrapAll,
}

impl NonceKind {
    pub fn bytes(&self, n: usize) -> Vec<u8> {
        let mut v = match self {
            NonceKind::Seed(s) => rng::det_bytes(*s as u64, 0x2222, n),
            NonceKind::Zero => vec![0u8; n],
            NonceKind::Ones => vec![0xff; n],
            _ => rng::det_bytes(0x77, 0x2222, n),
        };
        if n >= 16 {
            let tail = &mut v[n - 16..];
            match self {
                NonceKind::WrapLow64 => {
                    tail[..8].fill(0);
                    tail[8..].fill(0xff);
                }
                NonceKind::WrapNear128(k) => {
                    tail.fill(0xff);
                    tail[15] = 0xf0u8.wrapping_add(*k % 16);
                }
                NonceKind::WrapAll => tail.fill(0xff),
                _ => {}
            }
        }
        v
    }
    pub fn is_wrap(&self) -> bool {
        matches!(self, NonceKind::Ones | NonceKind::WrapLow64 | NonceKind::WrapNear128(_) | NonceKind::WrapAll)
    }
}

pub fn nonce_kind() -> impl Strategy<Value = NonceKind> {
    prop_oneof![
        8 => any::<u32>().prop_map(NonceKind::Seed),
        1 => Just(NonceKind::Zero),
        1 => Just(NonceKind::Ones),
        2 => Just(NonceKind::WrapLow64),
        2 => (0u8..16).prop_map(NonceKind::WrapNear128),
        1 => Just(NonceKind::WrapAll),
    ]
}

#[derive(Clone, Debug, Serialize, Deserialize)]
pub struct LCase {
    #[serde(default)]
    pub suffix: bool,
    pub key: KeySeed,
    pub msg: BytesSpec,
    pub footer: BytesSpec,
    pub assertion: BytesSpec,
    pub nonce: NonceKind,
}

fn lstrat<B: Backend>(tier: Tier) -> impl Strategy<Value = LCase> {
    let msg = prop_oneof![
        3 => gens::small_payload(),
        3 => (33u32..=400, 0u8..4, any::<u32>()).prop_map(|(len, fill, seed)| BytesSpec { len, fill, seed }),
        1 => gens::payload(tier),
    ];
    (gens::key_seed(), msg, gens::footer(), gens::assertion(B::VER.has_assertion()), nonce_kind(), prop::bool::weighted(0.25))
        .prop_map(|(key, msg, footer, assertion, nonce, suffix)| LCase { suffix, key, msg, footer, assertion, nonce })
}

fn decrypt_on<T: Backend, M: BytesPayload>(token: &str, key_raw: &[u8; 32], i: &[u8]) -> Result<(Vec<u8>, Vec<u8>), String> {
    let k = key_from_bytes::<V<T>, Local>(key_raw).map_err(|e| format!("{e}"))?;
    let t: SealedToken<V<T>, Local, M, Vec<u8>> = token.parse().map_err(|e| format!("parse: {e}"))?;
    let u = t.unseal(&k, i, &NoValidation::dangerous_no_validation()).map_err(|e| format!("{e}"))?;
    Ok((u.claims.bytes().to_vec(), u.footer))
}

pub fn local_case<B: Backend>(c: &LCase, acc: &mut Acc) -> R {
    if c.suffix {
        model::with_suffix(<RawS as paseto_core::encodings::Payload>::SUFFIX, || local_case_m::<B, RawS>(c, acc))
    } else {
        local_case_m::<B, Raw>(c, acc)
    }
}

fn local_case_m<B: Backend, M: BytesPayload>(c: &LCase, acc: &mut Acc) -> R {
    let name = B::NAME;
    let ver = B::VER;
    let kraw = local_key_bytes(&c.key);
    let key = local_key::<B>(&c.key);
    let (m, f, i) = (c.msg.bytes(), c.footer.bytes(), c.assertion.bytes());

    // (1) impl -> spec: the token for this draw is the one the model prescribes
    let draw = c.nonce.bytes(ver.local_draw_len());
    let lib = UnsealedToken::<V<B>, Local, M>::new(M::from_bytes(m.clone()))
        .with_footer(f.clone())
        .dangerous_seal_with_nonce(&key, &i, draw.clone())
        .map_err(|e| Fail::new(format!("C03/{name}/local/seal-failed"), format!("{e}")))?
        .to_string();
    let spec = model::local_encrypt(ver, &kraw, &draw, &m, &f, &i).map_err(|e| Fail::new("HARNESS/model-local", e))?;
    if lib != spec {
        let (lp, _) = model::disassemble(&model::header(ver, "local"), &lib).unwrap_or_default();
        let (sp, _) = model::disassemble(&model::header(ver, "local"), &spec).unwrap_or_default();
        let first = lp.iter().zip(sp.iter()).position(|(a, b)| a != b).unwrap_or(lp.len().min(sp.len()));
        let nl = ver.local_nonce_len();
        let region = if lp.len() != sp.len() {
            "length"
        } else if first < nl {
            "nonce"
        } else if first >= lp.len().saturating_sub(ver.local_tag_len()) {
            "tag"
        } else if c.nonce.is_wrap() {
            "ciphertext-after-counter-wrap"
        } else {
            "ciphertext"
        };
        return Err(Fail::new(
            format!("C03/{name}/local/impl-vs-spec/{region}"),
            format!("library token differs from the specification's at payload byte {first} ({} vs {} bytes) for nonce kind {:?}", lp.len(), sp.len(), c.nonce),
        ));
    }

    // (2) spec -> impl: a conforming token with a model-chosen nonce unseals to the same claims.
    // For v1 the nonce is embedded, so this is where its counter block n[16..32] can be aimed at wrap.
    let n = c.nonce.bytes(ver.local_nonce_len());
    let payload = model::local_encrypt_with_nonce(ver, &kraw, &n, &m, &f, &i).map_err(|e| Fail::new("HARNESS/model-local2", e))?;
    let tok = model::assemble(&model::header(ver, "local"), &payload, &f);
    let embedded_wrap = c.nonce.is_wrap() && matches!(ver, Ver::V1) && m.len() > 16;
    match decrypt_on::<B, M>(&tok, &kraw, &i) {
        Ok((mm, ff)) => {
            if mm != m || ff != f {
                let first = mm.iter().zip(m.iter()).position(|(a, b)| a != b).unwrap_or(0);
                return Err(Fail::new(
                    format!("C03/{name}/local/spec-vs-impl/{}", if embedded_wrap { "claims-differ-after-counter-wrap" } else { "claims-differ" }),
                    format!("a specification-conforming token decrypts to different claims (first difference at byte {first} of {}; nonce kind {:?})", m.len(), c.nonce),
                ));
            }
        }
        Err(e) => {
            return Err(Fail::new(format!("C03/{name}/local/spec-vs-impl/rejected"), format!("a specification-conforming token was rejected: {e} (nonce kind {:?})", c.nonce)));
        }
    }

    // (3) sibling: accepts this back end's encrypt() output (library randomness) and yields the same claims
    let mut sib_err: Option<Fail> = None;
    let own = UnsealedToken::<V<B>, Local, M>::new(M::from_bytes(m.clone())).with_footer(f.clone()).seal(&key, &i).map(|t| t.to_string());
    if let Ok(own) = own {
        crate::for_backends!(T => {
            if T::VER == ver && T::NAME != name && sib_err.is_none() {
                match decrypt_on::<T, M>(&own, &kraw, &i) {
                    Ok((mm, ff)) if mm == m && ff == f => acc.class("sibling:accepts"),
                    Ok(_) => sib_err = Some(Fail::new(format!("C03/{name}/local/sibling/{}/claims-differ", T::NAME), "sibling decrypts this back end's token to different claims")),
                    Err(e) => sib_err = Some(Fail::new(format!("C03/{name}/local/sibling/{}/rejected", T::NAME), format!("sibling rejects this back end's token: {e}"))),
                }
            }
        });
    }
    if let Some(f) = sib_err {
        return Err(f);
    }

    acc.eval();
    let block = if ver.nist() { 16 } else { 64 };
    if m.len() >= 2 * block || c.nonce.is_wrap() || !f.is_empty() || !i.is_empty() {
        acc.nt(hash_of(&(&c.key, &c.msg, &c.footer, &c.assertion, &c.nonce)));
    }
    acc.class(if c.nonce.is_wrap() { "nonce:counter-wrap-kind" } else { "nonce:other" });
    if embedded_wrap {
        acc.class("v1:embedded-counter-wrap-inside-message");
    }
    acc.class(if m.len() >= 2 * block { "msg:>=2-blocks" } else { "msg:<2-blocks" });
    acc.class(if M::SUFFIX.is_empty() { "encoding-suffix:none" } else { "encoding-suffix:non-empty" });
    acc.sample(|| json!({"backend": name, "msg_len": m.len(), "nonce_kind": format!("{:?}", c.nonce), "footer_len": f.len(), "assertion_len": i.len(), "token_prefix": lib.chars().take(56).collect::<String>()}));
    Ok(())
}

// ---------------------------------------------------------------------------
// v3: derived counter block forced through the IV hook

#[derive(Clone, Debug, Serialize, Deserialize)]
pub struct IvCase {
    pub key: KeySeed,
    pub msg: BytesSpec,
    pub footer: BytesSpec,
    pub assertion: BytesSpec,
    pub nonce_seed: u32,
    pub iv: NonceKind,
}

/// the forced block applies to every hooked crate on this thread, so that a sibling asked to
/// unwrap the same blob derives the same counter block
fn set_iv<B: Backend>(iv: Option<[u8; 16]>) {
    paseto_v3::verif::set_iv(iv);
    paseto_v3_aws_lc::verif::set_iv(iv);
    paseto_v1::verif::set_iv(iv);
}

pub struct IvGuard<B: Backend>(std::marker::PhantomData<B>);
impl<B: Backend> IvGuard<B> {
    pub fn new(iv: [u8; 16]) -> Self {
        set_iv::<B>(Some(iv));
        IvGuard(std::marker::PhantomData)
    }
}
impl<B: Backend> Drop for IvGuard<B> {
    fn drop(&mut self) {
        set_iv::<B>(None);
    }
}

fn forced_iv_case<B: Backend>(c: &IvCase, acc: &mut Acc) -> R {
    let name = B::NAME;
    let kraw = local_key_bytes(&c.key);
    let key = local_key::<B>(&c.key);
    let (m, f, i) = (c.msg.bytes(), c.footer.bytes(), c.assertion.bytes());
    let n = rng::det_bytes(c.nonce_seed as u64, 0x1f, 32);
    let iv: [u8; 16] = c.iv.bytes(16).try_into().unwrap();
    let spec = model::v3_local_encrypt_forced_iv(&kraw, &n, &iv, &m, &f, &i);
    let _g = IvGuard::<B>::new(iv);
    let lib = UnsealedToken::<V<B>, Local, Raw>::new(Raw(m.clone()))
        .with_footer(f.clone())
        .dangerous_seal_with_nonce(&key, &i, n.clone())
        .map_err(|e| Fail::new(format!("C03/{name}/local-forced-iv/seal-failed"), format!("{e}")))?
        .to_string();
    ensure!(
        lib == spec,
        format!("C03/{name}/local-forced-iv/impl-vs-spec/{}", if c.iv.is_wrap() { "ciphertext-after-counter-wrap" } else { "differs" }),
        "with the derived counter block forced to {} the library's ciphertext differs from AES-256-CTR with a 128-bit big-endian counter ({} byte message)",
        hex::encode(iv),
        m.len()
    );
    match decrypt_on::<B, Raw>(&spec, &kraw, &i) {
        Ok((mm, ff)) if mm == m && ff == f => {}
        Ok(_) => return Err(Fail::new(format!("C03/{name}/local-forced-iv/spec-vs-impl/claims-differ"), "claims differ")),
        Err(e) => return Err(Fail::new(format!("C03/{name}/local-forced-iv/spec-vs-impl/rejected"), e)),
    }
    acc.eval();
    if c.iv.is_wrap() && m.len() > 16 {
        acc.nt(hash_of(&(&c.key, &c.msg, &c.iv, c.nonce_seed)));
        acc.class("forced-iv:wrap-inside-message");
    } else {
        acc.class("forced-iv:no-wrap");
    }
    acc.sample(|| json!({"backend": name, "forced_iv": hex::encode(iv), "msg_len": m.len()}));
    Ok(())
}

// ---------------------------------------------------------------------------
// public

#[derive(Clone, Debug, Serialize, Deserialize)]
pub struct PCase {
    #[serde(default)]
    pub suffix: bool,
    /// sign with: 0 the key as parsed, 1 a clone of it, 2 a clone of a clone
    #[serde(default)]
    pub key_variant: u8,
    pub key: KeySeed,
    pub msg: BytesSpec,
    pub footer: BytesSpec,
    pub assertion: BytesSpec,
    /// which independent signer builds the spec->impl token: 0 aws-lc/libsodium, 1 RustCrypto low-S, 2 RustCrypto high-S
    pub signer: u8,
}

fn pstrat<B: Backend>(_tier: Tier) -> impl Strategy<Value = PCase> {
    (gens::key_seed(), gens::small_payload(), gens::footer(), gens::assertion(B::VER.has_assertion()), 0u8..3, prop::bool::weighted(0.25), 0u8..3)
        .prop_map(|(key, msg, footer, assertion, signer, suffix, key_variant)| PCase { suffix, key_variant, key, msg, footer, assertion, signer })
}

fn verify_on<T: Backend, M: BytesPayload>(token: &str, pk_raw: &[u8], i: &[u8]) -> Result<(Vec<u8>, Vec<u8>), String> {
    let k = key_from_bytes::<V<T>, Public>(pk_raw).map_err(|e| format!("key: {e}"))?;
    let t: SealedToken<V<T>, Public, M, Vec<u8>> = token.parse().map_err(|e| format!("parse: {e}"))?;
    let u = t.unseal(&k, i, &NoValidation::dangerous_no_validation()).map_err(|e| format!("{e}"))?;
    Ok((u.claims.bytes().to_vec(), u.footer))
}

fn independent_verify(ver: Ver, pk_raw: &[u8], pre: &[u8], sig: &[u8], backend: &str) -> Result<(), String> {
    match ver {
        Ver::V2 | Ver::V4 => {
            if model::ed25519_verify(pk_raw, pre, sig) { Ok(()) } else { Err("libsodium rejects the Ed25519 signature".into()) }
        }
        Ver::V3 => {
            // the verifier from the *other* library family must accept; both are consulted
            let a = model::p384_verify_awslc(pk_raw, pre, sig);
            let r = model::p384_verify_rc(pk_raw, pre, sig);
            if backend == "paseto-v3" && !a {
                return Err("aws-lc rejects the ECDSA signature".into());
            }
            if backend == "paseto-v3-aws-lc" && !r {
                return Err("RustCrypto p384 rejects the ECDSA signature".into());
            }
            if a && r { Ok(()) } else { Err(format!("independent verifiers disagree (aws-lc {a}, p384 {r})")) }
        }
        Ver::V1 => {
            let rp = model::rsa_pub_from_spki(pk_raw)?;
            if model::rsa_pss_verify_awslc(&rp.pkcs1_der, pre, sig) { Ok(()) } else { Err("aws-lc rejects the RSA-PSS signature".into()) }
        }
    }
}

pub fn public_case<B: Backend>(c: &PCase, acc: &mut Acc) -> R {
    if c.suffix {
        model::with_suffix(<RawS as paseto_core::encodings::Payload>::SUFFIX, || public_case_m::<B, RawS>(c, acc))
    } else {
        public_case_m::<B, Raw>(c, acc)
    }
}

fn public_case_m<B: Backend, M: BytesPayload>(c: &PCase, acc: &mut Acc) -> R {
    let name = B::NAME;
    let ver = B::VER;
    let sk_raw = secret_bytes(ver, &c.key);
    let pk_raw = public_bytes(ver, &sk_raw);
    let sk0 = secret_key::<B>(&c.key);
    // a copy of a key is the same key: tokens signed by a clone must be the specification's too
    let sk = match c.key_variant % 3 {
        0 => sk0,
        1 => sk0.clone(),
        _ => sk0.clone().clone(),
    };
    let (m, f, i) = (c.msg.bytes(), c.footer.bytes(), c.assertion.bytes());
    let pre = model::public_preauth(ver, &pk_raw, &m, &f, &i).map_err(|e| Fail::new("HARNESS/model-preauth", e))?;

    // (1) impl -> spec
    let lib = UnsealedToken::<V<B>, Public, M>::new(M::from_bytes(m.clone()))
        .with_footer(f.clone())
        .seal(&sk, &i)
        .map_err(|e| Fail::new(format!("C03/{name}/public/sign-failed"), format!("{e}")))?
        .to_string();
    let (lm, lsig, lf) = model::public_split(ver, &lib).map_err(|e| Fail::new(format!("C03/{name}/public/impl-vs-spec/layout"), e))?;
    ensure!(lm == m && lf == f, format!("C03/{name}/public/impl-vs-spec/message-or-footer"), "token does not carry the message and footer verbatim");
    if matches!(ver, Ver::V2 | Ver::V4) {
        let want = model::ed25519_sign(&sk_raw, &pre).map_err(|e| Fail::new("HARNESS/model-ed25519", e))?;
        ensure!(
            lsig[..] == want[..],
            format!("C03/{name}/public/impl-vs-spec/signature-bytes"),
            "Ed25519 signature is not byte-identical to the reference signature over the specification's PAE"
        );
    }
    independent_verify(ver, &pk_raw, &pre, &lsig, name)
        .map_err(|e| Fail::new(format!("C03/{name}/public/impl-vs-spec/independent-verifier"), format!("{e} (over the specification's PAE)")))?;

    // (2) spec -> impl: a token signed by an independent signer is accepted with the same claims
    let (sig, signer_name): (Vec<u8>, &str) = match ver {
        Ver::V2 | Ver::V4 => (model::ed25519_sign(&sk_raw, &pre).map_err(|e| Fail::new("HARNESS/sign", e))?.to_vec(), "libsodium"),
        Ver::V3 => match c.signer {
            0 => (model::p384_sign_awslc(&sk_raw, &pre).map_err(|e| Fail::new("HARNESS/sign", e))?, "aws-lc-random-k"),
            1 => (model::p384_sign_rc(&sk_raw, &pre, false).map_err(|e| Fail::new("HARNESS/sign", e))?, "p384-low-s"),
            _ => (model::p384_sign_rc(&sk_raw, &pre, true).map_err(|e| Fail::new("HARNESS/sign", e))?, "p384-high-s"),
        },
        Ver::V1 => (model::rsa_pss_sign_awslc(&model::pem_to_der(&sk_raw), &pre).map_err(|e| Fail::new("HARNESS/sign", e))?, "aws-lc-pss"),
    };
    let spec_tok = model::public_assemble(ver, &m, &sig, &f);
    match verify_on::<B, M>(&spec_tok, &pk_raw, &i) {
        Ok((mm, ff)) if mm == m && ff == f => {}
        Ok(_) => return Err(Fail::new(format!("C03/{name}/public/spec-vs-impl/claims-differ"), "claims differ")),
        Err(e) => {
            return Err(Fail::new(
                format!("C03/{name}/public/spec-vs-impl/rejected/{signer_name}"),
                format!("a specification-conforming token signed by {signer_name} was rejected: {e}"),
            ));
        }
    }

    // (3) sibling accepts this back end's token
    let mut sib_err: Option<Fail> = None;
    crate::for_backends!(T => {
        if T::VER == ver && T::NAME != name && sib_err.is_none() {
            match verify_on::<T, M>(&lib, &pk_raw, &i) {
                Ok((mm, ff)) if mm == m && ff == f => acc.class("sibling:accepts"),
                Ok(_) => sib_err = Some(Fail::new(format!("C03/{name}/public/sibling/{}/claims-differ", T::NAME), "claims differ")),
                Err(e) => sib_err = Some(Fail::new(format!("C03/{name}/public/sibling/{}/rejected", T::NAME), format!("sibling rejects this back end's token: {e}"))),
            }
        }
    });
    if let Some(f) = sib_err {
        return Err(f);
    }
    acc.eval();
    if m.len() > 32 || !f.is_empty() || !i.is_empty() {
        acc.nt(hash_of(&(&c.key, &c.msg, &c.footer, &c.assertion, c.signer)));
    }
    acc.class(&format!("signer:{signer_name}"));
    acc.class(["signing-key:parsed", "signing-key:clone", "signing-key:clone-of-clone"][(c.key_variant % 3) as usize]);
    acc.sample(|| json!({"backend": name, "msg_len": m.len(), "footer_len": f.len(), "assertion_len": i.len(), "independent_signer": signer_name}));
    Ok(())
}

// ---------------------------------------------------------------------------
// conforming tokens from other implementations, read through the typed (JSON) payload and
// footer types: the JSON is formatted the way *other* serialisers format it

#[derive(Clone, Debug, Serialize, Deserialize)]
pub struct ForeignCase {
    pub public: bool,
    pub key: KeySeed,
    pub style: u8,
    pub text: String,
    pub n: i32,
    pub assertion: BytesSpec,
    pub nonce_seed: u32,
}

/// one JSON object, formatted in a foreign but valid way; the value it denotes is whatever
/// serde_json reads from it
pub fn foreign_json(style: u8, text: &str, n: i32) -> String {
    let t = serde_json::to_string(text).unwrap();
    match style % 9 {
        0 => format!("{{\"kid\": {t}, \"n\": {n}}}"),                       // python json.dumps separators
        1 => format!("{{\"n\":{n},\"kid\":{t}}}"),                          // members not in sorted order
        2 => format!(" {{\"kid\":{t},\"n\":{n}}}\n"),                       // surrounding whitespace
        3 => format!("{{\"kid\":{t},\"url\":\"a\\/b\\u0041\"}}"),          // PHP-style escaped slash, \u escape
        4 => format!("{{\"kid\":{t},\"n\":{n}.0e0,\"z\":-0}}"),               // number spellings
        5 => format!("{{\"kid\":\"dup\",\"kid\":{t},\"n\":{n}}}"),            // duplicate member
        6 => format!("{{\n  \"kid\": {t},\n  \"n\": {n}\n}}"),              // pretty printed
        7 => format!("{{\"kid\":{t},\"n\":{n},\"wpk\":null,\"extra\":[ ]}}"), // unknown members, spaces in arrays
        _ => format!("{{\"kid\":{t},\"n\":{n}}}"),                          // this library's own formatting (control)
    }
}

fn foreign_case<B: Backend>(c: &ForeignCase, acc: &mut Acc) -> R {
    use paseto_json::Json;
    let name = B::NAME;
    let ver = B::VER;
    let purpose = if c.public { "public" } else { "local" };
    let ftext = foreign_json(c.style, &c.text, c.n);
    let mtext = foreign_json(c.style.wrapping_add(3), &c.text, c.n.wrapping_add(1));
    let (m, f, i) = (mtext.as_bytes().to_vec(), ftext.as_bytes().to_vec(), c.assertion.bytes());
    let want_m: serde_json::Value = serde_json::from_slice(&m).map_err(|e| Fail::new("HARNESS/foreign-json", format!("{e}")))?;
    let want_f: serde_json::Value = serde_json::from_slice(&f).map_err(|e| Fail::new("HARNESS/foreign-json", format!("{e}")))?;
    let (tok, un) = if c.public {
        let sk_raw = secret_bytes(ver, &c.key);
        let pk_raw = public_bytes(ver, &sk_raw);
        let pre = model::public_preauth(ver, &pk_raw, &m, &f, &i).map_err(|e| Fail::new("HARNESS/model-preauth", e))?;
        let sig: Vec<u8> = match ver {
            Ver::V2 | Ver::V4 => model::ed25519_sign(&sk_raw, &pre).map_err(|e| Fail::new("HARNESS/sign", e))?.to_vec(),
            Ver::V3 => model::p384_sign_awslc(&sk_raw, &pre).map_err(|e| Fail::new("HARNESS/sign", e))?,
            Ver::V1 => model::rsa_pss_sign_awslc(&model::pem_to_der(&sk_raw), &pre).map_err(|e| Fail::new("HARNESS/sign", e))?,
        };
        let tok = model::public_assemble(ver, &m, &sig, &f);
        let k = key_from_bytes::<V<B>, Public>(&pk_raw).map_err(|e| Fail::new("HARNESS/key", format!("{e}")))?;
        let un = tok
            .parse::<SealedToken<V<B>, Public, Json<serde_json::Value>, Json<serde_json::Value>>>()
            .map_err(|e| format!("parse: {e}"))
            .and_then(|t| {
                let shown = t.to_string();
                t.unseal(&k, &i, &NoValidation::dangerous_no_validation()).map(|u| (u.claims.0, u.footer.0, shown)).map_err(|e| format!("{e}"))
            });
        (tok, un)
    } else {
        let kraw = local_key_bytes(&c.key);
        let n = rng::det_bytes(c.nonce_seed as u64, 0xf0e, ver.local_nonce_len());
        let payload = model::local_encrypt_with_nonce(ver, &kraw, &n, &m, &f, &i).map_err(|e| Fail::new("HARNESS/model-local2", e))?;
        let tok = model::assemble(&model::header(ver, "local"), &payload, &f);
        let k = key_from_bytes::<V<B>, Local>(&kraw).map_err(|e| Fail::new("HARNESS/key", format!("{e}")))?;
        let un = tok
            .parse::<SealedToken<V<B>, Local, Json<serde_json::Value>, Json<serde_json::Value>>>()
            .map_err(|e| format!("parse: {e}"))
            .and_then(|t| {
                let shown = t.to_string();
                t.unseal(&k, &i, &NoValidation::dangerous_no_validation()).map(|u| (u.claims.0, u.footer.0, shown)).map_err(|e| format!("{e}"))
            });
        (tok, un)
    };
    // the same token read through the registered-claims payload type when its message is a full
    // claims object of a foreign issuer (all seven claims, unknown members anywhere)
    if c.style % 3 == 0 {
        // (member names as other serialisers spell them: PHP's json_encode escapes '/' and non-ASCII, and
        // an escape may stand for any character of a registered name as well)
        let (iss_name, custom_name) = match c.style % 9 {
            0 => ("iss", "role"),
            3 => ("\\u0069ss", "https:\\/\\/example.com\\/roles"),
            _ => ("is\\u0073", "r\\u00f4le"),
        };
        let claims_msg = format!("{{\"{custom_name}\":\"x\",\"{iss_name}\":{t},\"sub\":\"s\",\"aud\":\"a\",\"mid\":[1,2],\"exp\":\"2039-01-01T00:00:00Z\",\"nbf\":\"2020-01-01T00:00:00Z\",\"iat\":\"2021-01-01T00:00:00+00:00\",\"jti\":\"id\",\"data\":{n},\"last\":null}}", t = serde_json::to_string(&c.text).unwrap(), n = c.n);
        let m2 = claims_msg.as_bytes().to_vec();
        let r: Result<paseto_json::RegisteredClaims, String> = if c.public {
            let sk_raw = secret_bytes(ver, &c.key);
            let pk_raw = public_bytes(ver, &sk_raw);
            let sk = secret_key::<B>(&c.key);
            UnsealedToken::<V<B>, Public, Raw>::new(Raw(m2.clone()))
                .with_footer(f.clone())
                .seal(&sk, &i)
                .map_err(|e| format!("seal: {e}"))
                .and_then(|t| t.to_string().parse::<SealedToken<V<B>, Public, paseto_json::RegisteredClaims, Vec<u8>>>().map_err(|e| format!("parse: {e}")))
                .and_then(|t| key_from_bytes::<V<B>, Public>(&pk_raw).map_err(|e| format!("{e}")).and_then(|k| t.unseal(&k, &i, &NoValidation::dangerous_no_validation()).map(|u| u.claims).map_err(|e| format!("{e}"))))
        } else {
            let k = local_key::<B>(&c.key);
            UnsealedToken::<V<B>, Local, Raw>::new(Raw(m2.clone()))
                .with_footer(f.clone())
                .seal(&k, &i)
                .map_err(|e| format!("seal: {e}"))
                .and_then(|t| t.to_string().parse::<SealedToken<V<B>, Local, paseto_json::RegisteredClaims, Vec<u8>>>().map_err(|e| format!("parse: {e}")))
                .and_then(|t| t.unseal(&k, &i, &NoValidation::dangerous_no_validation()).map(|u| u.claims).map_err(|e| format!("{e}")))
        };
        match r {
            Ok(cl) => ensure!(cl.iss.as_deref() == Some(c.text.as_str()) && cl.jti.as_deref() == Some("id") && cl.exp.is_some() && cl.nbf.is_some() && cl.iat.is_some(), format!("C03/{name}/{purpose}/foreign-json/registered-claims-differ"), "registered claims read from a full foreign claims object differ"),
            Err(e) => return Err(Fail::new(format!("C03/{name}/{purpose}/foreign-json/registered-claims-rejected"), format!("an authentic token whose message is a full claims object with unknown members ({claims_msg:.120}) is rejected when read as RegisteredClaims: {e}"))),
        }
        acc.class("foreign-json:full-claims-object-as-RegisteredClaims");
    }
    match un {
        Ok((mm, ff, shown)) => {
            ensure!(mm == want_m && ff == want_f, format!("C03/{name}/{purpose}/foreign-json/claims-differ"), "typed claims / footer differ from the JSON values in the token");
            ensure!(shown == tok, format!("C03/{name}/{purpose}/foreign-json/reserialise"), "the parsed token does not print as the string it was parsed from");
        }
        Err(e) => {
            return Err(Fail::new(
                format!("C03/{name}/{purpose}/foreign-json/rejected"),
                format!("a specification-conforming token whose JSON footer is formatted as {ftext:?} was rejected through the typed footer: {e}"),
            ));
        }
    }
    acc.eval();
    if c.style % 9 != 8 {
        acc.nt(hash_of(&(c.public, &c.key, c.style % 9, &c.text, c.n)));
    }
    acc.class(&format!("foreign-json-style:{}", c.style % 9));
    acc.sample(|| json!({"backend": name, "purpose": purpose, "footer": ftext, "message": mtext}));
    Ok(())
}

fn subs_for<B: Backend>(out: &mut Vec<SubCheck>) {
    out.push(SubCheck::prop(
        format!("c03.foreign-json/{}", B::NAME),
        if B::VER == Ver::V1 { 6 } else { 2 },
        if B::VER == Ver::V1 { (60, 600) } else { (300, 6000) },
        |_t| {
            (any::<bool>(), gens::key_seed(), 0u8..9, prop_oneof![Just(String::new()), "[a-zA-Z0-9 /._-]{0,24}", "\\PC{0,12}"], any::<i32>(), gens::assertion(B::VER.has_assertion()), any::<u32>())
                .prop_map(|(public, key, style, text, n, assertion, nonce_seed)| ForeignCase { public, key, style, text, n, assertion, nonce_seed })
        },
        foreign_case::<B>,
    ));
    out.push(SubCheck::prop(
        format!("c03.local/{}", B::NAME),
        3,
        (1500, 30000),
        |tier| lstrat::<B>(tier),
        |c: &LCase, acc: &mut Acc| {
            rng::reseed_case(hash_of(&(&c.key, &c.msg)));
            local_case::<B>(c, acc)
        },
    ));
    if B::VER == Ver::V3 {
        out.push(SubCheck::prop(
            format!("c03.local-forced-iv/{}", B::NAME),
            2,
            (400, 8000),
            |_tier| {
                (gens::key_seed(), (17u32..=200, 0u8..3, any::<u32>()).prop_map(|(len, fill, seed)| BytesSpec { len, fill, seed }), gens::footer(), gens::footer(), any::<u32>(), nonce_kind())
                    .prop_map(|(key, msg, footer, assertion, nonce_seed, iv)| IvCase { key, msg, footer, assertion, nonce_seed, iv })
            },
            |c: &IvCase, acc: &mut Acc| forced_iv_case::<B>(c, acc),
        ));
    }
    let cases = match B::NAME {
        "paseto-v1" => (250, 3000),
        "paseto-v3" => (300, 6000),
        "paseto-v3-aws-lc" => (600, 12000),
        _ => (1500, 30000),
    };
    out.push(SubCheck::prop(
        format!("c03.public/{}", B::NAME),
        10,
        cases,
        |tier| pstrat::<B>(tier),
        |c: &PCase, acc: &mut Acc| {
            rng::reseed_case(hash_of(&(&c.key, &c.msg)));
            public_case::<B>(c, acc)
        },
    ));
}

pub fn def() -> PropertyDef {
    let mut subs = Vec::new();
    crate::for_backends!(B => subs_for::<B>(&mut subs));
    PropertyDef {
        id: "C03",
        level: "exploration",
        rule: "proptest cases (key, message, footer, assertion, nonce kind {seeded, all-zero, all-ones, counter block 00..00ff..ff, ff..f0+k, ff..ff}); three relations per case: (1) the library's token for a draw equals the reference model's token byte for byte (Ed25519 signatures byte-identical; ECDSA / RSA-PSS accepted by an independent verifier over the model's PAE), (2) a model-built conforming token (model-chosen nonce incl. v1 embedded counter blocks at the 64/128-bit wrap; independent signer incl. high-S and random-k ECDSA) unseals to the same claims, (3) the sibling back end accepts this back end's encrypt()/sign() output. v3 derived counter blocks are forced through the paseto_verif IV hook. A further family reads model-built tokens whose JSON message and footer are formatted the way other serialisers do (spaces after separators, unsorted or duplicate members, escaped slashes, number spellings, surrounding whitespace, unknown members) through Json<Value> payload and footer types: they must unseal to the values the JSON denotes and print as the string parsed. Non-trivial iff message >= 2 cipher blocks, or a counter-wrap nonce kind, or non-empty footer/assertion",
        assumptions: vec![
            "the reference model is validated against all upstream vectors at start-up",
            "v3 counter wrap is reached on the component through the paseto_verif IV hook (measure 2^-48 otherwise)",
        ],
        subs,
    }
}
