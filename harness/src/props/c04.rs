//! C04 — no input makes parsing, unsealing, unwrapping or key use panic or corrupt memory.
//! In-process structured generation with catch_unwind (panic location = signature); every
//! sub-check runs in a child process so aborts / segfaults are observed too.  The thorough tier
//! adds libFuzzer + AddressSanitizer campaigns (see /verif/fuzz and ./check).

use paseto_core::key::{HasKey, Key, KeyType};
use paseto_core::paserk::{KeyId, KeyText, PasswordWrappedKey, PieWrappedKey, SealedKey};
use paseto_core::tokens::{SealedToken, UnsealedToken};
use paseto_core::validation::NoValidation;
use paseto_core::version::{Local, PkePublic, PkeSecret, Public, Secret};
use proptest::prelude::*;
use serde::{Deserialize, Serialize};
use serde_json::json;

use crate::backends::*;
use crate::engine::*;
use crate::gens;
use crate::props::c08;
use crate::props::c09::{self, Edit};
use crate::refmodel::{self as model, Ver};
use crate::texttypes;
use crate::util::{b64_decode, b64_encode, catch, hexser, panic_site};

pub struct Fx<B: Backend> {
    lk: LocalKeyOf<B>,
    sk: SecretKeyOf<B>,
    pk: PublicKeyOf<B>,
    pke_sk: PkeSecretOf<B>,
    token_local: String,
    token_public: String,
    sealed: String,
    valid: Vec<(&'static str, String)>,
    headers: Vec<String>,
    own_headers: Vec<String>,
    shapes: Vec<c08::BytesCase>,
    mem_budget: u64,
}

pub fn fixture<B: Backend>(seed: u64, tier: Tier) -> Fx<B> {
    let ks = KeySeed::from_u64(seed);
    let sk = secret_key::<B>(&ks);
    let (pke_sk, pke_pk, _, _) = pke_pair::<B>(&ks);
    let lk = local_key::<B>(&ks);
    let mut valid = Vec::new();
    for i in 0..3u64 {
        valid.extend(texttypes::valid_strings::<B>(&KeySeed::from_u64(seed ^ (i * 977))));
    }
    let mut types = Vec::new();
    texttypes::types_for::<B>(&mut types);
    Fx {
        token_local: UnsealedToken::<V<B>, Local, Raw>::new(Raw(b"{}".to_vec())).seal(&lk, &[]).map(|t| t.to_string()).unwrap_or_default(),
        token_public: UnsealedToken::<V<B>, Public, Raw>::new(Raw(b"{}".to_vec())).seal(&sk, &[]).map(|t| t.to_string()).unwrap_or_default(),
        sealed: lk.clone().seal(&pke_pk).map(|s| s.to_string()).unwrap_or_default(),
        pk: sk.public_key(),
        lk,
        sk,
        pke_sk,
        valid,
        headers: texttypes::all_types().iter().map(|t| t.header.clone()).collect(),
        own_headers: {
            let mut h: Vec<String> = types.iter().map(|t| t.header.clone()).collect();
            h.sort();
            h.dedup();
            h
        },
        shapes: c08::shapes_pub::<B>(seed, Tier::Quick),
        mem_budget: tier.pick(8 << 20, 64 << 20),
    }
}

#[derive(Clone, Debug, Serialize, Deserialize, PartialEq, Eq, Hash)]
pub enum Input {
    /// every decoded payload length under one of this back end's headers
    HeaderBytes { header: u8, len: u16, fill: u8, seed: u32, footer: bool },
    /// structured raw key bytes (index into the C08 shape catalogue)
    KeyShape(u16),
    /// raw key bytes
    KeyBytes {
        kind: u8,
        #[serde(with = "hexser")]
        bytes: Vec<u8>,
    },
    /// a valid library-produced string with edits
    Edited { base: u16, edits: Vec<Edit> },
    Arbitrary(String),
}

fn input_strategy() -> impl Strategy<Value = Input> {
    prop_oneof![
        6 => (any::<u8>(), 0u16..=700, 0u8..4, any::<u32>(), any::<bool>()).prop_map(|(header, len, fill, seed, footer)| Input::HeaderBytes { header, len, fill, seed, footer }),
        3 => any::<u16>().prop_map(Input::KeyShape),
        2 => (0u8..5, proptest::collection::vec(any::<u8>(), 0..130)).prop_map(|(kind, bytes)| Input::KeyBytes { kind, bytes }),
        6 => (any::<u16>(), proptest::collection::vec(c09::edit_strategy_pub(), 0..=4)).prop_map(|(base, edits)| Input::Edited { base, edits }),
        1 => "\\PC{0,80}".prop_map(Input::Arbitrary),
        1 => "[kv][1-4]\\.(local|public|secret|lid|pid|sid|seal|local-pw|secret-pw|local-wrap\\.pie|secret-wrap\\.pie)\\.[A-Za-z0-9_=+/.-]{0,120}".prop_map(Input::Arbitrary),
    ]
}

/// PBKW blobs whose cost parameters exceed the stated budget are resource exhaustion, not covered
fn pbkw_within_budget(ver: Ver, text: &str, mem_budget: u64) -> bool {
    // the body is everything after the two-dot header ("kN.local-pw."), as the parser sees it
    let body = text.match_indices('.').nth(1).map(|(i, _)| &text[i + 1..]).unwrap_or("");
    // a body the strict reference decoder refuses but the parser accepted: cost unknown, do not run the KDF
    let Some(blob) = b64_decode(body) else { return false };
    let sl = model::pbkw_salt_len(ver);
    let pl = if ver.nist() { 4 } else { 16 };
    if blob.len() < sl + pl {
        return true; // no parameter field to read: rejected before any KDF
    }
    let p = &blob[sl..sl + pl];
    if ver.nist() {
        u32::from_be_bytes(p.try_into().unwrap()) <= 10_000
    } else {
        u64::from_be_bytes(p[..8].try_into().unwrap()) <= mem_budget && u32::from_be_bytes(p[8..12].try_into().unwrap()) <= 3 && u32::from_be_bytes(p[12..].try_into().unwrap()) <= 64
    }
}

/// the cost parameters a blob carries, read from its prefix alone (what `params()` returns even
/// for blobs too short to unwrap), within the stated budget?
fn pbkw_params_within_budget(ver: Ver, text: &str, mem_budget: u64) -> bool {
    let body = text.match_indices('.').nth(1).map(|(i, _)| &text[i + 1..]).unwrap_or("");
    let Some(blob) = b64_decode(body) else { return false };
    let sl = model::pbkw_salt_len(ver);
    let pl = if ver.nist() { 4 } else { 16 };
    if blob.len() < sl + pl {
        return false;
    }
    let p = &blob[sl..sl + pl];
    if ver.nist() {
        u32::from_be_bytes(p.try_into().unwrap()) <= 10_000
    } else {
        u64::from_be_bytes(p[..8].try_into().unwrap()) <= mem_budget && u32::from_be_bytes(p[8..12].try_into().unwrap()) <= 3 && u32::from_be_bytes(p[12..].try_into().unwrap()) <= 64
    }
}

/// stages reached are pushed to `st`
fn use_key<B: Backend, K: KeyType>(k: &Key<V<B>, K>, st: &mut Vec<&'static str>)
where
    V<B>: HasKey<K>,
    <V<B> as HasKey<K>>::Key: Clone,
{
    st.push("key-accepted");
    let _ = k.expose_key().to_string();
    let _ = k.id().to_string();
    let c = k.clone();
    let _ = key_bytes(&c);
}

fn exercise_key_bytes<B: Backend>(fx: &Fx<B>, kind: &str, bytes: &[u8], st: &mut Vec<&'static str>) {
    match kind {
        "Local" => {
            if let Ok(k) = key_from_bytes::<V<B>, Local>(bytes) {
                use_key::<B, Local>(&k, st);
                if let Ok(t) = UnsealedToken::<V<B>, Local, Raw>::new(Raw(b"m".to_vec())).seal(&k, &[]) {
                    let _ = t.unseal(&k, &[], &NoValidation::dangerous_no_validation());
                }
                let _ = fx.token_local.parse::<SealedToken<V<B>, Local, Raw, Vec<u8>>>().map(|t| t.unseal(&k, &[], &NoValidation::dangerous_no_validation()).is_ok());
                let _ = fx.sk.clone().wrap_pie(&k).map(|w| w.unwrap(&k).is_ok());
            }
        }
        "Public" => {
            if let Ok(k) = key_from_bytes::<V<B>, Public>(bytes) {
                use_key::<B, Public>(&k, st);
                let _ = k.to_string();
                let _ = fx.token_public.parse::<SealedToken<V<B>, Public, Raw, Vec<u8>>>().map(|t| t.unseal(&k, &[], &NoValidation::dangerous_no_validation()).is_ok());
            }
        }
        "Secret" => {
            if let Ok(k) = key_from_bytes::<V<B>, Secret>(bytes) {
                use_key::<B, Secret>(&k, st);
                let pk = k.public_key();
                let _ = pk.to_string();
                if let Ok(t) = UnsealedToken::<V<B>, Public, Raw>::new(Raw(b"m".to_vec())).seal(&k, &[]) {
                    let _ = t.unseal(&pk, &[], &NoValidation::dangerous_no_validation());
                }
                let _ = k.clone().wrap_pie(&fx.lk).map(|w| w.to_string());
            }
        }
        "PkePublic" => {
            if let Ok(k) = key_from_bytes::<V<B>, PkePublic>(bytes) {
                use_key::<B, PkePublic>(&k, st);
                let _ = fx.lk.clone().seal(&k).map(|s| s.to_string());
            }
        }
        _ => {
            if let Ok(k) = key_from_bytes::<V<B>, PkeSecret>(bytes) {
                use_key::<B, PkeSecret>(&k, st);
                let _ = fx.sealed.parse::<SealedKey<V<B>>>().map(|s| s.unseal(&k).is_ok());
            }
        }
    }
}

/// offer one string to every parser of back end B and use whatever parses
fn exercise_string<B: Backend>(fx: &Fx<B>, s: &str, st: &mut Vec<&'static str>) {
    let nv = NoValidation::<Raw>::dangerous_no_validation;
    if let Ok(t) = s.parse::<SealedToken<V<B>, Local, Raw, Vec<u8>>>() {
        st.push("token.local-parsed");
        let _ = t.to_string();
        let _ = t.unverified_footer().len();
        if t.unseal(&fx.lk, b"", &nv()).is_ok() {
            st.push("token.local-unsealed");
        }
        let _ = s.parse::<SealedToken<V<B>, Local, Raw, Vec<u8>>>().map(|t| t.unseal(&fx.lk, b"assertion", &nv()).is_ok());
    }
    let _ = s.parse::<SealedToken<V<B>, Local, Raw, ()>>().map(|t| t.to_string());
    let _ = s.parse::<SealedToken<V<B>, Local, paseto_json::Json<serde_json::Value>, paseto_json::Json<serde_json::Value>>>().map(|t| t.unseal(&fx.lk, b"", &NoValidation::dangerous_no_validation()).is_ok());
    if let Ok(t) = s.parse::<SealedToken<V<B>, Public, Raw, Vec<u8>>>() {
        st.push("token.public-parsed");
        let _ = t.to_string();
        if t.unseal(&fx.pk, b"", &nv()).is_ok() {
            st.push("token.public-unsealed");
        }
        let _ = s.parse::<SealedToken<V<B>, Public, Raw, Vec<u8>>>().map(|t| t.unseal(&fx.pk, b"assertion", &nv()).is_ok());
    }
    let _ = s.parse::<SealedToken<V<B>, Public, paseto_json::RegisteredClaims, ()>>().map(|t| t.unseal(&fx.pk, b"", &NoValidation::dangerous_no_validation()).is_ok());
    macro_rules! keytext {
        ($K:ty, $kind:expr) => {
            if let Ok(kt) = s.parse::<KeyText<V<B>, $K>>() {
                st.push("keytext-parsed");
                let _ = kt.to_string();
                // the id of a key text is infallible public API, whatever the text carries
                let _ = paseto_core::paserk::KeyId::<V<B>, $K>::from(&kt).to_string();
                let raw = kt.as_raw_bytes().to_vec();
                exercise_key_bytes::<B>(fx, $kind, &raw, st);
            }
            let _ = s.parse::<Key<V<B>, $K>>().map(|k| key_bytes(&k));
        };
    }
    keytext!(Local, "Local");
    keytext!(Public, "Public");
    keytext!(Secret, "Secret");
    if let Ok(kt) = s.parse::<KeyText<V<B>, PkePublic>>() {
        exercise_key_bytes::<B>(fx, "PkePublic", kt.as_raw_bytes(), st);
    }
    if let Ok(kt) = s.parse::<KeyText<V<B>, PkeSecret>>() {
        exercise_key_bytes::<B>(fx, "PkeSecret", kt.as_raw_bytes(), st);
    }
    macro_rules! id {
        ($K:ty) => {
            if let Ok(i) = s.parse::<KeyId<V<B>, $K>>() {
                st.push("id-parsed");
                let _ = i.to_string();
                let _ = i == i.clone();
            }
        };
    }
    id!(Local);
    id!(Public);
    id!(Secret);
    if let Ok(w) = s.parse::<PieWrappedKey<V<B>, Local>>() {
        st.push("pie-parsed");
        let _ = w.to_string();
        if w.unwrap(&fx.lk).is_ok() {
            st.push("pie-unwrapped");
        }
    }
    if let Ok(w) = s.parse::<PieWrappedKey<V<B>, Secret>>() {
        st.push("pie-parsed");
        let _ = w.to_string();
        if w.unwrap(&fx.lk).is_ok() {
            st.push("pie-unwrapped");
        }
    }
    macro_rules! pw {
        ($K:ty) => {
            if let Ok(w) = s.parse::<PasswordWrappedKey<V<B>, $K>>() {
                st.push("pw-parsed");
                let _ = w.to_string();
                let params = w.params();
                // parameters read from a parsed blob are the only way to choose non-default costs:
                // wrapping with them returns Ok or Err
                if let Ok(p) = &params {
                    if pbkw_params_within_budget(B::VER, s, fx.mem_budget) {
                        st.push("pw-rewrapped-with-parsed-params");
                        if let Ok(again) = fx.lk.clone().password_wrap_with_params(b"correct horse", p) {
                            let _ = again.to_string();
                        }
                    }
                }
                if pbkw_within_budget(B::VER, s, fx.mem_budget) {
                    st.push("pw-kdf-ran");
                    if w.unwrap(b"correct horse").is_ok() {
                        st.push("pw-unwrapped");
                    }
                } else {
                    st.push("pw-skipped-over-budget");
                }
            }
        };
    }
    pw!(Local);
    pw!(Secret);
    if let Ok(w) = s.parse::<SealedKey<V<B>>>() {
        st.push("seal-parsed");
        let _ = w.to_string();
        let _ = w.clone().to_string();
        if w.unseal(&fx.pke_sk).is_ok() {
            st.push("seal-unsealed");
        }
    }
}

fn materialise<B: Backend>(fx: &Fx<B>, i: &Input) -> (Option<String>, Option<(String, Vec<u8>)>) {
    match i {
        Input::HeaderBytes { header, len, fill, seed, footer } => {
            let h = &fx.own_headers[*header as usize % fx.own_headers.len()];
            let n = *len as usize;
            let bytes = match fill {
                1 => vec![0u8; n],
                2 => vec![0xffu8; n],
                3 => {
                    // mutated-valid: a valid body of this header, resized and with one byte changed
                    let base = fx.valid.iter().find(|(_, s)| s.starts_with(h.as_str())).map(|(_, s)| s.clone()).unwrap_or_default();
                    let body = base.get(h.len()..).unwrap_or("").split('.').next().unwrap_or("");
                    let mut b = b64_decode(body).unwrap_or_default();
                    b.resize(n, (*seed % 251) as u8);
                    if n > 0 {
                        let p = *seed as usize % n;
                        b[p] ^= 1 << (*seed % 8);
                    }
                    b
                }
                _ => crate::rng::det_bytes(*seed as u64, 0xc04, n),
            };
            let mut s = format!("{h}{}", b64_encode(&bytes));
            if *footer {
                s.push('.');
                s.push_str(&b64_encode(&crate::rng::det_bytes(*seed as u64, 0xf, (*seed % 40) as usize)));
            }
            (Some(s), None)
        }
        Input::KeyShape(ix) => {
            let c = &fx.shapes[gens::idx(*ix, fx.shapes.len())];
            (None, Some((c.kind.clone(), c.bytes.clone())))
        }
        Input::KeyBytes { kind, bytes } => (None, Some((["Local", "Public", "Secret", "PkePublic", "PkeSecret"][*kind as usize % 5].to_string(), bytes.clone()))),
        Input::Edited { base, edits } => {
            let mut s = fx.valid[gens::idx(*base, fx.valid.len())].1.clone();
            for e in edits {
                s = c09::apply_pub(&s, e, &fx.headers);
            }
            (Some(s), None)
        }
        Input::Arbitrary(s) => (Some(s.clone()), None),
    }
}

fn run_input<B: Backend>(fx: &Fx<B>, i: &Input, acc: &mut Acc) -> R {
    let name = B::NAME;
    let (s, kb) = materialise::<B>(fx, i);
    let stages: Vec<&'static str>;
    let r = catch(|| {
        let mut st = Vec::new();
        if let Some(s) = &s {
            exercise_string::<B>(fx, s, &mut st);
        }
        if let Some((kind, bytes)) = &kb {
            exercise_key_bytes::<B>(fx, kind, bytes, &mut st);
        }
        st
    });
    match r {
        Ok(st) => stages = st,
        Err(loc) => {
            let shown = s.clone().unwrap_or_else(|| kb.as_ref().map(|(k, b)| format!("{k} key bytes {}", hex::encode(b))).unwrap_or_default());
            return Err(Fail::new(
                format!("C04/{name}/panic/{}", panic_site(&loc)),
                format!("input {:?} made the library panic at {loc}", shown.chars().take(160).collect::<String>()),
            ));
        }
    }
    acc.eval();
    if !stages.is_empty() {
        let len_class = s.as_ref().map(|s| s.len()).or(kb.as_ref().map(|k| k.1.len())).unwrap_or(0) / 64;
        acc.nt(hash_of(&(name, &stages, len_class, std::mem::discriminant(i))));
        for st in &stages {
            acc.class(&format!("stage:{st}"));
        }
    } else {
        acc.class("stage:rejected-by-every-parser");
    }
    acc.class(match i {
        Input::HeaderBytes { .. } => "input:header+bytes",
        Input::KeyShape(_) => "input:key-shape",
        Input::KeyBytes { .. } => "input:key-bytes",
        Input::Edited { .. } => "input:edited-valid",
        Input::Arbitrary(_) => "input:arbitrary",
    });
    if !stages.is_empty() {
        acc.sample(|| json!({"backend": name, "input": s.clone().map(|x| x.chars().take(70).collect::<String>()), "key_bytes_len": kb.as_ref().map(|k| k.1.len()), "stages": stages}));
    }
    Ok(())
}

/// every decoded length 0..=700 under every header x 3 contents (enumerated, not sampled)
fn sweep_lengths<B: Backend>(acc: &mut Acc) {
    let fx = fixture::<B>(mix(acc.seed, 4), acc.tier);
    let step = acc.tier.pick(1usize, 1);
    for h in 0..fx.own_headers.len() {
        for len in (0..=700usize).step_by(step) {
            for fill in 0..acc.tier.pick(3u8, 4) {
                let i = Input::HeaderBytes { header: h as u8, len: len as u16, fill, seed: (len * 31 + h) as u32, footer: false };
                acc.check(&i, |acc| run_input::<B>(&fx, &i, acc));
            }
        }
    }
    // beyond 700 bytes: the lengths around the powers of two and a few in between, up to 64 KiB
    // (fixed-size buffers sized for "the largest real value" overflow there)
    let mut big: Vec<usize> = Vec::new();
    for e in 10..=16u32 {
        for d in -2i64..=2 {
            big.push(((1i64 << e) + d).min(65535) as usize);
        }
    }
    big.extend([900usize, 1500, 2350, 3000, 3063, 3064, 3065, 3066, 3067, 3142, 3200, 5000, 6000, 12000, 50000]);
    big.sort();
    big.dedup();
    for h in 0..fx.own_headers.len() {
        for len in &big {
            for fill in 0..2u8 {
                let i = Input::HeaderBytes { header: h as u8, len: *len as u16, fill, seed: (*len * 31 + h) as u32, footer: false };
                acc.check(&i, |acc| run_input::<B>(&fx, &i, acc));
            }
        }
    }
    for (ix, _) in fx.shapes.iter().enumerate() {
        let i = Input::KeyShape(((ix << 16) / fx.shapes.len().max(1) + 1).min(65535) as u16);
        acc.check(&i, |acc| run_input::<B>(&fx, &i, acc));
    }
    acc.exhaustive.push(format!("{}: every decoded length 0..=700 x contents and 50 lengths up to 64 KiB under each of {} headers; every C08 key shape", B::NAME, fx.own_headers.len()));
    println!("PROGRESS sweep done");
}


// ---------------------------------------------------------------------------
// validators on authentic tokens never panic, whatever the (authenticated) claims say

#[derive(Clone, Debug, Serialize, Deserialize, PartialEq, Eq, Hash)]
pub struct ValCase {
    /// timestamps as (seconds, nanos) over jiff's whole range
    pub exp: Option<(i64, u32)>,
    pub nbf: Option<(i64, u32)>,
    pub now_s: i64,
    pub leeway_s: u64,
    pub leeway_ns: u32,
    pub end_to_end: bool,
}

const JIFF_MIN_S: i64 = -377705023201;
const JIFF_MAX_S: i64 = 253402207200;

fn extreme_ts(leeway_s: u64) -> impl Strategy<Value = Option<(i64, u32)>> {
    let l = leeway_s as i64;
    prop_oneof![
        2 => Just(None),
        2 => Just(Some((JIFF_MAX_S, 999_999_999))),
        2 => Just(Some((JIFF_MIN_S, 0))),
        3 => (0i64..=3, 0u32..1_000_000_000).prop_map(move |(d, ns)| Some((JIFF_MAX_S - d * l.max(1), ns))),
        3 => (0i64..=3, 0u32..1_000_000_000).prop_map(move |(d, ns)| Some((JIFF_MIN_S + d * l.max(1), ns))),
        2 => (0i64..=200_000, 0u32..1_000_000_000).prop_map(|(d, ns)| Some((JIFF_MAX_S - d, ns))),
        2 => (0i64..=200_000, 0u32..1_000_000_000).prop_map(|(d, ns)| Some((JIFF_MIN_S + d, ns))),
        3 => (-10_000_000_000i64..10_000_000_000, 0u32..1_000_000_000).prop_map(|(s, ns)| Some((s, ns))),
    ]
}

fn val_strategy() -> impl Strategy<Value = ValCase> {
    prop_oneof![Just(0u64), Just(1u64), 1u64..=600, 601u64..=100_000_000].prop_flat_map(|leeway_s| {
        (extreme_ts(leeway_s), extreme_ts(leeway_s), -10_000_000_000i64..10_000_000_000, 0u32..1_000_000_000, prop::bool::weighted(0.1))
            .prop_map(move |(exp, nbf, now_s, leeway_ns, end_to_end)| ValCase { exp, nbf, now_s, leeway_s, leeway_ns, end_to_end })
    })
}

fn val_case(c: &ValCase, acc: &mut Acc) -> R {
    use paseto_json::jiff::Timestamp;
    use paseto_json::{HasExpiry, RegisteredClaims, Time, Validate};
    let ts = |t: &Option<(i64, u32)>| t.and_then(|(s, ns)| Timestamp::new(s, ns as i32).ok());
    let claims = RegisteredClaims { exp: ts(&c.exp), nbf: ts(&c.nbf), iat: ts(&c.exp), ..Default::default() };
    let now = Timestamp::from_second(c.now_s).map_err(|e| Fail::new("HARNESS/c04-now", format!("{e}")))?;
    let leeway = std::time::Duration::new(c.leeway_s, c.leeway_ns);
    let r = catch(|| {
        let a = Time::valid_at(now).validate(&claims).is_ok();
        let b = Time::valid_at(now).with_leeway(leeway).validate(&claims).is_ok();
        let d = Time::valid_at(now).with_leeway(leeway).and_then(HasExpiry).validate(&claims).is_ok();
        // wire round trip of the extreme claims
        let mut wire = Vec::new();
        let enc = paseto_core::encodings::Payload::encode(claims.clone(), &mut wire).is_ok();
        let dec = <RegisteredClaims as paseto_core::encodings::Payload>::decode(&wire).is_ok();
        (a, b, d, enc, dec)
    });
    let r = r.map_err(|loc| {
        Fail::new(
            format!("C04/validators/panic/{}", panic_site(&loc)),
            format!("validating claims exp={:?} nbf={:?} at now={} with leeway {}.{:09}s panicked at {loc}", c.exp, c.nbf, c.now_s, c.leeway_s, c.leeway_ns),
        )
    })?;
    if c.end_to_end {
        // the same through unseal on an authentic token
        type B = BV4;
        let ks = KeySeed::from_u64(hash_of(c));
        let k = local_key::<B>(&ks);
        let r2 = catch(|| {
            let t = UnsealedToken::<V<B>, Local, RegisteredClaims>::new(claims.clone()).seal(&k, &[]).map(|t| t.to_string());
            if let Ok(t) = t {
                if let Ok(p) = t.parse::<SealedToken<V<B>, Local, RegisteredClaims, ()>>() {
                    let _ = p.unseal(&k, &[], &Time::valid_at(now).with_leeway(leeway)).is_ok();
                }
            }
        });
        r2.map_err(|loc| Fail::new(format!("C04/paseto-v4/unseal-with-validator/panic/{}", panic_site(&loc)), format!("unsealing an authentic token with extreme claims exp={:?} nbf={:?} panicked at {loc}", c.exp, c.nbf)))?;
    }
    acc.eval();
    let near_edge = |t: &Option<(i64, u32)>| t.map(|(s, _)| s > JIFF_MAX_S - 400_000_000 || s < JIFF_MIN_S + 400_000_000).unwrap_or(false);
    if near_edge(&c.exp) || near_edge(&c.nbf) {
        acc.nt(hash_of(c));
        acc.class("validators:claims-near-the-timestamp-range-edge");
    } else {
        acc.class("validators:ordinary-claims");
    }
    acc.class(if r.1 { "validators:leeway-accepts" } else { "validators:leeway-rejects" });
    acc.sample(|| json!({"exp": format!("{:?}", c.exp), "nbf": format!("{:?}", c.nbf), "now_s": c.now_s, "leeway_s": c.leeway_s, "results": format!("{r:?}")}));
    Ok(())
}

// ---------------------------------------------------------------------------
// byte-level substitutions in valid strings of every kind: format tags and length-like bytes
// take every value (a decoder's `match` over an encoding byte must cover all 256 of them)

fn byte_substitutions<B: Backend>(acc: &mut Acc) {
    let fx = fixture::<B>(mix(acc.seed, 6), acc.tier);
    let ver = B::VER;
    let reduced: Vec<u8> = vec![0, 1, 2, 3, 4, 5, 6, 7, 8, 0x7f, 0x80, 0xff];
    let mut seen_kinds: std::collections::BTreeSet<&'static str> = std::collections::BTreeSet::new();
    for (kind, text) in fx.valid.clone() {
        if !seen_kinds.insert(kind) {
            continue; // one string per kind
        }
        // header = up to and including the last '.' before the (first) body segment
        let dots: Vec<usize> = text.match_indices('.').map(|(i, _)| i).collect();
        let head_dots = if kind.starts_with("pie.") { 3 } else { 2 };
        if dots.len() < head_dots {
            continue;
        }
        let body_start = dots[head_dots - 1] + 1;
        let body_end = dots.get(head_dots).copied().unwrap_or(text.len());
        let Some(body) = b64_decode(&text[body_start..body_end]) else { continue };
        let n = body.len();
        if n == 0 {
            continue;
        }
        let bounds: Vec<usize> = match kind {
            "token.local" | "token.local+suffix" => vec![0, ver.local_nonce_len().min(n - 1), n.saturating_sub(ver.local_tag_len())],
            "token.public" | "token.public+suffix" => vec![0, n.saturating_sub(ver.sig_len()), n.saturating_sub(ver.sig_len() / 2)],
            "pie.local" | "pie.secret" => crate::props::c06::boundaries(ver, 0, n),
            "pw.local" | "pw.secret" => crate::props::c06::boundaries(ver, 1, n),
            "seal" => crate::props::c06::boundaries(ver, 2, n),
            _ => vec![0],
        };
        let expensive = ver == Ver::V1 && (kind == "seal" || kind.starts_with("token.public") || kind.contains("secret"));
        let mut offsets: Vec<usize> = vec![0, 1, 16, 24, 31, 32, 33, 47, 48, 49, 63, 64, 65, 79, 80, 81, 96, 97];
        offsets.extend([65usize, 64, 49, 48, 33, 32, 1].iter().filter(|d| **d <= n).map(|d| n - d));
        offsets.extend(bounds.iter().copied());
        offsets.retain(|o| *o < n);
        offsets.sort();
        offsets.dedup();
        for off in offsets {
            let all = bounds.contains(&off) && !expensive;
            let values: Vec<u8> = if all { (0..=255u8).collect() } else { reduced.clone() };
            for v in values {
                if body[off] == v {
                    continue;
                }
                if (kind == "pw.local" || kind == "pw.secret") && ver.nist() == false && off >= 16 && off < 32 && !all {
                    // (cost fields: over-budget values are skipped inside exercise_string)
                }
                let mut b2 = body.clone();
                b2[off] = v;
                let t2 = format!("{}{}{}", &text[..body_start], b64_encode(&b2), &text[body_end..]);
                let i = Input::Arbitrary(t2);
                acc.class("byte-substitution");
                acc.check(&i, |acc| run_input::<B>(&fx, &i, acc));
            }
        }
    }
    println!("PROGRESS byte substitutions done");
}

fn subs_for<B: Backend>(out: &mut Vec<SubCheck>) {
    out.push(
        SubCheck::custom(
            format!("c04.byte-substitutions/{}", B::NAME),
            9,
            byte_substitutions::<B>,
            |v: &serde_json::Value, acc: &mut Acc| {
                let i: Input = serde_json::from_value(v.clone()).map_err(|e| Fail::new("HARNESS/replay-decode", format!("{e}")))?;
                let fx = fixture::<B>(mix(acc.seed, 6), Tier::Thorough);
                run_input::<B>(&fx, &i, acc)
            },
        )
        .isolated(),
    );
    out.push(
        SubCheck::custom(
            format!("c04.sweep/{}", B::NAME),
            10,
            sweep_lengths::<B>,
            |v: &serde_json::Value, acc: &mut Acc| {
                let i: Input = serde_json::from_value(v.clone()).map_err(|e| Fail::new("HARNESS/replay-decode", format!("{e}")))?;
                let fx = fixture::<B>(mix(acc.seed, 4), Tier::Thorough);
                run_input::<B>(&fx, &i, acc)
            },
        )
        .isolated(),
    );
    out.push(
        SubCheck {
            isolate: true,
            name: format!("c04.generated/{}", B::NAME),
            weight: 8,
            run: Box::new(|acc: &mut Acc| {
                let fx = fixture::<B>(mix(acc.seed, 5), acc.tier);
                let n = if B::VER == Ver::V1 { acc.tier.pick(6000, 120_000) } else { acc.tier.pick(20_000, 400_000) };
                acc.drive("main", n, input_strategy(), |i: &Input, acc: &mut Acc| run_input::<B>(&fx, i, acc));
            }),
            replay: Box::new(|v: &serde_json::Value, acc: &mut Acc| {
                let input = v.get("input").cloned().unwrap_or(v.clone());
                let i: Input = serde_json::from_value(input).map_err(|e| Fail::new("HARNESS/replay-decode", format!("{e}")))?;
                let fx = fixture::<B>(mix(acc.seed, 5), Tier::Thorough);
                run_input::<B>(&fx, &i, acc)
            }),
        },
    );
}

/// "sealing to a parsed key" with the sealing randomness chosen: for RSA-KEM the rare draws whose
/// ciphertext c = r^e mod n has 1..3 leading zero bytes are constructed (r = c^d), not waited for.
fn seal_to_parsed_v1(acc: &mut Acc) {
    type B = BV1;
    let n = acc.tier.pick(4u64, 24);
    for ki in 0..n {
        for aim in 1u8..=3 {
            let ks = KeySeed::from_u64(0xc04a + ki);
            let case = json!({"recipient": ki, "leading_zero_bytes": aim});
            acc.check(&case, |acc| {
                let (_sk, pk, sk_raw, pk_raw) = pke_pair::<B>(&ks);
                // the recipient key is parsed from its text, as a caller would hold it
                let pk: PkePublicOf<B> = pk.expose_key().to_string().parse().unwrap_or_else(|e| library_refused("the text of a valid key-sealing public key", &e));
                crate::rng::reseed_case(0xc04a + ki * 8 + aim as u64);
                let aimed = crate::props::c05::script_leading_zero_c(0xc04a + ki * 8 + aim as u64, aim, &sk_raw, &pk_raw)?;
                crate::rng::begin_op();
                let r = catch(|| local_key::<B>(&ks).seal(&pk).map(|s| s.to_string()));
                crate::rng::end_op();
                acc.eval();
                acc.class(&format!("seal-to-parsed-key:v1:c-leading-zero-bytes-{aimed}"));
                acc.nt(hash_of(&(ki, aim)));
                match r {
                    Ok(_) => Ok(()),
                    Err(loc) => Err(Fail::new(format!("C04/paseto-v1/seal-to-parsed-key/panic/{}", panic_site(&loc)), format!("sealing a key to a parsed k1 public key panicked at {loc} (RSA-KEM ciphertext with {aimed} leading zero byte(s))"))),
                }
            });
        }
    }
}

pub fn def() -> PropertyDef {
    let mut subs = Vec::new();
    crate::for_backends!(B => subs_for::<B>(&mut subs));
    subs.push(SubCheck::custom("c04.seal-to-parsed-key/paseto-v1", 6, seal_to_parsed_v1, |_v: &serde_json::Value, acc: &mut Acc| { seal_to_parsed_v1(acc); Ok(()) }).isolated());
    subs.push(SubCheck::prop("c04.authentic-hostile-messages", 3, (6000, 120000), |_t| hostile_strategy(), hostile_case).isolated());
    subs.push(SubCheck::prop("c04.validators", 3, (30000, 600000), |_t| val_strategy(), val_case).isolated());
    PropertyDef {
        id: "C04",
        level: "exploration",
        rule: "per back end (each in its own child process; harness built with overflow checks, repo crates with debug assertions): (a) enumeration of every decoded payload length 0..=700 x {random, 0x00, 0xff, mutated-valid} under every header of the back end, and every structured key-byte shape of the C08 catalogue (incl. structurally odd RSA private keys); one valid string of every kind with single bytes substituted - all 256 values at every field boundary (format tags), 12 edge values at 25 further offsets; (b) proptest inputs: header + bytes, raw key bytes of every kind, library-produced valid strings of every kind with 0-4 edits (substitute / insert / delete / append / duplicate segment / swap header / truncate), arbitrary and grammar-shaped strings; each string is offered to EVERY FromStr of the back end (tokens with Vec<u8>, (), Json and RegisteredClaims payload/footer types; key texts; typed keys of all five kinds; ids; PIE; PBKW; sealed keys) and whatever parses is used: Display, unverified_footer, unseal with and without assertion, key conversion, expose, id, clone, public_key, seal / sign / wrap / seal-key to it, unwrap, params + password unwrap (KDF cost within the budget: <= 8 MiB quick / 64 MiB thorough, <= 3 passes, <= 10000 iterations; otherwise skipped and counted), unseal-key; (c) the built-in validators (Time, TimeWithLeeway, and_then HasExpiry) and the claims codec on claims whose exp/nbf lie anywhere in jiff's range incl. MIN, MAX and within k leeways of either edge (now within +-10^10 s, leeway <= 10^8 s), directly and through unseal of an authentic token; (d') paseto-v1: keys sealed to parsed k1 public keys with the RSA-KEM draw constructed so that the ciphertext has 1..3 leading zero bytes; (d) authentic local and public tokens of every back end whose message and footer BYTES are hostile (empty, whitespace, non-objects, truncated objects, bad escapes, BOM, invalid UTF-8, nesting depth 1..400, junk around a valid object, arbitrary bytes), parsed and unsealed as RegisteredClaims / Json<Value> / Json<Map> payloads with bytes / () / Json footers, and the codecs called directly; oracle: every call returns Ok or Err - a panic is a violation keyed by its source location, a dead child process (abort / SIGSEGV) is a violation. Non-trivial iff accepted by at least one parser stage; distinct by (stages reached, length class, input class). Thorough adds libFuzzer+ASan campaigns over the same entry function",
        assumptions: vec!["attacker-chosen PBKW costs beyond the stated budget are resource exhaustion, not covered", "dangerous_seal_with_nonce with a nonce shorter than the version's own is caller misuse of an API marked dangerous, not in the domain"],
        subs,
    }
}

// ---------------------------------------------------------------------------
// entry points of the libFuzzer targets (/verif/fuzz)

fn with_fx<B: Backend, T>(f: impl FnOnce(&Fx<B>) -> T) -> T {
    use std::any::Any;
    use std::cell::RefCell;
    use std::collections::HashMap;
    thread_local! {
        static FX: RefCell<HashMap<&'static str, Box<dyn Any>>> = RefCell::new(HashMap::new());
    }
    FX.with(|m| {
        let mut m = m.borrow_mut();
        let e = m.entry(B::NAME).or_insert_with(|| {
            crate::rng::set_seeded(0xf022);
            let _ = libsodium_rs::ensure_init();
            Box::new(fixture::<B>(0xf022, Tier::Quick)) as Box<dyn Any>
        });
        f(e.downcast_ref::<Fx<B>>().expect("fixture type"))
    })
}

macro_rules! by_backend {
    ($sel:expr, $B:ident => $body:expr) => {
        match $sel % 6 {
            0 => { type $B = BV1; $body }
            1 => { type $B = BV2; $body }
            2 => { type $B = BV3; $body }
            3 => { type $B = BV3Lc; $body }
            4 => { type $B = BV4; $body }
            _ => { type $B = BV4Na; $body }
        }
    };
}

// ---------------------------------------------------------------------------
// authentic tokens whose message / footer bytes are hostile: what a key holder (or, for `public`,
// anyone who obtains one signature over bytes they chose) can put in front of the typed decoders

#[derive(Debug, Clone, Serialize, Deserialize)]
pub struct HostileCase {
    backend: u8,
    public: bool,
    #[serde(with = "hexser")]
    message: Vec<u8>,
    #[serde(with = "hexser")]
    footer: Vec<u8>,
    key: u64,
}

fn hostile_bytes() -> impl Strategy<Value = Vec<u8>> {
    let fixed: Vec<Vec<u8>> = vec![
        vec![],
        b" ".to_vec(),
        b"\n\t \r".to_vec(),
        b"[]".to_vec(),
        b"[1,2]".to_vec(),
        b"\"x\"".to_vec(),
        b"null".to_vec(),
        b"0".to_vec(),
        b"-".to_vec(),
        b"true".to_vec(),
        b"{".to_vec(),
        b"}".to_vec(),
        b"{}".to_vec(),
        b" {} ".to_vec(),
        b"{}x".to_vec(),
        b"{\"".to_vec(),
        b"{\"exp\"".to_vec(),
        b"{\"exp\":".to_vec(),
        b"{\"exp\":\"\"}".to_vec(),
        b"{\"exp\":null}".to_vec(),
        b"{\"exp\":1}".to_vec(),
        b"{\"exp\":\"9999-12-31T23:59:59Z\"}".to_vec(),
        b"{\"exp\":\"-009999-01-01T00:00:00Z\"}".to_vec(),
        b"{\"exp\":\"2020-01-01T00:00:00+99:99\"}".to_vec(),
        b"{\"iss\":\"\\ud800\"}".to_vec(),
        b"{\"iss\":\"\\u0000\"}".to_vec(),
        b"{\"kid\":1}".to_vec(),
        b"\xef\xbb\xbf{}".to_vec(),
        b"\xff\xfe".to_vec(),
        b"{\"iss\":\"\xc3\"}".to_vec(),
        vec![0],
        vec![0x80],
        b"1e999999".to_vec(),
        b"{\"a\":1e999999}".to_vec(),
        b"{\"a\":123456789012345678901234567890123456789012345678901234567890}".to_vec(),
    ];
    prop_oneof![
        6 => prop::sample::select(fixed),
        2 => proptest::collection::vec(any::<u8>(), 0..40),
        2 => proptest::collection::vec(prop::sample::select(b"{}[]\":,\\ \n0123456789-+.eEtrufalsn\"expissnbfiatjtisubaudkidwpk".to_vec()), 0..60),
        // deep nesting on either side of serde_json's recursion limit, closed and unclosed
        1 => (1usize..400, any::<bool>(), any::<bool>()).prop_map(|(d, obj, close)| {
            let mut v = Vec::new();
            for _ in 0..d { v.extend_from_slice(if obj { b"{\"a\":" } else { b"[" }); }
            v.extend_from_slice(b"1");
            if close { for _ in 0..d { v.push(if obj { b'}' } else { b']' }); } }
            v
        }),
        // a valid object followed / preceded by anything
        1 => (proptest::collection::vec(any::<u8>(), 0..6), proptest::collection::vec(any::<u8>(), 0..6)).prop_map(|(a, b)| {
            let mut v = a; v.extend_from_slice(b"{\"iss\":\"i\",\"exp\":\"2039-01-01T00:00:00Z\"}"); v.extend(b); v
        }),
    ]
}

fn hostile_strategy() -> impl Strategy<Value = HostileCase> {
    (0u8..6, any::<bool>(), hostile_bytes(), prop_oneof![2 => Just(Vec::new()), 3 => hostile_bytes()], any::<u64>()).prop_map(|(backend, public, message, footer, key)| HostileCase { backend, public, message, footer, key })
}

fn hostile_for<B: Backend>(c: &HostileCase, acc: &mut Acc) -> R {
    use paseto_json::{Json, RegisteredClaims};
    let ks = KeySeed::from_u64(c.key % 8);
    let text = if c.public {
        UnsealedToken::<V<B>, Public, Raw>::new(Raw(c.message.clone())).with_footer(c.footer.clone()).seal(&secret_key::<B>(&ks), &[]).map(|t| t.to_string())
    } else {
        UnsealedToken::<V<B>, Local, Raw>::new(Raw(c.message.clone())).with_footer(c.footer.clone()).seal(&local_key::<B>(&ks), &[]).map(|t| t.to_string())
    }
    .unwrap_or_else(|e| library_refused("sealing raw message bytes", &e));
    let purpose = if c.public { "public" } else { "local" };
    let mut accepted = 0u32;
    macro_rules! try_as {
        ($M:ty, $F:ty, $label:expr) => {{
            let r = catch(|| {
                if c.public {
                    let pk = secret_key::<B>(&ks).public_key();
                    text.parse::<SealedToken<V<B>, Public, $M, $F>>().ok().map(|t| {
                        let _ = t.unverified_footer();
                        let _ = t.to_string();
                        t.unseal(&pk, &[], &NoValidation::dangerous_no_validation()).is_ok()
                    })
                } else {
                    let k = local_key::<B>(&ks);
                    text.parse::<SealedToken<V<B>, Local, $M, $F>>().ok().map(|t| {
                        let _ = t.unverified_footer();
                        let _ = t.to_string();
                        t.unseal(&k, &[], &NoValidation::dangerous_no_validation()).is_ok()
                    })
                }
            });
            match r {
                Ok(Some(true)) => accepted += 1,
                Ok(_) => {}
                Err(loc) => {
                    return Err(Fail::new(
                        format!("C04/{}/{purpose}/authentic-hostile/{}/panic/{}", B::NAME, $label, panic_site(&loc)),
                        format!("an authentic {purpose} token with message {:?} and footer {:?} read as {} panicked at {loc}", String::from_utf8_lossy(&c.message), String::from_utf8_lossy(&c.footer), $label),
                    ))
                }
            }
        }};
    }
    try_as!(RegisteredClaims, Vec<u8>, "RegisteredClaims+bytes");
    try_as!(Json<serde_json::Value>, Vec<u8>, "Json<Value>+bytes");
    try_as!(Json<std::collections::BTreeMap<String, serde_json::Value>>, Vec<u8>, "Json<Map>+bytes");
    try_as!(Raw, Json<serde_json::Value>, "bytes+Json<Value>");
    try_as!(RegisteredClaims, Json<serde_json::Value>, "RegisteredClaims+Json<Value>");
    try_as!(Raw, (), "bytes+()");
    try_as!(Raw, Json<std::collections::BTreeMap<String, String>>, "bytes+Json<Map>");
    // the codecs called directly on the same bytes
    let r = catch(|| {
        use paseto_core::encodings::{Footer, Payload};
        let a = <RegisteredClaims as Payload>::decode(&c.message).is_ok();
        let b = <Json<serde_json::Value> as Payload>::decode(&c.message).is_ok();
        let d = <Json<serde_json::Value> as Footer>::decode(&c.footer).is_ok();
        let e = <() as Footer>::decode(&c.footer).is_ok();
        (a, b, d, e)
    });
    if let Err(loc) = r {
        return Err(Fail::new(format!("C04/codec/authentic-hostile/panic/{}", panic_site(&loc)), format!("decoding message {:?} / footer {:?} panicked at {loc}", String::from_utf8_lossy(&c.message), String::from_utf8_lossy(&c.footer))));
    }
    acc.class(&format!("hostile:{}:{purpose}:accepted-by-{}", B::NAME, accepted.min(3)));
    acc.evals_n(8);
    if accepted > 0 {
        acc.nt(hash_of(&(B::NAME, c.public, accepted, &c.message, &c.footer)));
    }
    Ok(())
}

fn hostile_case(c: &HostileCase, acc: &mut Acc) -> R {
    by_backend!(c.backend, B => hostile_for::<B>(c, acc))
}

pub fn fuzz_string(backend: u8, s: &str) {
    by_backend!(backend, B => with_fx::<B, _>(|fx| {
        let mut st = Vec::new();
        exercise_string::<B>(fx, s, &mut st);
    }))
}

pub fn fuzz_key_bytes(backend: u8, kind: u8, bytes: &[u8]) {
    let kind = ["Local", "Public", "Secret", "PkePublic", "PkeSecret"][kind as usize % 5];
    by_backend!(backend, B => with_fx::<B, _>(|fx| {
        let mut st = Vec::new();
        exercise_key_bytes::<B>(fx, kind, bytes, &mut st);
    }))
}

pub fn fuzz_edited(backend: u8, base: u16, edits: &[(u8, u16, u8)]) {
    let edits: Vec<Edit> = edits
        .iter()
        .map(|(k, a, b)| match k % 7 {
            0 => Edit::Subst(*a, *b),
            1 => Edit::Insert(*a, *b),
            2 => Edit::Delete(*a),
            3 => Edit::Append(*b),
            4 => Edit::DupSegment,
            5 => Edit::SwapHeader(*b),
            _ => Edit::Truncate(*a),
        })
        .collect();
    by_backend!(backend, B => with_fx::<B, _>(|fx| {
        let (s, _) = materialise::<B>(fx, &Input::Edited { base, edits: edits.clone() });
        let mut st = Vec::new();
        if let Some(s) = s {
            exercise_string::<B>(fx, &s, &mut st);
        }
    }))
}

/// seed corpus for the fuzz targets: library-produced valid strings of every kind
pub fn fuzz_seeds() -> Vec<(String, Vec<u8>)> {
    let mut out = Vec::new();
    let mut idx = 0u8;
    crate::for_backends!(B => {
        crate::rng::set_seeded(0x5eed);
        for (j, (kind, s)) in texttypes::valid_strings::<B>(&KeySeed::from_u64(0x5eed)).into_iter().enumerate() {
            let mut v = vec![idx];
            v.extend_from_slice(s.as_bytes());
            out.push((format!("{}-{kind}-{j}", B::NAME), v));
        }
        idx += 1;
    });
    out
}
