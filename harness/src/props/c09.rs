//! C09 — text encodings are strict and canonical: one string per value and vice versa.

use paseto_core::paserk::KeyText;
use paseto_core::version::Local;
use proptest::prelude::*;
use serde::{Deserialize, Serialize};
use serde_json::{Value, json};

use crate::backends::*;
use crate::engine::*;
use crate::ensure;
use crate::gens;
use crate::refmodel::Ver;
use crate::texttypes::{self, TextType};
use crate::util::{b64_decode, b64_encode, hexser};

type V4 = paseto_v4::core::V4;

/// raw base64 exposure: KeyText<V4, Local> stores any decoded bytes
fn lib_b64_decode(s: &str) -> Option<Vec<u8>> {
    format!("k4.local.{s}").parse::<KeyText<V4, Local>>().ok().map(|k| k.as_raw_bytes().to_vec())
}
fn lib_b64_encode(b: &[u8]) -> String {
    KeyText::<V4, Local>::from_raw_bytes(b).to_string()["k4.local.".len()..].to_string()
}

pub fn b64_check_pub(prefix: &str, tail: &str) -> R {
    b64_check(prefix, tail)
}

fn b64_check(prefix: &str, tail: &str) -> R {
    let s = format!("{prefix}{tail}");
    let lib = lib_b64_decode(&s);
    let model = b64_decode(&s);
    if lib != model {
        let class = match (&lib, &model) {
            (Some(_), None) => "accepts-non-canonical",
            (None, Some(_)) => "rejects-canonical",
            _ => "decodes-differently",
        };
        return Err(Fail::new(
            format!("C09/base64/{class}"),
            format!("base64 segment {:?}: library {:?}, strict unpadded base64url {:?}", s, lib.map(|b| hex::encode(b)), model.map(|b| hex::encode(b))),
        ));
    }
    if let Some(b) = lib {
        ensure!(lib_b64_encode(&b) == s, "C09/base64/accepted-not-canonical", "accepted {s:?} but re-encodes as {:?}", lib_b64_encode(&b));
    }
    Ok(())
}

const ALPHA: &[u8] = b"ABCDEFGHIJKLMNOPQRSTUVWXYZabcdefghijklmnopqrstuvwxyz0123456789-_";
const HOSTILE: &[&str] = &["=", "+", "/", ".", " ", "\n", "@", "[", "`", "\u{e9}", "{", "\t", "\u{20ac}", "~", ",", ":"];

#[derive(Clone, Debug, Serialize, Deserialize)]
struct B64Case {
    prefix: String,
    tail: String,
}

/// exhaustive final blocks after 0, 1 and 2 full blocks
fn b64_exhaustive(acc: &mut Acc, which: usize) {
    let prefixes = [["", "AAAA", "q83vEjRW"][which]];
    let mut n = 0u64;
    let mut nt = 0u64;
    // every ASCII string of length <= 3
    for prefix in prefixes {
        let mut buf = String::new();
        for l in 0..=3usize {
            let total = 128usize.pow(l as u32);
            for mut i in 0..total {
                buf.clear();
                for _ in 0..l {
                    buf.push((i % 128) as u8 as char);
                    i /= 128;
                }
                n += 1;
                if buf.bytes().all(crate::util::is_b64_char) {
                    nt += 1;
                }
                if let Err(f) = b64_check(prefix, &buf) {
                    acc.fail(f, serde_json::to_value(&B64Case { prefix: prefix.into(), tail: buf.clone() }).unwrap());
                    if acc.violations.len() >= 6 {
                        return;
                    }
                }
            }
        }
    }
    // every length-4 string over (alphabet subset | alphabet) U hostile set
    let mut syms: Vec<String> = ALPHA.iter().map(|c| (*c as char).to_string()).collect();
    syms.extend(HOSTILE.iter().take(acc.tier.pick(10, 16)).map(|s| s.to_string()));
    for prefix in prefixes {
        for a in &syms {
            for b in &syms {
                for c in &syms {
                    for d in &syms {
                        let t = format!("{a}{b}{c}{d}");
                        n += 1;
                        nt += 1;
                        if let Err(f) = b64_check(prefix, &t) {
                            acc.fail(f, serde_json::to_value(&B64Case { prefix: prefix.into(), tail: t }).unwrap());
                            if acc.violations.len() >= 6 {
                                return;
                            }
                        }
                    }
                }
            }
        }
    }
    acc.evals_n(n);
    // distinct non-trivial: every enumerated string is distinct by construction
    for i in 0..nt.min(200_000) {
        acc.nt(i);
    }
    acc.class_n("b64:enumerated-final-blocks", n);
    acc.class_n("b64:alphabet-only-or-len4", nt);
    acc.exhaustive.push(format!(
        "base64 final block after {} full block(s): every ASCII string of length <= 3 and every length-4 string over {} symbols",
        which,
        syms.len()
    ));
    acc.sample(|| json!({"enumerated": n, "example_tails": ["", "A", "AA", "AB", "AA=", "A+", "AAA", "AAB", "AAAA", "AA A"]}));
}

/// encode direction: every byte-sequence length 0..=300, then every length up to 1200 (quick) /
/// 9000 (thorough) and the lengths around every multiple of 1024 up to 128 KiB (buffer and
/// chunk sizes of an encoder live there)
fn b64_encode_all(acc: &mut Acc) {
    let dense = acc.tier.pick(1200usize, 9000);
    let mut lens: Vec<usize> = (0..=dense).collect();
    for k in 1..=128usize {
        for d in [-2i64, -1, 0, 1, 2, 3] {
            lens.push((k as i64 * 1024 + d) as usize);
        }
    }
    lens.sort();
    lens.dedup();
    for len in lens {
        for (ci, bytes) in [crate::rng::det_bytes(acc.seed ^ len as u64, 0xe4c, len), vec![0u8; len], vec![0xff; len]].into_iter().enumerate() {
            acc.eval();
            let s = lib_b64_encode(&bytes);
            let ok = s == b64_encode(&bytes) && lib_b64_decode(&s).as_deref() == Some(&bytes[..]);
            if !ok {
                acc.fail(Fail::new("C09/base64/encode-roundtrip", format!("{len} bytes (content {ci}) encode to {:?}... ({} characters); decode(encode(b)) != b or differs from base64url", &s[..s.len().min(60)], s.len())), json!({"len": len, "content": ci}));
            }
            if len % 3 != 0 {
                acc.nt((len * 3 + ci) as u64);
            }
        }
    }
    acc.exhaustive.push(format!("encode/decode: every byte-sequence length 0..={dense} and k*1024-2..k*1024+3 for k <= 128, x 3 contents"));
}

// ---------------------------------------------------------------------------
// every FromStr/Display/serde triple

#[derive(Clone, Debug, Serialize, Deserialize, PartialEq, Eq, Hash)]
pub enum Edit {
    None,
    Subst(u16, u8),
    Insert(u16, u8),
    Delete(u16),
    Append(u8),
    DupSegment,
    SwapHeader(u8),
    Truncate(u16),
    /// a stretch of the header between two of its dots (with or without the closing dot) inserted again,
    /// 1..3 times: `k4.local-wrap.pie..local-wrap.pie.<data>`, `v4.local.local.<data>`
    #[serde(alias = "RepeatHeader")]
    RepeatHeaderPart { from: u8, to: u8, closing_dot: bool, times: u8 },
}

const CHARSET: &[&str] = &[
    "A", "B", "Q", "Z", "a", "g", "z", "0", "9", "-", "_", "=", "+", "/", ".", " ", "\n", "\t", "\u{e9}", "\u{20ac}", "\u{1f600}", "\0", "%", "k", "v", "4",
];
const SUFFIXES: &[&str] = &[".", "=", "==", " ", "\n", ".AA", "A", "AA", "..", ".=", "\0"];

fn apply(s: &str, e: &Edit, headers: &[String]) -> String {
    let chars: Vec<char> = s.chars().collect();
    let at = |i: u16| gens::idx(i, chars.len());
    match e {
        Edit::None => s.to_string(),
        Edit::Subst(i, c) => {
            if chars.is_empty() {
                return s.to_string();
            }
            let mut v = chars.clone();
            let rep: Vec<char> = CHARSET[*c as usize % CHARSET.len()].chars().collect();
            let p = at(*i);
            v.splice(p..p + 1, rep);
            v.into_iter().collect()
        }
        Edit::Insert(i, c) => {
            let mut v = chars.clone();
            let p = gens::idx(*i, chars.len() + 1);
            let rep: Vec<char> = CHARSET[*c as usize % CHARSET.len()].chars().collect();
            v.splice(p..p, rep);
            v.into_iter().collect()
        }
        Edit::Delete(i) => {
            if chars.is_empty() {
                return s.to_string();
            }
            let mut v = chars.clone();
            v.remove(at(*i));
            v.into_iter().collect()
        }
        Edit::Append(k) => format!("{s}{}", SUFFIXES[*k as usize % SUFFIXES.len()]),
        Edit::DupSegment => match s.rfind('.') {
            Some(p) => format!("{s}{}", &s[p..]),
            None => format!("{s}{s}"),
        },
        Edit::SwapHeader(k) => {
            let body = s.rfind('.').map(|p| &s[p + 1..]).unwrap_or(s);
            format!("{}{}", headers[*k as usize % headers.len()], body)
        }
        Edit::Truncate(i) => chars[..at(*i)].iter().collect(),
        Edit::RepeatHeaderPart { from, to, closing_dot, times } => {
            // the dots of the header: all but the last '.'-separated section (tokens: all but the last two when a footer is present - close enough: the first 2..4 dots)
            let dots: Vec<usize> = s.match_indices('.').map(|(i, _)| i).take(4).collect();
            if dots.len() < 2 {
                return s.to_string();
            }
            let a = (*from as usize) % (dots.len() - 1);
            let b = a + 1 + (*to as usize) % (dots.len() - 1 - a);
            let (i, j) = (dots[a], dots[b]);
            let part = if *closing_dot { &s[i..=j] } else { &s[i..j] };
            let at = if *closing_dot { j + 1 } else { j };
            format!("{}{}{}", &s[..at], part.repeat(1 + (*times as usize) % 3), &s[at..])
        }
    }
}

pub fn edit_strategy_pub() -> impl Strategy<Value = Edit> {
    edit_strategy()
}

pub fn apply_pub(s: &str, e: &Edit, headers: &[String]) -> String {
    apply(s, e, headers)
}

fn edit_strategy() -> impl Strategy<Value = Edit> {
    prop_oneof![
        2 => Just(Edit::None),
        6 => (any::<u16>(), any::<u8>()).prop_map(|(i, c)| Edit::Subst(i, c)),
        4 => (any::<u16>(), any::<u8>()).prop_map(|(i, c)| Edit::Insert(i, c)),
        4 => any::<u16>().prop_map(Edit::Delete),
        4 => any::<u8>().prop_map(Edit::Append),
        1 => Just(Edit::DupSegment),
        2 => any::<u8>().prop_map(Edit::SwapHeader),
        2 => any::<u16>().prop_map(Edit::Truncate),
        2 => (any::<u8>(), any::<u8>(), any::<bool>(), any::<u8>()).prop_map(|(from, to, closing_dot, times)| Edit::RepeatHeaderPart { from, to, closing_dot, times }),
    ]
}

#[derive(Clone, Debug, Serialize, Deserialize)]
pub struct TypeCase {
    /// index into the backend's type table
    pub ty: u16,
    /// body bytes of the canonical string the edits start from
    #[serde(with = "hexser")]
    pub body: Vec<u8>,
    #[serde(with = "hexser")]
    pub footer: Vec<u8>,
    pub edits: Vec<Edit>,
    /// an arbitrary string instead of an edited canonical one
    pub arbitrary: Option<String>,
}

/// syntactic verdict of the strict model for a string offered to type `t`
fn model_accepts(t: &TextType, s: &str) -> bool {
    let Some(rest) = s.strip_prefix(&t.header) else { return false };
    if t.is_token {
        let mut it = rest.splitn(2, '.');
        let p = it.next().unwrap_or("");
        let f = it.next();
        if b64_decode(p).is_none() {
            return false;
        }
        match f {
            None => true,
            Some(f) => b64_decode(f).is_some(), // a further '.' is not a base64 character => rejected
        }
    } else {
        match b64_decode(rest) {
            None => false,
            Some(b) => t.exact_len.map(|n| b.len() == n).unwrap_or(true),
        }
    }
}

/// canonical form of an accepted string: identical, except that a token's trailing "." (empty footer) is dropped
fn canonical(t: &TextType, s: &str) -> String {
    if t.is_token && s.len() > t.header.len() && s.starts_with(&t.header) {
        let rest = &s[t.header.len()..];
        if rest.ends_with('.') && rest.matches('.').count() == 1 {
            return s[..s.len() - 1].to_string();
        }
    }
    s.to_string()
}

fn type_case(types: &[TextType], headers: &[String], c: &TypeCase, acc: &mut Acc) -> R {
    let t = &types[gens::idx(c.ty, types.len())];
    let base = if t.is_token {
        crate::refmodel::assemble(&t.header, &c.body, &c.footer)
    } else {
        let body = match t.exact_len {
            Some(n) => {
                let mut b = c.body.clone();
                b.resize(n, 0x5a);
                b
            }
            None => c.body.clone(),
        };
        format!("{}{}", t.header, b64_encode(&body))
    };
    let mut s = base.clone();
    let edited = match &c.arbitrary {
        Some(a) => {
            s = a.clone();
            true
        }
        None => {
            for e in &c.edits {
                s = apply(&s, e, headers);
            }
            s != base
        }
    };
    let name = t.backend;
    let kind = t.kind;
    let lib = (t.parse)(&s);
    let model = model_accepts(t, &s);
    if t.syntax_only {
        if lib.is_ok() != model {
            return Err(Fail::new(
                format!("C09/{name}/{kind}/{}", if lib.is_ok() { "accepts-non-canonical" } else { "rejects-canonical" }),
                format!("string {:?}: library {}, strict grammar (exact header, unpadded canonical base64url segments, no extra segment) {}", s, if lib.is_ok() { "accepts" } else { "rejects" }, if model { "accepts" } else { "rejects" }),
            ));
        }
    } else if lib.is_ok() && !model {
        return Err(Fail::new(format!("C09/{name}/{kind}/accepts-non-canonical"), format!("string {s:?} accepted although it is not a canonical encoding")));
    }
    if let Ok(p) = &lib {
        let want = canonical(t, &s);
        let pem = t.ver == Ver::V1 && kind.starts_with("key.") && !kind.ends_with("local");
        if !pem {
            ensure!(p.text == want, format!("C09/{name}/{kind}/reserialise-differs"), "accepted {s:?} re-serialises as {:?}", p.text);
        }
        if let Some(j) = &p.json {
            let want_json = serde_json::to_string(&p.text).unwrap();
            ensure!(*j == want_json, format!("C09/{name}/{kind}/serde-serialise"), "serde gives {j} but Display gives {want_json}");
        }
    }
    if let Some(sp) = &t.serde_parse {
        let via = sp(&s);
        if let Err(e) = &via {
            ensure!(!e.starts_with("SERDE-ROUTES-DISAGREE"), format!("C09/{name}/{kind}/serde-routes-disagree"), "string {s:?}: deserialising it as a borrowed, transient, owned and streamed string does not give the same result: {e}");
        }
        ensure!(
            via.is_ok() == lib.is_ok(),
            format!("C09/{name}/{kind}/serde-deserialise-differs"),
            "string {s:?}: FromStr {} but serde {}",
            if lib.is_ok() { "accepts" } else { "rejects" },
            if via.is_ok() { "accepts" } else { "rejects" }
        );
        if let (Ok(a), Ok(b)) = (&via, &lib) {
            ensure!(a.text == b.text, format!("C09/{name}/{kind}/serde-value-differs"), "serde and FromStr parse {s:?} to different values");
        }
    }
    acc.eval();
    let one_edit = c.arbitrary.is_none() && c.edits.iter().filter(|e| **e != Edit::None).count() == 1;
    if lib.is_ok() || (edited && one_edit) {
        acc.nt(hash_of(&(name, kind, &s)));
    }
    acc.class(if lib.is_ok() { "accepted" } else { "rejected" });
    acc.class(if c.arbitrary.is_some() { "input:arbitrary" } else if edited { "input:edited-canonical" } else { "input:canonical" });
    acc.class(&format!("tail:{}", c.body.len() % 3));
    acc.sample(|| json!({"backend": name, "type": kind, "string": s.chars().take(80).collect::<String>(), "accepted": lib.is_ok()}));
    Ok(())
}

fn type_strategy() -> impl Strategy<Value = TypeCase> {
    let body = prop_oneof![
        6 => proptest::collection::vec(any::<u8>(), 0..80),
        2 => proptest::collection::vec(any::<u8>(), 80..200),
        1 => Just(Vec::new()),
    ];
    // footers: none, bytes, and JSON texts in spellings a serialiser of this library would not choose
    // (whitespace, escapes, unsorted keys, a non-object) - for the token types with a typed JSON footer
    let json_footers: Vec<Vec<u8>> = [r#"{"kid": "key-1"}"#, r#"{ "b":1, "a":2 }"#, r#"{"k":"\u002d"}"#, r#"[1, 2]"#, r#" {"a":1}"#, "{\"a\":1}\n", r#"{"a":1.0}"#, r#"{"a":1e2}"#, r#"{"kid":"k","kid":"l"}"#, r#""text""#, r#"{"a":{"c":1,"b":2}}"#, r#"{}"#].iter().map(|x| x.as_bytes().to_vec()).collect();
    let footer = prop_oneof![2 => Just(Vec::new()), 2 => proptest::collection::vec(any::<u8>(), 1..30), 1 => prop::sample::select(json_footers)];
    let arbitrary = prop_oneof![
        8 => Just(None),
        1 => "[ -~]{0,60}".prop_map(Some),
        1 => "[kv][1-4]\\.(local|public|secret|lid|pid|sid|seal|local-pw|secret-pw|local-wrap\\.pie|secret-wrap\\.pie)\\.[A-Za-z0-9_=+/.-]{0,70}".prop_map(Some),
        1 => "\\PC{0,40}".prop_map(Some),
    ];
    (any::<u16>(), body, footer, proptest::collection::vec(edit_strategy(), 0..=3), arbitrary).prop_map(|(ty, body, footer, edits, arbitrary)| TypeCase { ty, body, footer, edits, arbitrary })
}

fn subs_for<B: Backend>(out: &mut Vec<SubCheck>) {
    let mk = || {
        let mut types = Vec::new();
        texttypes::types_for::<B>(&mut types);
        let headers: Vec<String> = texttypes::all_types().iter().map(|t| t.header.clone()).collect();
        (types, headers)
    };
    let (t1, h1) = mk();
    let (t2, h2) = mk();
    out.push(SubCheck {
        isolate: false,
        name: format!("c09.types/{}", B::NAME),
        weight: 3,
        run: Box::new(move |acc: &mut Acc| {
            let n = acc.tier.pick(60000, 600000);
            acc.drive("main", n, type_strategy(), |c: &TypeCase, acc: &mut Acc| type_case(&t1, &h1, c, acc));
        }),
        replay: Box::new(move |v: &Value, acc: &mut Acc| {
            let input = v.get("input").cloned().unwrap_or(v.clone());
            let c: TypeCase = serde_json::from_value(input).map_err(|e| Fail::new("HARNESS/replay-decode", format!("{e}")))?;
            type_case(&t2, &h2, &c, acc)
        }),
    });
}

/// typed keys in edge-case byte encodings (non-canonical Ed25519 y, x = 0 with the sign bit, small
/// order; every SEC1 tag byte for P-384): whatever a typed key parser accepts prints as the string
/// it was given, and no two accepted strings print alike
fn edge_key_texts(acc: &mut Acc) {
    use crate::refmodel::Ver;
    let types = texttypes::all_types();
    let mut candidates: Vec<(Ver, String, String)> = Vec::new(); // (version, shape, body bytes as text)
    for (shape, bytes) in crate::props::c08::ed25519_edge_encodings() {
        for ver in [Ver::V2, Ver::V4] {
            candidates.push((ver, shape.clone(), format!("{}.public.{}", ver.k(), crate::util::b64_encode(&bytes))));
        }
    }
    let ks = crate::backends::KeySeed::from_u64(acc.seed ^ 0xc09e);
    let pk3 = crate::backends::public_bytes(Ver::V3, &crate::backends::secret_bytes(Ver::V3, &ks));
    for tag in 0u8..=8 {
        let mut b = pk3.clone();
        b[0] = tag;
        candidates.push((Ver::V3, format!("sec1-tag-{tag:02x}"), format!("k3.public.{}", crate::util::b64_encode(&b))));
    }
    for t in types.iter().filter(|t| t.kind == "key.public" || t.kind == "key.pke-public") {
        let mut printed: std::collections::BTreeMap<String, String> = std::collections::BTreeMap::new();
        for (ver, shape, text) in candidates.iter().filter(|c| c.0 == t.ver) {
            let _ = ver;
            acc.eval();
            let Ok(p) = (t.parse)(text) else {
                acc.class("edge-key-text:rejected");
                continue;
            };
            acc.class("edge-key-text:accepted");
            acc.nt(hash_of(&(t.backend, t.kind, text)));
            let case = json!({"backend": t.backend, "kind": t.kind, "shape": shape, "text": text});
            if &p.text != text {
                acc.fail(Fail::new(format!("C09/{}/{}/edge-encoding/accepts-non-canonical", t.backend, t.kind), format!("{text} ({shape}) is accepted and prints as {}", p.text)), case.clone());
            }
            if let Some(prev) = printed.insert(p.text.clone(), text.clone()) {
                if &prev != text {
                    acc.fail(Fail::new(format!("C09/{}/{}/edge-encoding/two-strings-one-value", t.backend, t.kind), format!("{prev} and {text} are both accepted and print as {}", p.text)), case);
                }
            }
        }
    }
}

pub fn def() -> PropertyDef {
    let mut subs = Vec::new();
    for which in 0..3usize {
        subs.push(SubCheck::custom(
            format!("c09.b64-exhaustive/{which}-full-blocks"),
            20,
            move |acc: &mut Acc| b64_exhaustive(acc, which),
            |v: &Value, _acc: &mut Acc| {
                let c: B64Case = serde_json::from_value(v.clone()).map_err(|e| Fail::new("HARNESS/replay-decode", format!("{e}")))?;
                b64_check(&c.prefix, &c.tail)
            },
        ));
    }
    subs.push(SubCheck::custom("c09.b64-encode", 1, b64_encode_all, |_v: &Value, acc: &mut Acc| {
        b64_encode_all(acc);
        Ok(())
    }));
    subs.push(SubCheck::custom("c09.edge-key-texts", 1, edge_key_texts, |_v: &Value, acc: &mut Acc| {
        let before = acc.violations.len();
        edge_key_texts(acc);
        match acc.violations.get(before) {
            Some(v) => Err(Fail::new(v.sig.clone(), v.what.clone())),
            None => Ok(()),
        }
    }));
    crate::for_backends!(B => subs_for::<B>(&mut subs));
    PropertyDef {
        id: "C09",
        level: "exploration",
        rule: "(1) exhaustive: every ASCII string of length <= 3 and every length-4 string over the 64-symbol alphabet plus 10 (quick) / 16 (thorough) hostile symbols ('=', '+', '/', '.', whitespace, multi-byte UTF-8, neighbours of the alphabet ranges), as the final base64 block after 0, 1 and 2 full blocks, decoded through KeyText: accept iff the strict reference decoder accepts (unpadded URL-safe alphabet, length != 1 mod 4, canonical trailing bits), same bytes, re-encodes to the input; (2) every byte-sequence length 0..=1200 (thorough 9000) and the lengths around every multiple of 1024 up to 128 KiB encode to the reference text and decode back; (3) proptest over every FromStr/Display/serde triple of paseto-core at every back end (tokens, key texts, typed keys, ids, PIE, PBKW, sealed keys): canonical strings with 0-3 edits (substitute / insert / delete / append suffix / duplicate segment / swap header / truncate over alphabet, padding, standard-alphabet, whitespace, multi-byte characters) and arbitrary strings: accept iff the strict grammar accepts (exact header, canonical segments, no extra segment; ids exactly 33 bytes), accepted strings re-serialise identically (tokens modulo one trailing '.'), serde serialises to exactly the Display string and deserialises exactly the strings FromStr accepts, whichever way the deserialiser hands the string over (borrowed, escaped / transient, owned from a Value, streamed from a reader); (4) typed public keys in edge-case byte encodings (non-canonical Ed25519 y, sign-bit variants, small order, every SEC1 tag): accepted strings print as given and no two of them alike. Non-trivial iff accepted, or one edit away from a canonical string",
        assumptions: vec!["v1 typed asymmetric keys may be given as PEM inside the base64 body and canonicalise to DER (excluded from the re-serialise-identically clause only)"],
        subs,
    }
}
