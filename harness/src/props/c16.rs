//! C16 — every seal and wrap uses fresh randomness and fails closed when the RNG fails.

use std::collections::HashSet;

use paseto_core::PasetoError;
use paseto_core::tokens::{SealedToken, UnsealedToken};
use paseto_core::validation::NoValidation;
use paseto_core::version::{Local, Public};
use serde::{Deserialize, Serialize};
use serde_json::{Value, json};

use crate::backends::*;
use crate::engine::*;
use crate::refmodel::{self as model, Ver};
use crate::rng::{self, Draw};
use crate::util::{b64_decode, catch, hx, panic_site};

#[derive(Clone, Copy, Debug, PartialEq, Eq, Hash, Serialize, Deserialize)]
pub enum Op {
    Encrypt,
    Sign,
    Pie,
    Pbkw,
    /// the same wraps with a SECRET key as the wrapped key (other plaintext length)
    PieSecret,
    PbkwSecret,
    Pke,
    RandomLocal,
    RandomSecret,
    /// a token is decrypted and the UnsealedToken it returns is encrypted again (token refresh, key
    /// rotation): the new token needs a fresh nonce like any other
    ReEncrypt,
}

const OPS: [Op; 10] = [Op::Encrypt, Op::Sign, Op::Pie, Op::Pbkw, Op::PieSecret, Op::PbkwSecret, Op::Pke, Op::RandomLocal, Op::RandomSecret, Op::ReEncrypt];

struct Fixture<B: Backend> {
    lk: LocalKeyOf<B>,
    lk_raw: [u8; 32],
    sk: SecretKeyOf<B>,
    wk: LocalKeyOf<B>,
    pke_pk: PkePublicOf<B>,
    pke_pk_raw: Vec<u8>,
    msg: Vec<u8>,
    /// a local token sealed when the fixture was made (with a footer), for the re-encryption histories
    sealed_local: String,
}

fn fixture<B: Backend>(seed: u64) -> Fixture<B> {
    let ks = KeySeed::from_u64(seed);
    let (_, pke_pk, _, pke_pk_raw) = pke_pair::<B>(&ks);
    let sealed_local = UnsealedToken::<V<B>, Local, Raw>::new(Raw(b"{\"data\":\"identical message for every operation\"}".to_vec()))
        .with_footer(b"kid-1".to_vec())
        .seal(&local_key::<B>(&ks), &[])
        .map(|t| t.to_string())
        .unwrap_or_default();
    Fixture {
        sealed_local,
        lk: local_key::<B>(&ks),
        lk_raw: local_key_bytes(&ks),
        sk: secret_key::<B>(&ks),
        wk: local_key::<B>(&KeySeed::from_u64(seed ^ 0xabcdef)),
        pke_pk,
        pke_pk_raw,
        msg: b"{\"data\":\"identical message for every operation\"}".to_vec(),
    }
}

/// Result of one operation: the serialised output and the "fresh" fields cut out of it.
struct Out {
    text: String,
    fresh: Vec<(&'static str, Vec<u8>)>,
}

fn body(text: &str) -> Vec<u8> {
    let i = text.rfind('.').map(|i| i + 1).unwrap_or(0);
    b64_decode(&text[i..]).unwrap_or_default()
}

fn run_op<B: Backend>(fx: &Fixture<B>, op: Op) -> Result<Out, PasetoError> {
    let ver = B::VER;
    match op {
        Op::Encrypt => {
            let t = UnsealedToken::<V<B>, Local, Raw>::new(Raw(fx.msg.clone())).seal(&fx.lk, &[])?.to_string();
            let b = body(&t);
            let n = ver.local_nonce_len().min(b.len());
            Ok(Out { fresh: vec![("nonce", b[..n].to_vec())], text: t })
        }
        Op::ReEncrypt => {
            let parsed: SealedToken<V<B>, Local, Raw, Vec<u8>> = fx.sealed_local.parse()?;
            let un = parsed.unseal(&fx.lk, &[], &NoValidation::dangerous_no_validation())?;
            let t = un.seal(&fx.lk, &[])?.to_string();
            let text = t.clone();
            // the payload section is the second-to-last one here (the token has a footer)
            let mut it = text.rsplitn(3, '.');
            let _footer = it.next();
            let b = b64_decode(it.next().unwrap_or("")).unwrap_or_default();
            let n = ver.local_nonce_len().min(b.len());
            Ok(Out { fresh: vec![("nonce", b[..n].to_vec())], text: t })
        }
        Op::Sign => {
            let t = UnsealedToken::<V<B>, Public, Raw>::new(Raw(fx.msg.clone())).seal(&fx.sk, &[])?.to_string();
            let b = body(&t);
            let s = b.len().saturating_sub(ver.sig_len());
            Ok(Out { fresh: vec![("signature", b[s..].to_vec())], text: t })
        }
        Op::Pie => {
            let t = fx.lk.clone().wrap_pie(&fx.wk)?.to_string();
            let b = body(&t);
            let tl = if ver.nist() { 48 } else { 32 };
            Ok(Out { fresh: vec![("nonce", b.get(tl..tl + 32).unwrap_or_default().to_vec())], text: t })
        }
        Op::PieSecret => {
            let t = fx.sk.clone().wrap_pie(&fx.wk)?.to_string();
            let b = body(&t);
            let tl = if ver.nist() { 48 } else { 32 };
            Ok(Out { fresh: vec![("nonce", b.get(tl..tl + 32).unwrap_or_default().to_vec())], text: t })
        }
        Op::PbkwSecret => {
            let t = fx.sk.clone().password_wrap_with_params(b"password", &pw_params::<B>(&cheapest_params(ver)))?.to_string();
            let b = body(&t);
            match model::pbkw_split_blob(ver, &b) {
                Ok(p) => Ok(Out { fresh: vec![("salt", p.salt), ("nonce", p.nonce)], text: t }),
                Err(_) => Ok(Out { fresh: vec![("salt", Vec::new())], text: t }),
            }
        }
        Op::Pbkw => {
            let t = fx.lk.clone().password_wrap_with_params(b"password", &pw_params::<B>(&cheapest_params(ver)))?.to_string();
            let b = body(&t);
            match model::pbkw_split_blob(ver, &b) {
                Ok(p) => Ok(Out { fresh: vec![("salt", p.salt), ("nonce", p.nonce)], text: t }),
                Err(_) => Ok(Out { fresh: vec![("salt", Vec::new())], text: t }),
            }
        }
        Op::Pke => {
            let t = fx.lk.clone().seal(&fx.pke_pk)?.to_string();
            let b = body(&t);
            let eph = match ver {
                Ver::V1 => b.get(80..).unwrap_or_default().to_vec(),
                Ver::V3 => b.get(48..97).unwrap_or_default().to_vec(),
                _ => b.get(32..64).unwrap_or_default().to_vec(),
            };
            Ok(Out { fresh: vec![("ephemeral", eph)], text: t })
        }
        Op::RandomLocal => {
            let k = LocalKeyOf::<B>::random()?;
            let b = key_bytes(&k);
            Ok(Out { text: hex::encode(&b), fresh: vec![("key", b)] })
        }
        Op::RandomSecret => {
            let k = SecretKeyOf::<B>::random()?;
            let b = key_bytes(&k);
            Ok(Out { text: format!("<secret key, {} bytes>", b.len()), fresh: vec![("key", b)] })
        }
    }
}

/// is the op randomised at all on this back end?
fn randomised<B: Backend>(op: Op) -> bool {
    match op {
        Op::Sign => !B::DETERMINISTIC_SIG,
        _ => true,
    }
}

/// For getrandom back ends: the fresh field must be the prescribed function of the bytes drawn.
fn field_from_draws<B: Backend>(fx: &Fixture<B>, op: Op, log: &[Draw], out: &Out) -> Result<(), String> {
    let ver = B::VER;
    let ok: Vec<&Draw> = log.iter().filter(|d| !d.failed).collect();
    let need = |n: usize, len: usize| -> Result<(), String> {
        if ok.len() < n || ok[..n].iter().any(|d| d.len != len) && n == 1 {
            return Err(format!("expected >= {n} draw(s) of {len} bytes, saw {:?}", log.iter().map(|d| d.len).collect::<Vec<_>>()));
        }
        Ok(())
    };
    let field = |name: &str| out.fresh.iter().find(|f| f.0 == name).map(|f| f.1.clone()).unwrap_or_default();
    match op {
        Op::Encrypt => {
            need(1, ver.local_draw_len())?;
            let want = model::local_nonce(ver, &ok[0].bytes, &fx.msg);
            if field("nonce") != want {
                return Err(format!("token nonce {} is not the prescribed function of the drawn bytes {}", hx(&field("nonce")), hx(&ok[0].bytes)));
            }
            if ok.len() != 1 {
                return Err(format!("{} draws for one encryption", ok.len()));
            }
        }
        Op::ReEncrypt => {
            need(1, ver.local_draw_len())?;
            let want = model::local_nonce(ver, &ok[0].bytes, &fx.msg);
            if field("nonce") != want {
                return Err(format!("the nonce {} of the re-encrypted token is not the prescribed function of the bytes drawn for it {}", hx(&field("nonce")), hx(&ok[0].bytes)));
            }
        }
        Op::Pie | Op::PieSecret => {
            need(1, 32)?;
            if field("nonce") != ok[0].bytes {
                return Err("PIE nonce is not the drawn value".into());
            }
        }
        Op::Pbkw | Op::PbkwSecret => {
            if ok.len() != 2 || ok[0].len != model::pbkw_salt_len(ver) || ok[1].len != model::pbkw_nonce_len(ver) {
                return Err(format!("expected draws [salt {}, nonce {}], saw {:?}", model::pbkw_salt_len(ver), model::pbkw_nonce_len(ver), log.iter().map(|d| d.len).collect::<Vec<_>>()));
            }
            if field("salt") != ok[0].bytes || field("nonce") != ok[1].bytes {
                return Err("PBKW salt/nonce are not the drawn values".into());
            }
        }
        Op::Pke => match ver {
            Ver::V2 | Ver::V4 => {
                need(1, 32)?;
                let d: [u8; 32] = ok[0].bytes.clone().try_into().unwrap();
                if field("ephemeral")[..] != model::x25519_base(&d).map_err(|e| e)?[..] {
                    return Err("ephemeral public key is not [draw]B".into());
                }
            }
            Ver::V3 => {
                let last = ok.last().ok_or("no draw")?;
                if last.len != 48 {
                    return Err(format!("draw of {} bytes", last.len));
                }
                let want = model::p384_public(&last.bytes).map_err(|e| e)?;
                if field("ephemeral")[..] != want[..] {
                    return Err("ephemeral public key is not [draw]G".into());
                }
            }
            Ver::V1 => {
                need(1, 512)?;
                let mut r = ok[0].bytes.clone();
                r[0] = (r[0] & 0x7f) | 0x40;
                let rp = model::rsa_pub_from_spki(&fx.pke_pk_raw)?;
                if field("ephemeral") != model::rsa_kem_c(&rp, &r) {
                    return Err("RSA-KEM ciphertext is not r^e for the drawn r".into());
                }
            }
        },
        Op::RandomLocal => {
            need(1, 32)?;
            if field("key") != ok[0].bytes {
                return Err("generated local key is not the drawn value".into());
            }
        }
        Op::RandomSecret => match ver {
            Ver::V2 | Ver::V4 => {
                need(1, 32)?;
                if field("key")[..32] != ok[0].bytes[..] {
                    return Err("generated seed is not the drawn value".into());
                }
            }
            Ver::V3 => {
                let last = ok.last().ok_or("no draw")?;
                if field("key") != last.bytes {
                    return Err("generated scalar is not the drawn value".into());
                }
            }
            Ver::V1 => {}
        },
        Op::Sign => {}
    }
    Ok(())
}

fn history<B: Backend>(acc: &mut Acc, op: Op) {
    let name = B::NAME;
    if !randomised::<B>(op) {
        return;
    }
    let fx = fixture::<B>(mix(acc.seed, fnv(name.as_bytes())));
    let v1 = B::VER == Ver::V1;
    let v3 = B::VER == Ver::V3;
    let n: usize = match op {
        Op::PieSecret if v1 => acc.tier.pick(2_000, 20_000),
        Op::PbkwSecret if v1 => acc.tier.pick(1_000, 10_000),
        Op::Encrypt | Op::Pie | Op::PieSecret | Op::RandomLocal => acc.tier.pick(20_000, 100_000),
        Op::ReEncrypt => acc.tier.pick(5_000, 50_000),
        Op::Pbkw | Op::PbkwSecret => acc.tier.pick(5_000, 100_000),
        Op::Sign if v1 => acc.tier.pick(300, 3_000),
        Op::Sign => acc.tier.pick(3_000, 100_000),
        Op::Pke if v1 => acc.tier.pick(100, 2_000),
        Op::Pke if v3 => acc.tier.pick(400, 10_000),
        Op::Pke => acc.tier.pick(5_000, 100_000),
        Op::RandomSecret if v1 => acc.tier.pick(4, 40),
        Op::RandomSecret if v3 => acc.tier.pick(500, 10_000),
        Op::RandomSecret => acc.tier.pick(5_000, 100_000),
    };
    let mut seen: std::collections::HashMap<&'static str, HashSet<Vec<u8>>> = std::collections::HashMap::new();
    // per fresh field: (first value, OR over all outputs of value XOR first value): a byte position
    // whose accumulated difference stays 0 never changed - it is not drawn from the RNG
    let mut varied: std::collections::HashMap<&'static str, (Vec<u8>, Vec<u8>)> = std::collections::HashMap::new();
    let mut texts: HashSet<u64> = HashSet::new();
    let intercept = B::GETRANDOM && !(op == Op::Sign) && !(op == Op::RandomSecret && v1);
    if op == Op::ReEncrypt {
        // the nonce of the token that is being re-encrypted counts as used
        let mut it = fx.sealed_local.rsplitn(3, '.');
        let _ = it.next();
        let b = b64_decode(it.next().unwrap_or("")).unwrap_or_default();
        let k = B::VER.local_nonce_len().min(b.len());
        seen.entry("nonce").or_default().insert(b[..k].to_vec());
    }
    for i in 0..n {
        rng::begin_op();
        let r = run_op::<B>(&fx, op);
        let log = rng::end_op();
        let case = json!({"op": format!("{op:?}"), "history_index": i});
        let out = match r {
            Ok(o) => o,
            Err(e) => {
                acc.fail(Fail::new(format!("C16/{name}/{op:?}/history/failed"), format!("operation {i} of the history failed: {e}")), case);
                return;
            }
        };
        acc.eval();
        for (fname, bytes) in &out.fresh {
            if bytes.is_empty() {
                acc.fail(Fail::new(format!("C16/{name}/{op:?}/history/missing-{fname}"), "output lacks the field".to_string()), case.clone());
                return;
            }
            let e = varied.entry(fname).or_insert_with(|| (bytes.clone(), vec![0u8; bytes.len()]));
            if e.0.len() == bytes.len() {
                for (k, b) in bytes.iter().enumerate() {
                    e.1[k] |= b ^ e.0[k];
                }
            }
            if !seen.entry(fname).or_default().insert(bytes.clone()) {
                acc.fail(
                    Fail::new(format!("C16/{name}/{op:?}/history/repeated-{fname}"), format!("operation {i} re-used {fname} {} of an earlier operation with the same key and message", hx(bytes))),
                    case.clone(),
                );
                return;
            }
        }
        if !texts.insert(fnv(out.text.as_bytes())) && op != Op::RandomSecret {
            acc.fail(Fail::new(format!("C16/{name}/{op:?}/history/repeated-output"), format!("operation {i} produced an output identical to an earlier one")), case.clone());
            return;
        }
        if intercept {
            if let Err(e) = field_from_draws::<B>(&fx, op, &log, &out) {
                acc.fail(Fail::new(format!("C16/{name}/{op:?}/history/field-not-from-fresh-draw"), e), case.clone());
                return;
            }
        }
        if i >= 1 {
            acc.nt(mix(fnv(format!("{name}{op:?}").as_bytes()), i as u64));
        }
    }
    // entropy of the fresh fields: after n >= 64 outputs every byte of a nonce / salt / random key has
    // changed at least once (a byte that never changes has probability 256^-(n-1) if it is random).
    // Structured fields are exempt: DER-encoded keys, point encodings and signatures have fixed bytes.
    if n >= 64 {
        for (fname, (first, diff)) in &varied {
            let random_field = matches!(*fname, "nonce" | "salt") || (*fname == "key" && !(op == Op::RandomSecret && (v1 || B::VER == Ver::V2 || B::VER == Ver::V4)));
            if !random_field {
                continue;
            }
            let constant: Vec<usize> = diff.iter().enumerate().filter(|(_, d)| **d == 0).map(|(k, _)| k).collect();
            if !constant.is_empty() {
                acc.fail(
                    Fail::new(format!("C16/{name}/{op:?}/history/constant-bytes-in-{fname}"), format!("over {n} operations bytes {constant:?} of the {fname} never changed (always as in {}): that part of the field is not random", hx(first))),
                    json!({"op": format!("{op:?}"), "history_index": n}),
                );
                return;
            }
        }
        acc.class("history:every-byte-of-nonce/salt/key-varies");
    }
    acc.class_n(&format!("history:{op:?}"), n as u64);
    if intercept {
        acc.class_n("history:draw-log-checked", n as u64);
    }
    acc.sample(|| json!({"backend": name, "op": format!("{op:?}"), "consecutive_operations": n, "distinct_fresh_fields": seen.iter().map(|(k, v)| (k.to_string(), v.len())).collect::<std::collections::BTreeMap<_, _>>()}));
}

#[derive(Clone, Debug, Serialize, Deserialize)]
struct FaultCase {
    op: Op,
    draw_index: usize,
    fill: u8,
    /// script the FIRST draw of the operation with this byte repeated (0xff / 0x00 candidates are
    /// rejected by rejection-sampling loops, which makes the operation draw again)
    #[serde(default)]
    first_draw_fill: Option<u8>,
    /// the error the source reports (rng::error_of_kind: internal, custom, EIO, EAGAIN, unsupported)
    #[serde(default)]
    error_kind: u8,
    /// the source stays broken: every later draw of the operation fails as well
    #[serde(default)]
    persistent: bool,
}

fn fault_one<B: Backend>(acc: &mut Acc, fx: &Fixture<B>, c: &FaultCase) -> R {
    let name = B::NAME;
    rng::begin_op();
    if let Some(b) = c.first_draw_fill {
        rng::script_first_any_len(b);
    }
    rng::fail_at_with(c.draw_index, c.fill, c.error_kind, c.persistent);
    let r = catch(|| run_op::<B>(fx, c.op));
    let log = rng::end_op();
    let injected = log.iter().any(|d| d.failed);
    if !injected {
        return Err(Fail::new("HARNESS/c16-no-injection", format!("{:?} made only {} draws", c.op, log.len())));
    }
    match r {
        Err(loc) => {
            return Err(Fail::new(
                format!("C16/{name}/{:?}/rng-failure/panicked/{}", c.op, panic_site(&loc)),
                format!("RNG failure at draw {} (fill {}, error kind {}, persistent {}) made the operation panic at {loc}", c.draw_index, c.fill, c.error_kind, c.persistent),
            ));
        }
        Ok(Ok(out)) => {
            return Err(Fail::new(
                format!("C16/{name}/{:?}/rng-failure/produced-output", c.op),
                format!("RNG failure at draw {} (buffer filled {}/2; error {}; {}) still produced {}", c.draw_index, c.fill, rng::error_of_kind(c.error_kind), if c.persistent { "and at every later draw" } else { "at this draw only" }, out.text.chars().take(60).collect::<String>()),
            ));
        }
        Ok(Err(_)) => {}
    }
    // the next operation with the same keys succeeds and is fresh
    rng::begin_op();
    let again = run_op::<B>(fx, c.op);
    rng::end_op();
    if let Err(e) = again {
        return Err(Fail::new(format!("C16/{name}/{:?}/rng-failure/next-operation-fails", c.op), format!("operation after a failed one fails too: {e}")));
    }
    acc.eval();
    if c.draw_index >= 1 || c.fill > 0 {
        acc.nt(hash_of(&(name, format!("{c:?}"))));
    }
    acc.class(&format!("fault:{:?}", c.op));
    Ok(())
}

fn faults<B: Backend>(acc: &mut Acc) {
    if !B::GETRANDOM {
        return;
    }
    let name = B::NAME;
    let reps = acc.tier.pick(3u64, 30);
    let mut total = 0;
    for rep in 0..reps {
        let fx = fixture::<B>(mix(acc.seed, fnv(name.as_bytes()) ^ rep));
        for op in OPS {
            if op == Op::Sign {
                continue; // no getrandom draws (deterministic signatures / randomised signers draw elsewhere)
            }
            // v1 key generation draws through rsa::OsRng (getrandom 0.2, not injectable) on the
            // unchanged tree; should it ever draw through the injectable source, a sample of its
            // many draw indices is failed (each case is an RSA key generation)
            let v1_keygen = op == Op::RandomSecret && B::VER == Ver::V1;
            if v1_keygen && rep > 0 {
                continue;
            }
            // discover the draw indices from a clean run
            rng::begin_op();
            let clean = run_op::<B>(&fx, op);
            let log = rng::end_op();
            if clean.is_err() {
                acc.fail(Fail::new(format!("C16/{name}/{op:?}/clean-run-failed"), "operation failed without any fault".to_string()), json!({"op": format!("{op:?}")}));
                continue;
            }
            if log.is_empty() && v1_keygen {
                acc.class("fault:v1-keygen-not-injectable(rsa::OsRng)");
                continue;
            }
            if log.is_empty() {
                acc.fail(Fail::new(format!("C16/{name}/{op:?}/no-draws"), "a randomised operation made no RNG draw".to_string()), json!({"op": format!("{op:?}")}));
                continue;
            }
            let indices: Vec<usize> = if v1_keygen {
                let pick = acc.tier.pick(vec![0usize, 1, 2, 5], vec![0, 1, 2, 3, 5, 8, 13, 21, 34, 55, 89, 144]);
                pick.into_iter().filter(|k| *k + 1 < log.len()).collect()
            } else {
                (0..log.len()).collect()
            };
            for k in indices {
                for fill in 0..(if v1_keygen { 1u8 } else { 3u8 }) {
                    // every error a source can report, failing once or from this draw on
                    let kinds: Vec<(u8, bool)> = if v1_keygen { vec![((k % rng::ERROR_KINDS as usize) as u8, k % 2 == 1)] } else { (0..rng::ERROR_KINDS).flat_map(|e| [(e, false), (e, true)]).collect() };
                    for (error_kind, persistent) in kinds {
                        let c = FaultCase { op, draw_index: k, fill, first_draw_fill: None, error_kind, persistent };
                        total += 1;
                        acc.check(&c, |acc| fault_one::<B>(acc, &fx, &c));
                    }
                }
            }
            // retry paths: a first candidate of all-ones / all-zero bytes is rejected by rejection
            // sampling (P-384 scalars); the redraws it causes must fail closed as well
            for pattern in [0xffu8, 0x00] {
                rng::begin_op();
                rng::script_first_any_len(pattern);
                let retried = run_op::<B>(&fx, op);
                let log2 = rng::end_op();
                if retried.is_err() || log2.len() <= log.len() {
                    continue;
                }
                acc.class("fault:retry-path-reached");
                for k in log.len()..log2.len() {
                    for fill in 0..3u8 {
                        for (error_kind, persistent) in [(0u8, false), (2, true), (1, true)] {
                            let c = FaultCase { op, draw_index: k, fill, first_draw_fill: Some(pattern), error_kind, persistent };
                            total += 1;
                            acc.check(&c, |acc| fault_one::<B>(acc, &fx, &c));
                        }
                    }
                }
            }
        }
    }
    acc.exhaustive.push(format!("{name}: every (operation kind x draw index x fill in {{0, 1/2, full}} x error in {{internal, custom, EIO, EAGAIN, unsupported}} x {{this draw only, every draw from here on}}) x {reps} key sets = {total} injected failures"));
    acc.sample(|| json!({"backend": name, "injected_failures": total, "example": {"op": "Pbkw", "draw_index": 1, "fill": "half the buffer"}}));
}

fn subs_for<B: Backend>(out: &mut Vec<SubCheck>) {
    for op in OPS {
        out.push(SubCheck::custom(
            format!("c16.history/{}/{op:?}", B::NAME),
            if B::VER == Ver::V1 && matches!(op, Op::Pke | Op::RandomSecret | Op::Sign) { 12 } else { 4 },
            move |acc: &mut Acc| history::<B>(acc, op),
            move |_v: &Value, acc: &mut Acc| {
                history::<B>(acc, op);
                Ok(())
            },
        ));
    }
    if B::GETRANDOM {
        out.push(SubCheck::custom(
            format!("c16.faults/{}", B::NAME),
            6,
            |acc: &mut Acc| faults::<B>(acc),
            |v: &Value, acc: &mut Acc| {
                let c: FaultCase = serde_json::from_value(v.clone()).map_err(|e| Fail::new("HARNESS/replay-decode", format!("{e}")))?;
                let fx = fixture::<B>(1);
                fault_one::<B>(acc, &fx, &c)
            },
        )
        // in a child process, supervised: an operation that keeps drawing from a source that keeps
        // failing (and so never returns) is decided by CPU time and a control run, not by the watchdog
        .isolated());
    }
}

pub fn def() -> PropertyDef {
    let mut subs = Vec::new();
    crate::for_backends!(B => subs_for::<B>(&mut subs));
    PropertyDef {
        id: "C16",
        level: "fault_enumeration",
        rule: "(1) histories: per back end and operation kind {encrypt, sign (randomised signers), PIE wrap and password wrap (of a local and of a secret key), key seal, LocalKey::random, SecretKey::random, decrypt-then-encrypt-again of the returned UnsealedToken} N consecutive operations with IDENTICAL keys and messages (N = 20000 / 5000 / 100..3000 for RSA- and ECDH-bound kinds in quick, up to 10^5 thorough); the nonce / salt / ephemeral key / signature / key of every output goes into a set: no repeats, no identical outputs; on getrandom back ends the draw log must show the draw(s) of the specified width and the output field must be the prescribed function of the drawn bytes (v3/v4 nonce = draw, v1/v2 nonce = MAC(draw, m), PBKW salt/nonce = draws, epk = [draw]G, c = r^e, generated key = draw); every byte position of every nonce / salt / random key must change at least once over a history (a constant byte means that part is not drawn from the RNG); (2) fault sequences on getrandom back ends: for every operation kind and EVERY draw index it makes, the draw fails after filling 0, half or all of the buffer (including the extra draws of rejection-sampling retry paths, reached by scripting an all-ones / all-zero first candidate): the result must be Err (no panic, no output, and it must RETURN: the fault sub-checks run supervised in child processes, a case that consumes 60 s of CPU without returning, and again in a fresh process, is a violation) and the next operation must succeed. Non-trivial iff the operation has a predecessor with identical inputs / an injected failure at index >= 1 or with a partially filled buffer",
        assumptions: vec![
            "aws-lc (RAND_bytes), libsodium (randombytes) and rsa::OsRng (getrandom 0.2) cannot be failed in-process; for them only the history part applies",
            "getrandom back ends draw from a seeded deterministic stream during histories (distinct per draw), so a repeat can only come from the library",
        ],
        subs,
    }
}
