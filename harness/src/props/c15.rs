//! C15 — pre-authentication encoding is exactly the spec's PAE and is injective.

use paseto_core::pae::{WriteBytes, pre_auth_encode};
use proptest::prelude::*;
use serde::{Deserialize, Serialize};
use serde_json::json;

use crate::engine::*;
use crate::ensure;
use crate::refmodel as model;

#[derive(Clone, Debug, Serialize, Deserialize)]
pub struct Case {
    /// pieces -> fragments -> bytes (hex)
    pub pieces: Vec<Vec<String>>,
    /// index of a boundary to shift and by how much (for the injectivity pair)
    pub shift_at: u16,
    pub shift_by: u8,
}

fn frag() -> impl Strategy<Value = String> {
    prop_oneof![
        2 => Just(String::new()),
        6 => proptest::collection::vec(any::<u8>(), 1..24).prop_map(hex::encode),
        2 => proptest::collection::vec(any::<u8>(), 24..=600).prop_map(hex::encode),
        1 => (1usize..=600, any::<u8>()).prop_map(|(n, b)| hex::encode(vec![b; n])),
        // long fragments: around and beyond sizes at which an implementation might switch strategy
        1 => (prop::sample::select(vec![1023usize, 1024, 1025, 2047, 2048, 4096, 8191, 8192, 8193, 20000, 65536, 70000]), any::<u8>()).prop_map(|(n, b)| hex::encode(vec![b; n])),
    ]
}

fn strat() -> impl Strategy<Value = Case> {
    (proptest::collection::vec(proptest::collection::vec(frag(), 0..=4), 0..=8), any::<u16>(), 1u8..=3)
        .prop_map(|(pieces, shift_at, shift_by)| Case { pieces, shift_at, shift_by })
}

struct Recorder(Vec<Vec<u8>>);
impl WriteBytes for Recorder {
    fn write(&mut self, slice: &[u8]) {
        self.0.push(slice.to_vec());
    }
}

fn pae_n<const N: usize>(frags: &[Vec<Vec<u8>>], out: impl WriteBytes) {
    let refs: Vec<Vec<&[u8]>> = frags.iter().map(|p| p.iter().map(|f| f.as_slice()).collect()).collect();
    let arr: [&[&[u8]]; N] = std::array::from_fn(|i| refs[i].as_slice());
    pre_auth_encode(arr, out);
}

fn pae_dyn(frags: &[Vec<Vec<u8>>], out: impl WriteBytes) {
    match frags.len() {
        0 => pae_n::<0>(frags, out),
        1 => pae_n::<1>(frags, out),
        2 => pae_n::<2>(frags, out),
        3 => pae_n::<3>(frags, out),
        4 => pae_n::<4>(frags, out),
        5 => pae_n::<5>(frags, out),
        6 => pae_n::<6>(frags, out),
        7 => pae_n::<7>(frags, out),
        _ => pae_n::<8>(frags, out),
    }
}

fn lib_pae(frags: &[Vec<Vec<u8>>]) -> Vec<u8> {
    let mut v = Vec::new();
    pae_dyn(frags, &mut v);
    v
}

fn run_case(c: &Case, acc: &mut Acc) -> R {
    let frags: Vec<Vec<Vec<u8>>> = c.pieces.iter().take(8).map(|p| p.iter().map(|f| hex::decode(f).unwrap_or_default()).collect()).collect();
    let pieces: Vec<Vec<u8>> = frags.iter().map(|p| p.concat()).collect();
    let piece_refs: Vec<&[u8]> = pieces.iter().map(|p| p.as_slice()).collect();
    let out = lib_pae(&frags);
    let want = model::pae(&piece_refs);
    if out != want {
        let first = out.iter().zip(want.iter()).position(|(a, b)| a != b).unwrap_or(out.len().min(want.len()));
        return Err(Fail::new(
            "C15/pae/differs-from-spec",
            format!("pre_auth_encode of {} pieces (fragment counts {:?}) differs from LE64(n) || LE64(len) || piece ... at byte {first}", pieces.len(), frags.iter().map(|p| p.len()).collect::<Vec<_>>()),
        ));
    }
    // injectivity: the output parses back to exactly this piece list
    let parsed = model::pae_parse(&out);
    ensure!(parsed.as_ref() == Some(&pieces), "C15/pae/not-invertible", "the PAE output does not parse back to the piece list it encodes");
    // streaming writers receive the same byte sequence
    let mut rec = Recorder(Vec::new());
    pae_dyn(&frags, &mut rec);
    ensure!(rec.0.concat() == out, "C15/pae/streaming-differs", "chunks written to a streaming writer differ from the buffered output");
    // via &mut W adapter
    let mut rec2 = Recorder(Vec::new());
    {
        let r: &mut Recorder = &mut rec2;
        pae_dyn(&frags, r);
    }
    ensure!(rec2.0.concat() == out, "C15/pae/streaming-ref-differs", "&mut writer adapter differs");

    // boundary-shift pair: same concatenation, different boundaries => different encodings
    let mut shifted = false;
    if pieces.len() >= 2 {
        let b = crate::gens::idx(c.shift_at, pieces.len() - 1);
        let k = c.shift_by as usize;
        let mut p2 = pieces.clone();
        if p2[b].len() >= k {
            let cut = p2[b].len() - k;
            let tail = p2[b].split_off(cut);
            let mut nb = tail;
            nb.extend_from_slice(&p2[b + 1]);
            p2[b + 1] = nb;
            let f2: Vec<Vec<Vec<u8>>> = p2.iter().map(|p| vec![p.clone()]).collect();
            let out2 = lib_pae(&f2);
            ensure!(p2.concat() == pieces.concat(), "HARNESS/c15-shift", "shift changed the concatenation");
            ensure!(out2 != out, "C15/pae/boundary-shift-collision", "moving {k} byte(s) across the boundary after piece {b} does not change the encoding");
            shifted = true;
        }
    }
    // a piece given as one fragment or as several encodes identically
    let single: Vec<Vec<Vec<u8>>> = pieces.iter().map(|p| vec![p.clone()]).collect();
    ensure!(lib_pae(&single) == out, "C15/pae/fragmentation-matters", "the same pieces encode differently when fragmented differently");

    acc.eval();
    let multi = frags.iter().any(|p| p.len() >= 2);
    if (pieces.len() >= 2 && multi) || shifted {
        acc.nt(hash_of(&c.pieces));
    }
    acc.class(&format!("pieces:{}", pieces.len()));
    if multi {
        acc.class("has-multi-fragment-piece");
    }
    if frags.iter().any(|p| p.is_empty()) {
        acc.class("has-zero-fragment-piece");
    }
    if shifted {
        acc.class("boundary-shift-pair");
    }
    acc.sample(|| json!({"fragment_lengths": frags.iter().map(|p| p.iter().map(|f| f.len()).collect::<Vec<_>>()).collect::<Vec<_>>(), "encoded_len": out.len()}));
    Ok(())
}


// ---------------------------------------------------------------------------
// the back ends' private streaming writers (digest / MAC / signature adapters) must receive the
// same byte sequence: observable as MAC / signature over the reference PAE for pieces of every size

/// failing unseal calls (wrong key, then a corrupted tag / signature) on back end B, on this thread
fn rejected_operations_first<B: crate::backends::Backend>(n: u8) {
    use crate::backends::*;
    use paseto_core::tokens::{SealedToken, UnsealedToken};
    use paseto_core::validation::NoValidation;
    use paseto_core::version::{Local, Public};
    let ks = KeySeed::from_u64(0x15a);
    let other = KeySeed::from_u64(0x15b);
    let msg = vec![0x5au8; 300];
    for round in 0..n {
        if let Ok(t) = UnsealedToken::<V<B>, Public, Raw>::new(Raw(msg.clone())).with_footer(vec![round; 40]).seal(&secret_key::<B>(&ks), &[]) {
            let wrong = secret_key::<B>(&other).public_key();
            let r = t.to_string().parse::<SealedToken<V<B>, Public, Raw, Vec<u8>>>().and_then(|t| t.unseal(&wrong, &[], &NoValidation::dangerous_no_validation()));
            debug_assert!(r.is_err());
        }
        if let Ok(t) = UnsealedToken::<V<B>, Local, Raw>::new(Raw(msg.clone())).with_footer(vec![round; 40]).seal(&local_key::<B>(&ks), &[]) {
            let r = t.to_string().parse::<SealedToken<V<B>, Local, Raw, Vec<u8>>>().and_then(|t| t.unseal(&local_key::<B>(&other), &[], &NoValidation::dangerous_no_validation()));
            debug_assert!(r.is_err());
        }
    }
}

fn writers_for<B: crate::backends::Backend>(out: &mut Vec<SubCheck>) {
    use crate::backends::KeySeed;
    use crate::gens::BytesSpec;
    use crate::props::c03::{self, LCase, NonceKind, PCase};
    let piece = || (0u32..=700, 0u8..4, any::<u32>()).prop_map(|(len, fill, seed)| BytesSpec { len, fill, seed });
    let cases = match B::NAME {
        "paseto-v1" => (60, 600),
        "paseto-v3" => (80, 1000),
        "paseto-v3-aws-lc" => (150, 2000),
        _ => (400, 6000),
    };
    let relabel = |r: R| r.map_err(|f| Fail::new(f.sig.replacen("C03/", "C15/backend-writer/", 1), f.what));
    out.push(SubCheck::prop(
        format!("c15.backend-writers/{}", B::NAME),
        5,
        cases,
        move |_t| {
            let has_i = B::VER.has_assertion();
            // the header piece is passed as three fragments (version, payload-encoding suffix, purpose):
            // a third of the cases use a payload type with a non-empty suffix so that their order matters
            (any::<u64>(), piece(), piece(), piece(), any::<u32>(), (any::<bool>(), 0u8..4), prop::bool::weighted(0.35)).prop_map(move |(k, msg, footer, assertion, n, (public, before), suffix)| {
                let assertion = if has_i { assertion } else { BytesSpec::empty() };
                ((public, before), LCase { suffix, key: KeySeed::from_u64(k), msg: msg.clone(), footer: footer.clone(), assertion: assertion.clone(), nonce: NonceKind::Seed(n) }, PCase { suffix, key_variant: 0, key: KeySeed::from_u64(k), msg, footer, assertion, signer: (n % 3) as u8 })
            })
        },
        move |c: &((bool, u8), LCase, PCase), acc: &mut Acc| {
            crate::rng::reseed_case(hash_of(&c.1.key));
            // a writer must start empty whatever happened before on this thread: half of the cases are
            // preceded by rejected verifications / decryptions on the same back end
            if c.0.1 >= 2 {
                rejected_operations_first::<B>(c.0.1);
                acc.class("history:after-rejected-operations");
            } else {
                acc.class("history:fresh");
            }
            if c.0.0 { relabel(c03::public_case::<B>(&c.2, acc)) } else { relabel(c03::local_case::<B>(&c.1, acc)) }
        },
    ));
}

// ---------------------------------------------------------------------------
// pieces of 2^31 .. 2^33 bytes: the length prefix is a 64-bit integer, whatever the width of the
// arithmetic that produced it.  The piece is one 1 MiB buffer passed as thousands of fragments;
// the writer keeps the first bytes, a running checksum and the byte count - nothing is copied.

struct Counting {
    head: Vec<u8>,
    /// where the interesting length fields end up: bytes [keep_from, keep_from + 64) of the stream
    total: u64,
    tail: Vec<u8>,
}
impl WriteBytes for Counting {
    fn write(&mut self, slice: &[u8]) {
        if self.head.len() < 64 {
            let n = (64 - self.head.len()).min(slice.len());
            self.head.extend_from_slice(&slice[..n]);
        }
        self.total += slice.len() as u64;
        // the last 32 bytes of the stream
        if slice.len() >= 32 {
            self.tail = slice[slice.len() - 32..].to_vec();
        } else {
            self.tail.extend_from_slice(slice);
            let n = self.tail.len();
            if n > 32 {
                self.tail.drain(..n - 32);
            }
        }
    }
}

#[derive(Clone, Debug, Serialize, Deserialize)]
struct HugeCase {
    /// total length of the big piece
    len: u64,
    /// which of the three pieces is the big one
    position: u8,
}

fn huge_case(c: &HugeCase) -> R {
    const MIB: usize = 1 << 20;
    let buf = vec![0x5au8; MIB];
    let full = (c.len / MIB as u64) as usize;
    let rest = (c.len % MIB as u64) as usize;
    let mut frags: Vec<&[u8]> = std::iter::repeat(&buf[..]).take(full).collect();
    if rest > 0 {
        frags.push(&buf[..rest]);
    }
    let small_a: &[u8] = b"head";
    let small_b: &[u8] = b"tail-piece";
    let a = [small_a];
    let b = [small_b];
    let pieces: [&[&[u8]]; 3] = match c.position % 3 {
        0 => [&frags, &a, &b],
        1 => [&a, &frags, &b],
        _ => [&a, &b, &frags],
    };
    let mut w = Counting { head: Vec::new(), total: 0, tail: Vec::new() };
    pre_auth_encode(pieces, &mut w);
    // reference: count, then per piece LE64(len) || bytes
    let lens: [u64; 3] = match c.position % 3 {
        0 => [c.len, 4, 10],
        1 => [4, c.len, 10],
        _ => [4, 10, c.len],
    };
    let want_total = 8 + lens.iter().map(|l| 8 + l).sum::<u64>();
    ensure!(w.total == want_total, "C15/pae/huge-piece/total-length", "encoding a {}-byte piece wrote {} bytes, the specification prescribes {want_total}", c.len, w.total);
    let mut want_head = 3u64.to_le_bytes().to_vec();
    want_head.extend_from_slice(&lens[0].to_le_bytes());
    let first: &[u8] = match c.position % 3 {
        0 => &buf[..48],
        _ => small_a,
    };
    want_head.extend_from_slice(first);
    if c.position % 3 != 0 {
        want_head.extend_from_slice(&lens[1].to_le_bytes());
    }
    let n = want_head.len().min(64).min(w.head.len());
    ensure!(
        w.head[..n] == want_head[..n],
        "C15/pae/huge-piece/length-prefix",
        "with a piece of {} bytes (position {}) the encoding starts {} but the specification prescribes {}",
        c.len,
        c.position % 3,
        hex::encode(&w.head[..n]),
        hex::encode(&want_head[..n])
    );
    Ok(())
}

fn huge_pieces(acc: &mut Acc) {
    let lens: Vec<u64> = acc.tier.pick(vec![(1u64 << 31) - 1, 1 << 31, (1 << 31) + 5, (1 << 32) + 7], vec![(1u64 << 31) - 1, 1 << 31, (1 << 31) + 5, (1 << 32) - 1, 1 << 32, (1 << 32) + 7, (1 << 33) + 3]);
    for len in lens {
        for position in 0..3u8 {
            let c = HugeCase { len, position };
            acc.eval();
            acc.nt(hash_of(&(len, position)));
            acc.class("huge-piece");
            acc.check(&c, |_| huge_case(&c));
        }
    }
    acc.sample(|| json!({"huge_piece_lengths": "2^31-1, 2^31, 2^31+5, 2^32+7 (thorough: also 2^32-1, 2^32, 2^33+3), each as first / middle / last of three pieces", "method": "one 1 MiB buffer passed as thousands of fragments into a counting writer"}));
}

// ---------------------------------------------------------------------------
// end-to-end form of "bytes can never be shifted between footer and assertion": on EVERY back end
// (also those whose version has no implicit assertion - they must refuse one, not fold it into
// another piece), a token sealed for (footer F, assertion A) is never accepted for another split
// (F', A') of the same byte string F || A.

#[derive(Clone, Debug, Serialize, Deserialize)]
struct ShiftCase {
    public: bool,
    key: u64,
    msg_len: u16,
    #[serde(with = "crate::util::hexser")]
    footer: Vec<u8>,
    #[serde(with = "crate::util::hexser")]
    assertion: Vec<u8>,
}

fn shift_case<B: crate::backends::Backend>(c: &ShiftCase, acc: &mut Acc) -> R {
    use crate::backends::*;
    use paseto_core::tokens::{SealedToken, UnsealedToken};
    use paseto_core::validation::NoValidation;
    use paseto_core::version::{Local, Public};
    let name = B::NAME;
    let ks = KeySeed::from_u64(c.key % 16);
    let msg = vec![0x6du8; c.msg_len as usize];
    crate::rng::reseed_case(hash_of(&(c.key, &c.footer, &c.assertion)));
    // seal with the assertion if the back end takes one, else without
    let seal = |aad: &[u8]| -> Result<String, paseto_core::PasetoError> {
        if c.public {
            UnsealedToken::<V<B>, Public, Raw>::new(Raw(msg.clone())).with_footer(c.footer.clone()).seal(&secret_key::<B>(&ks), aad).map(|t| t.to_string())
        } else {
            UnsealedToken::<V<B>, Local, Raw>::new(Raw(msg.clone())).with_footer(c.footer.clone()).seal(&local_key::<B>(&ks), aad).map(|t| t.to_string())
        }
    };
    let (text, sealed_aad): (String, Vec<u8>) = match seal(&c.assertion) {
        Ok(t) => (t, c.assertion.clone()),
        Err(_) if !c.assertion.is_empty() => {
            acc.class("shift:assertion-refused-at-seal");
            (seal(&[]).unwrap_or_else(|e| library_refused("sealing without an assertion", &e)), Vec::new())
        }
        Err(e) => library_refused("sealing without an assertion", &e),
    };
    let unseal = |text: &str, aad: &[u8]| -> bool {
        if c.public {
            text.parse::<SealedToken<V<B>, Public, Raw, Vec<u8>>>().and_then(|t| t.unseal(&secret_key::<B>(&ks).public_key(), aad, &NoValidation::dangerous_no_validation())).is_ok()
        } else {
            text.parse::<SealedToken<V<B>, Local, Raw, Vec<u8>>>().and_then(|t| t.unseal(&local_key::<B>(&ks), aad, &NoValidation::dangerous_no_validation())).is_ok()
        }
    };
    let purpose = if c.public { "public" } else { "local" };
    ensure!(unseal(&text, &sealed_aad), format!("C15/{name}/{purpose}/shift/control-rejected"), "the token does not unseal under the footer and assertion it was sealed with");
    // every other split of F || A
    let mut whole = c.footer.clone();
    whole.extend_from_slice(&sealed_aad);
    let head: String = {
        let mut it = text.splitn(4, '.');
        let (a, b, p) = (it.next().unwrap_or(""), it.next().unwrap_or(""), it.next().unwrap_or(""));
        format!("{a}.{b}.{p}")
    };
    let mut tried = 0u64;
    for cut in 0..=whole.len() {
        if cut == c.footer.len() {
            continue;
        }
        let (f2, a2) = whole.split_at(cut);
        let t2 = if f2.is_empty() { head.clone() } else { format!("{head}.{}", crate::util::b64_encode(f2)) };
        tried += 1;
        if unseal(&t2, a2) {
            return Err(Fail::new(
                format!("C15/{name}/{purpose}/shift/footer-assertion-boundary-moved/accepted"),
                format!("a token sealed with a {}-byte footer and a {}-byte assertion is accepted with a {}-byte footer and a {}-byte assertion (same concatenation)", c.footer.len(), sealed_aad.len(), f2.len(), a2.len()),
            ));
        }
    }
    acc.evals_n(tried);
    acc.nt(hash_of(&(name, c.public, c.footer.len(), sealed_aad.len())));
    acc.class(if sealed_aad.is_empty() { "shift:sealed-without-assertion" } else { "shift:sealed-with-assertion" });
    Ok(())
}

fn shifts_for<B: crate::backends::Backend>(out: &mut Vec<SubCheck>) {
    let cases = match B::NAME {
        "paseto-v1" => (12, 150),
        "paseto-v3" => (40, 600),
        "paseto-v3-aws-lc" => (80, 1200),
        _ => (150, 3000),
    };
    out.push(SubCheck::prop(
        format!("c15.footer-assertion-shifts/{}", B::NAME),
        4,
        cases,
        |_t| (any::<bool>(), any::<u64>(), prop_oneof![Just(0u16), 1u16..200], proptest::collection::vec(any::<u8>(), 0..12), proptest::collection::vec(any::<u8>(), 0..8)).prop_map(|(public, key, msg_len, footer, assertion)| ShiftCase { public, key, msg_len, footer, assertion }),
        |c: &ShiftCase, acc: &mut Acc| shift_case::<B>(c, acc),
    ));
}

pub fn def() -> PropertyDef {
    let mut subs = vec![SubCheck::prop("c15.pae", 1, (20000, 400000), |_t| strat(), run_case)];
    subs.push(SubCheck::custom("c15.huge-pieces", 6, huge_pieces, |v: &serde_json::Value, _acc: &mut Acc| {
        let c: HugeCase = serde_json::from_value(v.clone()).map_err(|e| Fail::new("HARNESS/replay-decode", format!("{e}")))?;
        huge_case(&c)
    }));
    crate::for_backends!(B => writers_for::<B>(&mut subs));
    crate::for_backends!(B => shifts_for::<B>(&mut subs));
    PropertyDef {
        id: "C15",
        level: "exploration",
        rule: "proptest cases: piece count 0..8 (one const-generic instantiation per N) x 0..4 fragments per piece x fragment lengths 0..600 plus long fragments (1023..70000 bytes); oracle: output equals the reference PAE of the concatenated pieces, the reference PAE parser recovers exactly the piece list (injectivity), a recording streaming writer and the &mut adapter receive the same bytes, re-fragmenting does not change the output, and moving 1-3 bytes across a piece boundary always changes it; pieces of 2^31-1 .. 2^32+7 bytes (thorough 2^33+3), streamed as thousands of fragments of one buffer into a counting writer, carry their true 64-bit length and the stream has the prescribed total length; the back ends' private digest / MAC / signature writer adapters are exercised through tokens whose message, footer and assertion have every length 0..700, with and without a payload-encoding suffix in the fragmented header piece, on a fresh thread state and after rejected operations on the same thread: the tag / signature must be the one over the reference PAE (bit-exact token, independent verifier, sibling acceptance); end to end on every back end (also the versions without implicit assertions, which must refuse one rather than fold it into another piece): a token sealed for (footer F of 0..11 bytes, assertion A of 0..7 bytes) is accepted for no other split (F', A') of the byte string F || A. Non-trivial iff >= 2 pieces with a multi-fragment piece, or a boundary-shift pair was checked",
        assumptions: vec!["the back ends' writer adapters are private: they are observed through the MAC / signature they produce"],
        subs,
    }
}
