//! C07 — PASERK wraps, password-wraps and seals are bit-exact per spec and interoperate.

use paseto_core::PasetoError;
use paseto_core::key::{HasKey, SealingKey};
use paseto_core::paserk::{PasswordWrappedKey, PieWrappedKey, SealedKey};
use paseto_core::version::{Local, PkeSecret, Secret};
use proptest::prelude::*;
use serde::{Deserialize, Serialize};
use serde_json::json;

use crate::backends::*;
use crate::engine::*;
use crate::ensure;
use crate::gens::{self, BytesSpec};
use crate::props::c03::{IvGuard, NonceKind, nonce_kind};
use crate::props::c05::params_strategy;
use crate::refmodel::{self as model, PwParams, Ver};
use crate::rng;
use crate::util::b64_decode;

#[derive(Clone, Debug, Serialize, Deserialize)]
pub struct Case {
    /// 0 PIE, 1 PBKW, 2 PKE
    pub kind: u8,
    pub secret: bool,
    pub wrapped: KeySeed,
    pub wrapping: KeySeed,
    pub password: BytesSpec,
    pub params: PwParams,
    pub nonce: NonceKind,
    pub salt_seed: u32,
    /// force the derived counter block (hook) for PIE / PKE on v1 / v3
    pub forced_iv: Option<NonceKind>,
}

fn strat<B: Backend>(tier: Tier, kind: u8) -> impl Strategy<Value = Case> {
    let hook = matches!(B::VER, Ver::V1 | Ver::V3) && kind != 1;
    let forced = if hook { prop_oneof![2 => Just(None), 1 => nonce_kind().prop_map(Some)].boxed() } else { Just(None).boxed() };
    (
        any::<bool>(),
        gens::key_seed(),
        gens::key_seed(),
        gens::password(),
        params_strategy::<B>(tier),
        nonce_kind(),
        any::<u32>(),
        forced,
        prop::bool::weighted(0.12),
    )
        .prop_map(move |(secret, wrapped, wrapping, password, params, nonce, salt_seed, forced_iv, same)| {
            // one case in eight: the key is wrapped under ITSELF (for v2/v4 secret keys: the Ed25519 seed
            // equals the wrapping key) - a conforming blob like any other
            let wrapping = if same { wrapped.clone() } else { wrapping };
            // parallelism > 1 only where the back end supports it (the sibling check then skips libsodium)
            let params = match params {
                PwParams::Argon2id { mem_bytes, time, para } => PwParams::Argon2id { mem_bytes: (mem_bytes / 1024 * 1024).max(8192 * para as u64), time, para },
                p => p,
            };
            Case { kind, secret: secret && kind != 2, wrapped, wrapping, password, params, nonce, salt_seed, forced_iv }
        })
}

fn kname(kind: u8) -> &'static str {
    ["pie", "pbkw", "pke"][kind as usize]
}

fn unwrap_on<T: Backend, K: SealingKey>(kind: u8, text: &str, wk_raw: &[u8; 32], pw: &[u8]) -> Result<Vec<u8>, PasetoError>
where
    V<T>: HasKey<K>,
{
    match kind {
        0 => {
            let wk = key_from_bytes::<V<T>, Local>(wk_raw)?;
            text.parse::<PieWrappedKey<V<T>, K>>()?.unwrap(&wk).map(|k| key_bytes(&k))
        }
        _ => text.parse::<PasswordWrappedKey<V<T>, K>>()?.unwrap(pw).map(|k| key_bytes(&k)),
    }
}

fn unwrap_any<T: Backend>(kind: u8, secret: bool, text: &str, wk_raw: &[u8; 32], pw: &[u8]) -> Result<Vec<u8>, PasetoError> {
    if secret { unwrap_on::<T, Secret>(kind, text, wk_raw, pw) } else { unwrap_on::<T, Local>(kind, text, wk_raw, pw) }
}

fn unseal_on<T: Backend>(text: &str, sk_raw: &[u8]) -> Result<Vec<u8>, PasetoError> {
    let sk = key_from_bytes::<V<T>, PkeSecret>(sk_raw)?;
    text.parse::<SealedKey<V<T>>>()?.unseal(&sk).map(|k| key_bytes(&k))
}

fn same_key(a: &[u8], b: &[u8]) -> bool {
    model::pem_to_der(a) == model::pem_to_der(b)
}

/// every back end of the version (B itself and its sibling) must unwrap `text` to `want`
fn all_backends_unwrap<B: Backend>(acc: &mut Acc, c: &Case, text: &str, want: &[u8], what: &str) -> R {
    let ver = B::VER;
    let wk_raw = local_key_bytes(&c.wrapping);
    let pw = c.password.bytes();
    let sk_raw = pke_secret_bytes(ver, &c.wrapping);
    let mut err: Option<Fail> = None;
    crate::for_backends!(T => {
        let para_ok = T::PBKW_PARALLEL || c.kind != 1 || !matches!(c.params, PwParams::Argon2id { para, .. } if para > 1);
        if T::VER == ver && err.is_none() && !para_ok {
            acc.class("unwrap:sibling-skipped(parallelism unsupported there)");
        }
        if T::VER == ver && err.is_none() && para_ok {
            let r = if c.kind == 2 { unseal_on::<T>(text, &sk_raw) } else { unwrap_any::<T>(c.kind, c.secret, text, &wk_raw, &pw) };
            let who = if T::NAME == B::NAME { "self".to_string() } else { format!("sibling/{}", T::NAME) };
            match r {
                Ok(k) if same_key(&k, want) => acc.class(if T::NAME == B::NAME { "unwrap:self" } else { "unwrap:sibling" }),
                Ok(_) => err = Some(Fail::new(format!("C07/{}/{}/{what}/{who}/key-differs", B::NAME, kname(c.kind)), format!("{} unwraps a {what} blob to a different key (nonce kind {:?}, forced iv {:?})", T::NAME, c.nonce, c.forced_iv))),
                Err(e) => err = Some(Fail::new(format!("C07/{}/{}/{what}/{who}/rejected", B::NAME, kname(c.kind)), format!("{} rejects a {what} blob: {e}", T::NAME))),
            }
        }
    });
    match err {
        Some(f) => Err(f),
        None => Ok(()),
    }
}

fn run_case<B: Backend>(c: &Case, acc: &mut Acc) -> R {
    let name = B::NAME;
    let ver = B::VER;
    let kn = kname(c.kind);
    let ks = if c.secret { "secret" } else { "local" };
    let ptk: Vec<u8> = if c.secret { secret_bytes(ver, &c.wrapped) } else { local_key_bytes(&c.wrapped).to_vec() };
    let wk_raw = local_key_bytes(&c.wrapping);
    let wk = local_key::<B>(&c.wrapping);
    let pw = c.password.bytes();
    let iv: Option<[u8; 16]> = c.forced_iv.as_ref().map(|k| k.bytes(16).try_into().unwrap());
    let _g = iv.map(IvGuard::<B>::new);

    // (1) impl -> spec: the library's output equals the model's blob for the randomness it embeds
    let lib_text: String = match (c.kind, c.secret) {
        (0, false) => local_key::<B>(&c.wrapped).wrap_pie(&wk).map(|w| w.to_string()),
        (0, true) => secret_key::<B>(&c.wrapped).wrap_pie(&wk).map(|w| w.to_string()),
        (1, false) => local_key::<B>(&c.wrapped).password_wrap_with_params(&pw, &pw_params::<B>(&c.params)).map(|w| w.to_string()),
        (1, true) => secret_key::<B>(&c.wrapped).password_wrap_with_params(&pw, &pw_params::<B>(&c.params)).map(|w| w.to_string()),
        _ => {
            let (_, pk, _, _) = pke_pair::<B>(&c.wrapping);
            local_key::<B>(&c.wrapped).seal(&pk).map(|w| w.to_string())
        }
    }
    .map_err(|e| Fail::new(format!("C07/{name}/{kn}/{ks}/wrap-failed"), format!("{e}")))?;
    // the library serialises v1 secret keys as DER; the wrapped plaintext is what HasKey::encode gives
    let lib_ptk: Vec<u8> = if c.secret { key_bytes(&secret_key::<B>(&c.wrapped)) } else { ptk.clone() };
    let h_len = lib_text.rfind('.').map(|i| i + 1).unwrap_or(0);
    let blob = b64_decode(&lib_text[h_len..]).ok_or_else(|| Fail::new(format!("C07/{name}/{kn}/{ks}/display"), "not base64url"))?;
    let spec_text: String = match c.kind {
        0 => {
            let tl = if ver.nist() { 48 } else { 32 };
            ensure!(blob.len() >= tl + 32, format!("C07/{name}/pie/{ks}/impl-vs-spec/length"), "blob too short");
            let n: [u8; 32] = blob[tl..tl + 32].try_into().unwrap();
            model::pie_wrap_iv(ver, ks, &wk_raw, &n, &lib_ptk, iv.as_ref())
        }
        1 => {
            let p = model::pbkw_split_blob(ver, &blob).map_err(|e| Fail::new(format!("C07/{name}/pbkw/{ks}/impl-vs-spec/layout"), e))?;
            ensure!(p.params == c.params, format!("C07/{name}/pbkw/{ks}/impl-vs-spec/params-field"), "parameter field {:?} != requested {:?}", p.params, c.params);
            model::pbkw_wrap(ver, ks, &pw, &p.params, &p.salt, &p.nonce, &lib_ptk).map_err(|e| Fail::new("HARNESS/model-pbkw", e))?
        }
        _ => {
            let sk_raw = pke_secret_bytes(ver, &c.wrapping);
            match ver {
                Ver::V2 | Ver::V4 => {
                    ensure!(blob.len() == 96, format!("C07/{name}/pke/impl-vs-spec/length"), "blob length {}", blob.len());
                    model::pke_recompute_25519(ver, &sk_raw, &blob[32..64], &ptk).map_err(|e| Fail::new("HARNESS/model-pke", e))?
                }
                Ver::V3 => {
                    ensure!(blob.len() == 129, format!("C07/{name}/pke/impl-vs-spec/length"), "blob length {}", blob.len());
                    model::pke_recompute_p384(&sk_raw, &blob[48..97], &ptk, iv.as_ref()).map_err(|e| Fail::new("HARNESS/model-pke", e))?
                }
                Ver::V1 => {
                    ensure!(blob.len() == 592, format!("C07/{name}/pke/impl-vs-spec/length"), "blob length {}", blob.len());
                    let r = model::rsa_kem_r_fast(&sk_raw, &blob[80..]).map_err(|e| Fail::new("HARNESS/rsa", e))?;
                    model::pke_recompute_rsa(&r, &blob[80..], &ptk, iv.as_ref())
                }
            }
        }
    };
    if lib_text != spec_text {
        let sb = b64_decode(&spec_text[h_len.min(spec_text.len())..]).unwrap_or_default();
        let first = blob.iter().zip(sb.iter()).position(|(a, b)| a != b).unwrap_or(blob.len().min(sb.len()));
        return Err(Fail::new(
            format!("C07/{name}/{kn}/{ks}/impl-vs-spec/blob-differs"),
            format!("library output differs from the specification's blob for the randomness it embeds (first difference at byte {first} of {}; forced iv {:?})", blob.len(), c.forced_iv),
        ));
    }
    // every back end of this version unwraps the library's output
    all_backends_unwrap::<B>(acc, c, &lib_text, &ptk, "library-built")?;
    drop(_g);

    // (2) spec -> impl: a model-built blob with model-chosen randomness (incl. counter-wrap nonces)
    let model_text: Option<String> = match c.kind {
        0 => {
            let n: [u8; 32] = c.nonce.bytes(32).try_into().unwrap();
            Some(model::pie_wrap(ver, ks, &wk_raw, &n, &ptk))
        }
        1 => {
            let salt = rng::det_bytes(c.salt_seed as u64, 0x5a17, model::pbkw_salt_len(ver));
            let nonce = c.nonce.bytes(model::pbkw_nonce_len(ver));
            Some(model::pbkw_wrap(ver, ks, &pw, &c.params, &salt, &nonce, &ptk).map_err(|e| Fail::new("HARNESS/model-pbkw2", e))?)
        }
        _ => {
            let sk_raw = pke_secret_bytes(ver, &c.wrapping);
            let pk_raw = public_bytes(ver, &sk_raw);
            let pdk: [u8; 32] = ptk.clone().try_into().unwrap();
            match ver {
                Ver::V2 | Ver::V4 => {
                    let esk: [u8; 32] = c.nonce.bytes(32).try_into().unwrap();
                    // every third case: the ephemeral key in its other X25519 encoding (bit 255 set)
                    if c.salt_seed % 3 == 0 {
                        acc.class("pke:model-blob-with-epk-bit-255-set");
                        Some(model::pke_seal_25519_high_bit(ver, &pk_raw, &esk, &pdk).map_err(|e| Fail::new("HARNESS/model-pke2", e))?)
                    } else {
                        Some(model::pke_seal_25519(ver, &pk_raw, &esk, &pdk).map_err(|e| Fail::new("HARNESS/model-pke2", e))?)
                    }
                }
                Ver::V3 => {
                    let mut esk = c.nonce.bytes(48);
                    esk[0] &= 0x7f;
                    if esk.iter().all(|b| *b == 0) {
                        esk[47] = 2;
                    }
                    Some(model::pke_seal_p384(&pk_raw, &esk, &pdk).map_err(|e| Fail::new("HARNESS/model-pke2", e))?)
                }
                Ver::V1 => {
                    let mut r = c.nonce.bytes(512);
                    r[0] = (r[0] & 0x3f) | 0x40;
                    let rp = model::rsa_pub_from_spki(&pk_raw).map_err(|e| Fail::new("HARNESS/rsa-pub", e))?;
                    // every other case: a ciphertext with 1-2 leading zero bytes (constructed)
                    if c.salt_seed % 2 == 0 {
                        if let Some(ar) = model::rsa_aimed_r(&sk_raw, &rp, c.salt_seed as u64, 1 + (c.salt_seed as usize / 2) % 2).map_err(|e| Fail::new("HARNESS/rsa-aim", e))? {
                            r = ar;
                            acc.class("pke:v1-model-blob-with-leading-zero-ciphertext");
                        }
                    }
                    Some(model::pke_seal_rsa(&rp, &r, &pdk).map_err(|e| Fail::new("HARNESS/model-pke2", e))?)
                }
            }
        }
    };
    if let Some(t) = &model_text {
        all_backends_unwrap::<B>(acc, c, t, &ptk, "specification-built")?;
    }

    acc.eval();
    let nondefault = c.kind == 1;
    if c.nonce.is_wrap() || c.secret || nondefault || c.forced_iv.is_some() {
        acc.nt(hash_of(&(c.kind, c.secret, &c.wrapped, &c.wrapping, &c.password, format!("{:?}{:?}{:?}", c.params, c.nonce, c.forced_iv))));
    }
    acc.class(&format!("kind:{kn}"));
    if c.nonce.is_wrap() && c.kind == 1 && ver.nist() {
        acc.class("pbkw:embedded-counter-wrap");
    }
    if c.forced_iv.as_ref().map(|k| k.is_wrap()).unwrap_or(false) {
        acc.class("forced-iv:wrap");
    }
    acc.sample(|| json!({"backend": name, "kind": kn, "wrapped": ks, "nonce_kind": format!("{:?}", c.nonce), "forced_iv": format!("{:?}", c.forced_iv), "params": format!("{:?}", c.params), "lib_text_prefix": lib_text.chars().take(40).collect::<String>()}));
    Ok(())
}

/// scripted randomness (getrandom back ends): the ephemeral key / ciphertext itself is the
/// prescribed function of the drawn bytes
#[derive(Clone, Debug, Serialize, Deserialize)]
pub struct ScriptCase {
    pub wrapped: KeySeed,
    pub wrapping: KeySeed,
    pub draw: NonceKind,
}

fn scripted_pke<B: Backend>(c: &ScriptCase, acc: &mut Acc) -> R {
    let name = B::NAME;
    let ver = B::VER;
    let sk_raw = pke_secret_bytes(ver, &c.wrapping);
    let pk_raw = public_bytes(ver, &sk_raw);
    let (_, pk, _, _) = pke_pair::<B>(&c.wrapping);
    let pdk = local_key_bytes(&c.wrapped);
    let (draw, spec): (Vec<u8>, String) = match ver {
        Ver::V2 | Ver::V4 => {
            let d: [u8; 32] = c.draw.bytes(32).try_into().unwrap();
            (d.to_vec(), model::pke_seal_25519(ver, &pk_raw, &d, &pdk).map_err(|e| Fail::new("HARNESS/model", e))?)
        }
        Ver::V3 => {
            let mut d = c.draw.bytes(48);
            d[0] &= 0x7f;
            if d.iter().all(|b| *b == 0) {
                d[47] = 3;
            }
            let s = model::pke_seal_p384(&pk_raw, &d, &pdk).map_err(|e| Fail::new("HARNESS/model", e))?;
            (d, s)
        }
        Ver::V1 => {
            let mut d = c.draw.bytes(512);
            let rp = model::rsa_pub_from_spki(&pk_raw).map_err(|e| Fail::new("HARNESS/rsa-pub", e))?;
            // wrap-kind draws are replaced by a constructed draw whose ciphertext has leading zero bytes
            if c.draw.is_wrap() {
                if let Some(ar) = model::rsa_aimed_r(&sk_raw, &rp, hash_of(&c.wrapped), 1 + (c.wrapped.bytes[0] % 2) as usize).map_err(|e| Fail::new("HARNESS/rsa-aim", e))? {
                    d = ar;
                    acc.class("pke-scripted:v1-leading-zero-ciphertext");
                }
            }
            let mut r = d.clone();
            r[0] = (r[0] & 0x7f) | 0x40; // the two top bits are forced to 01 by the specification
            (d, model::pke_seal_rsa(&rp, &r, &pdk).map_err(|e| Fail::new("HARNESS/model", e))?)
        }
    };
    rng::begin_op();
    rng::script(vec![draw]);
    let lib = local_key::<B>(&c.wrapped).seal(&pk);
    rng::end_op();
    let lib = lib.map_err(|e| Fail::new(format!("C07/{name}/pke-scripted/seal-failed"), format!("{e}")))?.to_string();
    ensure!(
        lib == spec,
        format!("C07/{name}/pke-scripted/impl-vs-spec/blob-differs"),
        "with the ephemeral randomness fixed to {:?} the sealed key differs from the specification's",
        c.draw
    );
    acc.eval();
    acc.nt(hash_of(&(&c.wrapped, &c.wrapping, &c.draw)));
    acc.sample(|| json!({"backend": name, "scripted_draw": format!("{:?}", c.draw)}));
    Ok(())
}

// ---------------------------------------------------------------------------
// a back end that cannot compute Argon2id with p > 1 lanes may decline such parameters;
// if it wraps with them, the blob must still be the specification's for the parameters it carries

#[derive(Clone, Debug, Serialize, Deserialize)]
pub struct ParaCase {
    pub secret: bool,
    pub wrapped: KeySeed,
    pub password: BytesSpec,
    pub kib: u32,
    pub time: u8,
    pub para: u8,
}

fn para_case<B: Backend>(c: &ParaCase, acc: &mut Acc) -> R {
    let name = B::NAME;
    let ver = B::VER;
    let ks = if c.secret { "secret" } else { "local" };
    let params = PwParams::Argon2id { mem_bytes: (c.kib as u64).max(8 * c.para as u64) * 1024, time: c.time as u32, para: c.para as u32 };
    let pw = c.password.bytes();
    let ptk: Vec<u8> = if c.secret { secret_bytes(ver, &c.wrapped) } else { local_key_bytes(&c.wrapped).to_vec() };
    let r = if c.secret {
        secret_key::<B>(&c.wrapped).password_wrap_with_params(&pw, &pw_params::<B>(&params)).map(|w| w.to_string())
    } else {
        local_key::<B>(&c.wrapped).password_wrap_with_params(&pw, &pw_params::<B>(&params)).map(|w| w.to_string())
    };
    acc.eval();
    acc.nt(hash_of(&(c.secret, &c.wrapped, &c.password, c.kib, c.time, c.para)));
    match r {
        Err(_) => {
            acc.class("parallelism>1:declined");
            Ok(())
        }
        Ok(text) => {
            acc.class("parallelism>1:wrapped");
            let got = model::pbkw_unwrap(ver, ks, &pw, &text);
            match got {
                Ok(k) if same_key(&k, &ptk) => Ok(()),
                other => Err(Fail::new(
                    format!("C07/{name}/pbkw/{ks}/impl-vs-spec/parallelism-field-not-honoured"),
                    format!("the blob carries {params:?} but is not the specification's wrap for those parameters (reference unwrap: {:?})", other.map(|k| k.len())),
                )),
            }
        }
    }
}

/// Argon2id memory cost of 4 GiB (a byte count that no longer fits 32 bits; 2^22 KiB blocks): the
/// back end must wrap, and the blob must be the specification's (the reference unwraps it).
fn big_mem_case<B: Backend>(c: &ParaCase, acc: &mut Acc) -> R {
    let name = B::NAME;
    let ver = B::VER;
    let params = PwParams::Argon2id { mem_bytes: c.kib as u64 * 1024, time: c.time as u32, para: 1 };
    let pw = c.password.bytes();
    let ptk = local_key_bytes(&c.wrapped).to_vec();
    let text = local_key::<B>(&c.wrapped)
        .password_wrap_with_params(&pw, &pw_params::<B>(&params))
        .map(|w| w.to_string())
        .map_err(|e| Fail::new(format!("C07/{name}/pbkw/local/4gib/wrap-failed"), format!("password wrap with {params:?} failed: {e}")))?;
    acc.eval();
    acc.nt(hash_of(&(&c.wrapped, &c.password, c.kib)));
    acc.class("pbkw:memory>=4GiB");
    match model::pbkw_unwrap(ver, "local", &pw, &text) {
        Ok(k) if same_key(&k, &ptk) => Ok(()),
        other => Err(Fail::new(format!("C07/{name}/pbkw/local/4gib/impl-vs-spec"), format!("the blob carries {params:?} but the reference does not unwrap it to the key ({:?})", other.map(|k| k.len())))),
    }
}

fn subs_for<B: Backend>(out: &mut Vec<SubCheck>) {
    let v1 = B::VER == Ver::V1;
    for kind in 0u8..3 {
        let cases = match (kind, v1) {
            (2, true) => (40, 600),
            (_, true) => (150, 2000),
            (2, _) if B::VER == Ver::V3 => (150, 3000),
            _ => (400, 8000),
        };
        out.push(SubCheck::prop(
            format!("c07.bitexact/{}/{}", B::NAME, kname(kind)),
            if kind == 2 && v1 { 15 } else { 4 },
            cases,
            move |tier| strat::<B>(tier, kind),
            |c: &Case, acc: &mut Acc| {
                rng::reseed_case(hash_of(&(&c.wrapped, &c.wrapping, c.salt_seed)));
                run_case::<B>(c, acc)
            },
        ));
    }
    if !B::VER.nist() {
        out.push(SubCheck::prop(
            format!("c07.pbkw-parallelism/{}", B::NAME),
            2,
            (40, 600),
            |_tier| {
                (any::<bool>(), gens::key_seed(), gens::password(), 8u32..=256, 1u8..=2, 2u8..=4).prop_map(|(secret, wrapped, password, kib, time, para)| ParaCase { secret, wrapped, password, kib, time, para })
            },
            |c: &ParaCase, acc: &mut Acc| {
                rng::reseed_case(hash_of(&(&c.wrapped, c.kib)));
                para_case::<B>(c, acc)
            },
        ));
    }
    if !B::VER.nist() {
        out.push(SubCheck::prop_exact(
            format!("c07.pbkw-4gib/{}", B::NAME),
            30,
            (1, 3),
            |_tier| (gens::key_seed(), gens::password(), prop_oneof![2 => Just(4u32 * 1024 * 1024), 1 => Just(4 * 1024 * 1024 + 1), 1 => Just(4 * 1024 * 1024 + 1024)]).prop_map(|(wrapped, password, kib)| ParaCase { secret: false, wrapped, password, kib, time: 1, para: 1 }),
            |c: &ParaCase, acc: &mut Acc| {
                rng::reseed_case(hash_of(&(&c.wrapped, c.kib)));
                big_mem_case::<B>(c, acc)
            },
        ));
    }
    if B::GETRANDOM {
        out.push(SubCheck::prop(
            format!("c07.pke-scripted/{}", B::NAME),
            if v1 { 10 } else { 3 },
            if v1 { (30, 400) } else { (200, 4000) },
            |_tier| (gens::key_seed(), gens::key_seed(), nonce_kind()).prop_map(|(wrapped, wrapping, draw)| ScriptCase { wrapped, wrapping, draw }),
            |c: &ScriptCase, acc: &mut Acc| scripted_pke::<B>(c, acc),
        ));
    }
}

pub fn def() -> PropertyDef {
    let mut subs = Vec::new();
    crate::for_backends!(B => subs_for::<B>(&mut subs));
    PropertyDef {
        id: "C07",
        level: "exploration",
        rule: "proptest cases (kind {PIE, PBKW, PKE} x wrapped key {local, secret} x wrapping key / password / recipient (one case in eight wraps a key under itself) x PBKW parameters within budget (p = 1..4 where supported) x nonce kind {seeded, zero, ones, counter block at the 64/128-bit wrap} x optional forced derived counter block (paseto_verif hook; v1/v3 PIE and PKE)); relations: (1) the library's blob equals the reference model's blob recomputed from the nonce/salt/ephemeral key it embeds (PKE: recomputed with the recipient secret; with scripted RNG the ephemeral key itself is compared), (2) model-built blobs with model-chosen nonces (incl. 0xff..ff counter blocks in k1/k3 password wraps) unwrap to the same key on every back end of the version, (3) the sibling unwraps this back end's output, (4) Argon2id parallelism 2..4 on every v2/v4 back end: the back end either declines or produces the blob the reference (argon2 crate, p lanes) unwraps, (5) one password wrap per v2/v4 back end with a memory cost of 4 GiB or just above (byte counts beyond 32 bits): must wrap, and the reference unwraps it. Non-trivial iff wrap-around nonce kind, secret key payload, PBKW (non-default parameters) or forced IV",
        assumptions: vec!["reference model validated on the upstream vectors", "Argon2id through libsodium for parallelism 1 and through the argon2 crate for parallelism 2..4 (RustCrypto back ends only); memory multiples of 1 KiB"],
        subs,
    }
}
