//! C11 — claims are released only if the validator accepts; built-in validators are exact.

use std::rc::Rc;
use std::sync::Arc;
use std::time::Duration;

use paseto_core::PasetoError;
use paseto_core::tokens::{SealedToken, UnsealedToken};
use paseto_core::validation::{NoValidation, Validate};
use paseto_core::version::{Local, Public};
use paseto_json::jiff::Timestamp;
use paseto_json::{ForAudience, ForSubject, FromIssuer, HasExpiry, RegisteredClaims, Time};
use proptest::prelude::*;
use serde::{Deserialize, Serialize};
use serde_json::json;

use crate::backends::*;
use crate::engine::*;
use crate::ensure;

#[derive(Clone, Debug, Serialize, Deserialize, PartialEq, Eq, Hash)]
pub enum Expr {
    Time,
    Leeway,
    HasExpiry,
    Sub(String),
    Iss(String),
    Aud(String),
    NoVal,
    /// a caller's own validator: accepts, or rejects with the given error kind
    /// (0 ClaimsError, 1 PayloadError with a reason, 2 InvalidToken, 3 InvalidKey, 4 CryptoError)
    Custom { accept: bool, kind: u8 },
    And(Box<Expr>, Box<Expr>),
    VecOf(Vec<Expr>),
    SliceOf(Vec<Expr>),
    Boxed(Box<Expr>),
    RcOf(Box<Expr>),
    ArcOf(Box<Expr>),
    /// validate a projected field of a wrapper (the wrapper also holds a decoy)
    Map(Box<Expr>),
}

#[derive(Clone, Debug, Serialize, Deserialize, PartialEq, Eq, Hash)]
pub struct ClaimsSpec {
    pub iss: Option<String>,
    pub sub: Option<String>,
    pub aud: Option<String>,
    /// offsets from `now` in nanoseconds
    pub exp: Option<i128>,
    pub nbf: Option<i128>,
    pub iat: Option<i128>,
    pub jti: Option<String>,
}

#[derive(Clone, Debug, Serialize, Deserialize, PartialEq, Eq, Hash)]
pub struct Case {
    pub now_s: i64,
    pub now_ns: u32,
    pub leeway_s: u64,
    pub leeway_ns: u32,
    pub claims: ClaimsSpec,
    pub expr: Expr,
}

fn ts(now: i128, off: i128) -> Timestamp {
    Timestamp::from_nanosecond(now + off).expect("generator keeps timestamps in range")
}

impl Case {
    fn now(&self) -> i128 {
        self.now_s as i128 * 1_000_000_000 + self.now_ns as i128
    }
    fn leeway(&self) -> i128 {
        self.leeway_s as i128 * 1_000_000_000 + self.leeway_ns as i128
    }
    fn claims(&self) -> RegisteredClaims {
        let n = self.now();
        RegisteredClaims {
            iss: self.claims.iss.clone(),
            sub: self.claims.sub.clone(),
            aud: self.claims.aud.clone(),
            exp: self.claims.exp.map(|o| ts(n, o)),
            nbf: self.claims.nbf.map(|o| ts(n, o)),
            iat: self.claims.iat.map(|o| ts(n, o)),
            jti: self.claims.jti.clone(),
        }
    }
}

/// The independent evaluator: i128 nanoseconds, written from the property text.
fn eval(e: &Expr, c: &Case) -> bool {
    let cl = &c.claims;
    match e {
        Expr::Time => cl.exp.map(|x| x >= 0).unwrap_or(true) && cl.nbf.map(|x| x <= 0).unwrap_or(true),
        Expr::Leeway => {
            let l = c.leeway();
            cl.exp.map(|x| x >= -l).unwrap_or(true) && cl.nbf.map(|x| x <= l).unwrap_or(true)
        }
        Expr::HasExpiry => cl.exp.is_some(),
        Expr::Sub(s) => cl.sub.as_deref() == Some(s.as_str()),
        Expr::Iss(s) => cl.iss.as_deref() == Some(s.as_str()),
        Expr::Aud(s) => cl.aud.as_deref() == Some(s.as_str()),
        Expr::NoVal => true,
        Expr::Custom { accept, .. } => *accept,
        Expr::And(a, b) => eval(a, c) && eval(b, c),
        Expr::VecOf(v) | Expr::SliceOf(v) => v.iter().all(|x| eval(x, c)),
        Expr::Boxed(x) | Expr::RcOf(x) | Expr::ArcOf(x) | Expr::Map(x) => eval(x, c),
    }
}

pub struct Wrap {
    pub decoy: RegisteredClaims,
    pub real: RegisteredClaims,
}

/// adapts a validator over `Wrap` back to one over the claims (so Map can sit inside a tree)
struct Unwrapper<V: Validate<Claims = Wrap>>(V);
impl<V: Validate<Claims = Wrap>> Validate for Unwrapper<V> {
    type Claims = RegisteredClaims;
    fn validate(&self, claims: &RegisteredClaims) -> Result<(), PasetoError> {
        // decoy: the opposite of everything (expired, not yet valid, no strings)
        let decoy = RegisteredClaims {
            iss: None,
            sub: None,
            aud: None,
            exp: claims.exp.map(|_| Timestamp::from_second(-30_000_000_000).unwrap()),
            nbf: Some(Timestamp::from_second(200_000_000_000).unwrap()),
            iat: None,
            jti: None,
        };
        self.0.validate(&Wrap { decoy, real: claims.clone() })
    }
}

type Dyn = Box<dyn Validate<Claims = RegisteredClaims>>;

/// what an application's own validator may look like: it reports rejection with whichever
/// PasetoError it finds fitting (PayloadError is the only variant that can carry a reason)
struct CustomValidator {
    accept: bool,
    kind: u8,
}
impl Validate for CustomValidator {
    type Claims = RegisteredClaims;
    fn validate(&self, _claims: &RegisteredClaims) -> Result<(), PasetoError> {
        if self.accept {
            return Ok(());
        }
        Err(match self.kind % 5 {
            0 => PasetoError::ClaimsError,
            1 => PasetoError::PayloadError("custom validator: missing claim".into()),
            2 => PasetoError::InvalidToken,
            3 => PasetoError::InvalidKey,
            _ => PasetoError::CryptoError,
        })
    }
}

/// does the tree contain a custom leaf that rejects with something other than ClaimsError?
fn has_foreign_rejection(e: &Expr) -> bool {
    match e {
        Expr::Custom { accept, kind } => !*accept && kind % 5 != 0,
        Expr::And(a, b) => has_foreign_rejection(a) || has_foreign_rejection(b),
        Expr::VecOf(v) | Expr::SliceOf(v) => v.iter().any(has_foreign_rejection),
        Expr::Boxed(x) | Expr::RcOf(x) | Expr::ArcOf(x) | Expr::Map(x) => has_foreign_rejection(x),
        _ => false,
    }
}

fn build(e: &Expr, c: &Case) -> Dyn {
    let now = ts(c.now(), 0);
    match e {
        Expr::Time => Box::new(Time::valid_at(now)),
        Expr::Leeway => Box::new(Time::valid_at(now).with_leeway(Duration::new(c.leeway_s, c.leeway_ns))),
        Expr::HasExpiry => Box::new(HasExpiry),
        Expr::Sub(s) => Box::new(ForSubject(s.clone())),
        Expr::Iss(s) => Box::new(FromIssuer(s.clone())),
        Expr::Aud(s) => Box::new(ForAudience(s.clone())),
        Expr::NoVal => Box::new(NoValidation::<RegisteredClaims>::dangerous_no_validation()),
        Expr::Custom { accept, kind } => Box::new(CustomValidator { accept: *accept, kind: *kind }),
        Expr::And(a, b) => Box::new(build(a, c).and_then(build(b, c))),
        Expr::VecOf(v) => Box::new(v.iter().map(|x| build(x, c)).collect::<Vec<Dyn>>()),
        Expr::SliceOf(v) => {
            let b: Box<[Dyn]> = v.iter().map(|x| build(x, c)).collect::<Vec<Dyn>>().into_boxed_slice();
            Box::new(b)
        }
        Expr::Boxed(x) => Box::new(build(x, c)),
        Expr::RcOf(x) => {
            let r: Rc<dyn Validate<Claims = RegisteredClaims>> = Rc::from(build(x, c));
            Box::new(r)
        }
        Expr::ArcOf(x) => {
            let r: Arc<dyn Validate<Claims = RegisteredClaims>> = Arc::from(build(x, c));
            Box::new(r)
        }
        Expr::Map(x) => Box::new(Unwrapper(build(x, c).map(|w: &Wrap| &w.real))),
    }
}

fn depth(e: &Expr) -> u32 {
    match e {
        Expr::And(a, b) => 1 + depth(a).max(depth(b)),
        Expr::VecOf(v) | Expr::SliceOf(v) => 1 + v.iter().map(depth).max().unwrap_or(0),
        Expr::Boxed(x) | Expr::RcOf(x) | Expr::ArcOf(x) | Expr::Map(x) => 1 + depth(x),
        _ => 0,
    }
}
fn combinators(e: &Expr) -> u32 {
    match e {
        Expr::And(a, b) => 1 + combinators(a) + combinators(b),
        Expr::VecOf(v) | Expr::SliceOf(v) => 1 + v.iter().map(combinators).sum::<u32>(),
        Expr::Boxed(x) | Expr::RcOf(x) | Expr::ArcOf(x) | Expr::Map(x) => 1 + combinators(x),
        _ => 0,
    }
}

fn name_strategy() -> impl Strategy<Value = String> {
    prop_oneof![3 => Just("a".to_string()), 2 => Just("b".to_string()), 1 => Just(String::new()), 1 => Just("a\0".to_string()), 1 => Just("A".to_string()), 1 => "\\PC{1,6}"]
}

fn expr_strategy() -> impl Strategy<Value = Expr> {
    let leaf = prop_oneof![
        4 => Just(Expr::Time),
        4 => Just(Expr::Leeway),
        2 => Just(Expr::HasExpiry),
        2 => name_strategy().prop_map(Expr::Sub),
        2 => name_strategy().prop_map(Expr::Iss),
        2 => name_strategy().prop_map(Expr::Aud),
        3 => (prop::bool::weighted(0.6), 0u8..5).prop_map(|(accept, kind)| Expr::Custom { accept, kind }),
        1 => Just(Expr::NoVal),
    ];
    leaf.prop_recursive(3, 24, 4, |inner| {
        prop_oneof![
            4 => (inner.clone(), inner.clone()).prop_map(|(a, b)| Expr::And(Box::new(a), Box::new(b))),
            2 => proptest::collection::vec(inner.clone(), 0..4).prop_map(Expr::VecOf),
            2 => proptest::collection::vec(inner.clone(), 0..4).prop_map(Expr::SliceOf),
            1 => inner.clone().prop_map(|x| Expr::Boxed(Box::new(x))),
            1 => inner.clone().prop_map(|x| Expr::RcOf(Box::new(x))),
            1 => inner.clone().prop_map(|x| Expr::ArcOf(Box::new(x))),
            2 => inner.prop_map(|x| Expr::Map(Box::new(x))),
        ]
    })
}

/// offsets relative to now: on and 1 ns beside every boundary, and far away
fn offset_strategy(leeway: i128, now: i128) -> impl Strategy<Value = Option<i128>> {
    let far = 1_000_000_000i128 * 1_000_000_000;
    // the ends of jiff's Timestamp range ("never expires" / "always valid" sentinels) and the
    // values within one leeway of them, as offsets from now
    let max = 253_402_207_200i128 * 1_000_000_000 + 999_999_999 - now;
    let min = -377_705_023_201i128 * 1_000_000_000 - now;
    let l = leeway.min(far);
    prop_oneof![
        1 => proptest::sample::select(vec![max, max - 1, max - l, max - l + 1, max - l - 1, min, min + 1, min + l, min + l - 1, min + l + 1].into_iter().filter(|x| *x >= min && *x <= max).collect::<Vec<i128>>()).prop_map(Some),
        3 => Just(None),
        2 => Just(Some(0)),
        2 => Just(Some(1)),
        2 => Just(Some(-1)),
        2 => Just(Some(leeway)),
        2 => Just(Some(-leeway)),
        2 => Just(Some(leeway + 1)),
        2 => Just(Some(leeway - 1)),
        2 => Just(Some(-leeway - 1)),
        2 => Just(Some(-leeway + 1)),
        1 => Just(Some(far)),
        1 => Just(Some(-far)),
        2 => (-2_000_000_000i64..2_000_000_000).prop_map(|x| Some(x as i128)),
        1 => (-100_000i64..100_000).prop_map(|x| Some(x as i128 * 1_000_000_000)),
    ]
}

fn case_strategy() -> impl Strategy<Value = Case> {
    let leeway = prop_oneof![
        2 => Just((0u64, 0u32)),
        2 => Just((0u64, 1u32)),
        3 => (0u64..=120, 0u32..1_000_000_000),
        1 => (0u64..=100_000_000, 0u32..1_000_000_000),
    ];
    ((-10_000_000_000i64..10_000_000_000), 0u32..1_000_000_000, leeway).prop_flat_map(|(now_s, now_ns, (leeway_s, leeway_ns))| {
        let l = leeway_s as i128 * 1_000_000_000 + leeway_ns as i128;
        let opt_name = || prop_oneof![2 => Just(None), 3 => name_strategy().prop_map(Some)];
        (opt_name(), opt_name(), opt_name(), offset_strategy(l, now_s as i128 * 1_000_000_000 + now_ns as i128), offset_strategy(l, now_s as i128 * 1_000_000_000 + now_ns as i128), offset_strategy(l, now_s as i128 * 1_000_000_000 + now_ns as i128), opt_name(), expr_strategy()).prop_map(
            move |(iss, sub, aud, exp, nbf, iat, jti, expr)| Case { now_s, now_ns, leeway_s, leeway_ns, claims: ClaimsSpec { iss, sub, aud, exp, nbf, iat, jti }, expr },
        )
    })
}

fn on_boundary(c: &Case) -> bool {
    let l = c.leeway();
    let near = |x: Option<i128>| x.map(|o| [0, l, -l].iter().any(|b| (o - b).abs() <= 1)).unwrap_or(false);
    near(c.claims.exp) || near(c.claims.nbf)
}

fn validator_case(c: &Case, acc: &mut Acc) -> R {
    let claims = c.claims();
    let v = build(&c.expr, c);
    let got = v.validate(&claims);
    let want = eval(&c.expr, c);
    match (&got, want) {
        (Ok(()), true) => {}
        (Err(PasetoError::ClaimsError), false) => {}
        (Ok(()), false) => {
            return Err(Fail::new(
                "C11/validate/accepts-what-the-rules-reject",
                format!("validator {:?} accepted claims {:?} (now {}.{:09}, leeway {}.{:09})", c.expr, c.claims, c.now_s, c.now_ns, c.leeway_s, c.leeway_ns),
            ));
        }
        (Err(_), false) if has_foreign_rejection(&c.expr) => {} // the caller's own validator chose the error kind
        (Err(e), false) => return Err(Fail::new("C11/validate/wrong-error-kind", format!("rejection reported as {} instead of ClaimsError", err_kind(e)))),
        (Err(e), true) => {
            return Err(Fail::new(
                "C11/validate/rejects-what-the-rules-accept",
                format!("validator {:?} rejected ({}) claims {:?} (now {}.{:09}, leeway {}.{:09})", c.expr, err_kind(e), c.claims, c.now_s, c.now_ns, c.leeway_s, c.leeway_ns),
            ));
        }
    }
    acc.eval();
    if on_boundary(c) || combinators(&c.expr) >= 2 {
        acc.nt(hash_of(c));
    }
    acc.class(if want { "outcome:accept" } else { "outcome:reject" });
    if on_boundary(c) {
        acc.class("claims:on-or-1ns-beside-a-boundary");
    }
    acc.class(&format!("expr-depth:{}", depth(&c.expr)));
    acc.sample(|| json!({"expr": format!("{:?}", c.expr), "claims": format!("{:?}", c.claims), "leeway_ns": c.leeway().to_string(), "model_accepts": want}));
    Ok(())
}

/// end to end: unseal releases claims iff the validator accepts
fn unseal_case<B: Backend>(c: &Case, acc: &mut Acc) -> R {
    let name = B::NAME;
    let want = eval(&c.expr, c);
    let seed = KeySeed::from_u64(hash_of(c));
    crate::rng::reseed_case(hash_of(c));
    let public = c.now_ns % 2 == 0;
    let claims = c.claims();
    let v = build(&c.expr, c);
    let res: Result<RegisteredClaims, PasetoError> = if public {
        let sk = secret_key::<B>(&seed);
        let s = UnsealedToken::<V<B>, Public, RegisteredClaims>::new(claims.clone()).seal(&sk, &[]).map_err(|e| Fail::new(format!("C11/{name}/seal"), format!("{e}")))?.to_string();
        let t: SealedToken<V<B>, Public, RegisteredClaims> = s.parse().map_err(|e| Fail::new(format!("C11/{name}/parse"), format!("{e}")))?;
        t.unseal(&sk.public_key(), &[], &v).map(|u| u.claims)
    } else {
        let k = local_key::<B>(&seed);
        let s = UnsealedToken::<V<B>, Local, RegisteredClaims>::new(claims.clone()).seal(&k, &[]).map_err(|e| Fail::new(format!("C11/{name}/seal"), format!("{e}")))?.to_string();
        let t: SealedToken<V<B>, Local, RegisteredClaims> = s.parse().map_err(|e| Fail::new(format!("C11/{name}/parse"), format!("{e}")))?;
        t.unseal(&k, &[], &v).map(|u| u.claims)
    };
    match (&res, want) {
        (Ok(cl), true) => {
            ensure!(cl.exp == claims.exp && cl.nbf == claims.nbf && cl.sub == claims.sub && cl.iss == claims.iss && cl.aud == claims.aud, format!("C11/{name}/unseal/claims-differ"), "released claims differ");
        }
        (Err(PasetoError::ClaimsError), false) => {}
        (Err(_), false) if has_foreign_rejection(&c.expr) => {} // rejected with the custom validator's own error kind
        (Ok(_), false) => return Err(Fail::new(format!("C11/{name}/unseal/released-despite-rejecting-validator"), format!("unseal returned claims although validator {:?} rejects {:?}", c.expr, c.claims))),
        (Err(e), _) => return Err(Fail::new(format!("C11/{name}/unseal/unexpected-{}", err_kind(e)), format!("expected {} but got {}", if want { "Ok" } else { "ClaimsError" }, err_kind(e)))),
    }
    acc.eval();
    acc.nt(hash_of(&(name, c)));
    acc.class(if want { "e2e:released" } else { "e2e:withheld" });
    Ok(())
}

fn valid_now_case(margin_days: &i64, acc: &mut Acc) -> R {
    // wall-clock path with margins of whole days only (no timing sensitivity)
    let now = Timestamp::now();
    let day = Duration::from_secs(86_400);
    let d = margin_days.unsigned_abs() as u32;
    let shifted = if *margin_days >= 0 { now + day * d } else { now - day * d };
    let claims = RegisteredClaims { exp: Some(shifted), ..Default::default() };
    let got = Time::valid_now().validate(&claims).is_ok();
    ensure!(got == (*margin_days >= 1) || *margin_days == 0, "C11/valid_now/exp", "Time::valid_now() with exp {margin_days} day(s) from now: accepted={got}");
    let claims = RegisteredClaims { nbf: Some(shifted), ..Default::default() };
    let got = Time::valid_now().validate(&claims).is_ok();
    ensure!(got == (*margin_days <= -1) || *margin_days == 0, "C11/valid_now/nbf", "Time::valid_now() with nbf {margin_days} day(s) from now: accepted={got}");
    acc.eval();
    acc.nt(*margin_days as u64);
    Ok(())
}

fn subs_for<B: Backend>(out: &mut Vec<SubCheck>) {
    let cases = match B::NAME {
        "paseto-v1" => (60, 600),
        "paseto-v3" | "paseto-v3-aws-lc" => (150, 2000),
        _ => (400, 6000),
    };
    out.push(SubCheck::prop(format!("c11.unseal/{}", B::NAME), 5, cases, |_t| case_strategy(), unseal_case::<B>));
}

pub fn def() -> PropertyDef {
    let mut subs = vec![
        SubCheck::prop("c11.validators", 3, (40000, 800000), |_t| case_strategy(), validator_case),
        SubCheck::prop("c11.valid-now", 1, (40, 200), |_t| prop_oneof![(-400i64..=-1), (1i64..=400)], valid_now_case),
    ];
    crate::for_backends!(B => subs_for::<B>(&mut subs));
    PropertyDef {
        id: "C11",
        level: "exploration",
        rule: "proptest cases: RegisteredClaims (each field absent/present; exp/nbf at now, now+-1ns, now+-leeway, now+-leeway+-1ns, near, far, and the ends of jiff's range +-1ns / +-leeway) x now x leeway (0, 1 ns, up to 10^8 s) x validator expression trees up to depth 3 over {Time, TimeWithLeeway, HasExpiry, ForSubject, FromIssuer, ForAudience, NoValidation, a caller-written validator that accepts or rejects with any PasetoError variant, and_then, Vec, boxed slice, Box, Rc, Arc, map (through a wrapper type with a decoy field)}; oracle: an independent evaluator over i128 nanoseconds - validate is Ok iff it accepts, otherwise exactly ClaimsError; end to end on every back end and both purposes: unseal returns the claims iff the evaluator accepts, else ClaimsError. Non-trivial iff a timestamp lies on or 1 ns beside a boundary, or the tree has >= 2 combinators; both outcomes are counted",
        assumptions: vec!["TimeWithLeeway only where now +- leeway is representable in jiff", "Time::valid_now() only with margins of whole days"],
        subs,
    }
}
