//! One trait over the six back ends, plus key provisioning from generated seeds.

use paseto_core::key::{HasKey, Key, KeyType};
use paseto_core::paserk::{
    IdVersion, KeyText, PasswordWrappedKey, PieWrapVersion, PkeSealingVersion, PkeUnsealingVersion, PwWrapVersion,
};
use paseto_core::version::{Local, PkePublic, PkeSecret, Public, SealingVersion, Secret};
use paseto_core::{PasetoError, encodings::Payload, encodings::WriteBytes};
use serde::{Deserialize, Serialize};

use crate::refmodel::{self as model, PwParams, Ver};
use crate::util::b64_encode;

pub trait Backend: Send + Sync + 'static {
    type V: SealingVersion<Local>
        + SealingVersion<Public>
        + PieWrapVersion
        + PwWrapVersion
        + PkeSealingVersion
        + PkeUnsealingVersion
        + IdVersion
        + HasKey<Local, Key: Clone + Send + Sync>
        + HasKey<Public, Key: Clone + Send + Sync>
        + HasKey<Secret, Key: Clone + Send + Sync>
        + HasKey<PkePublic, Key: Clone + Send + Sync>
        + HasKey<PkeSecret, Key: Clone + Send + Sync>;
    const NAME: &'static str;
    const VER: Ver;
    /// library randomness goes through getrandom 0.3 (interceptable) for local/wrap paths
    const GETRANDOM: bool;
    /// name of the other back end of the same protocol version, if any
    const SIBLING: Option<&'static str>;
    /// Ed25519/ECDSA signing is deterministic in this back end
    const DETERMINISTIC_SIG: bool;
    /// PBKW supports Argon2 parallelism > 1
    const PBKW_PARALLEL: bool;
}

pub struct BV1;
pub struct BV2;
pub struct BV3;
pub struct BV3Lc;
pub struct BV4;
pub struct BV4Na;

impl Backend for BV1 {
    type V = paseto_v1::core::V1;
    const NAME: &'static str = "paseto-v1";
    const VER: Ver = Ver::V1;
    const GETRANDOM: bool = true;
    const SIBLING: Option<&'static str> = None;
    const DETERMINISTIC_SIG: bool = false;
    const PBKW_PARALLEL: bool = false;
}
impl Backend for BV2 {
    type V = paseto_v2::core::V2;
    const NAME: &'static str = "paseto-v2";
    const VER: Ver = Ver::V2;
    const GETRANDOM: bool = true;
    const SIBLING: Option<&'static str> = None;
    const DETERMINISTIC_SIG: bool = true;
    const PBKW_PARALLEL: bool = true;
}
impl Backend for BV3 {
    type V = paseto_v3::core::V3;
    const NAME: &'static str = "paseto-v3";
    const VER: Ver = Ver::V3;
    const GETRANDOM: bool = true;
    const SIBLING: Option<&'static str> = Some("paseto-v3-aws-lc");
    const DETERMINISTIC_SIG: bool = true;
    const PBKW_PARALLEL: bool = false;
}
impl Backend for BV3Lc {
    type V = paseto_v3_aws_lc::core::V3;
    const NAME: &'static str = "paseto-v3-aws-lc";
    const VER: Ver = Ver::V3;
    const GETRANDOM: bool = false;
    const SIBLING: Option<&'static str> = Some("paseto-v3");
    const DETERMINISTIC_SIG: bool = false;
    const PBKW_PARALLEL: bool = false;
}
impl Backend for BV4 {
    type V = paseto_v4::core::V4;
    const NAME: &'static str = "paseto-v4";
    const VER: Ver = Ver::V4;
    const GETRANDOM: bool = true;
    const SIBLING: Option<&'static str> = Some("paseto-v4-sodium");
    const DETERMINISTIC_SIG: bool = true;
    const PBKW_PARALLEL: bool = true;
}
impl Backend for BV4Na {
    type V = paseto_v4_sodium::core::V4;
    const NAME: &'static str = "paseto-v4-sodium";
    const VER: Ver = Ver::V4;
    const GETRANDOM: bool = false;
    const SIBLING: Option<&'static str> = Some("paseto-v4");
    const DETERMINISTIC_SIG: bool = true;
    const PBKW_PARALLEL: bool = false;
}

/// Expands `$body` once per back end with `$B` bound to the back-end type.
#[macro_export]
macro_rules! for_backends {
    ($B:ident => $body:expr) => {{
        {
            type $B = $crate::backends::BV1;
            $body;
        }
        {
            type $B = $crate::backends::BV2;
            $body;
        }
        {
            type $B = $crate::backends::BV3;
            $body;
        }
        {
            type $B = $crate::backends::BV3Lc;
            $body;
        }
        {
            type $B = $crate::backends::BV4;
            $body;
        }
        {
            type $B = $crate::backends::BV4Na;
            $body;
        }
    }};
}

pub type V<B> = <B as Backend>::V;
pub type LocalKeyOf<B> = Key<V<B>, Local>;
pub type SecretKeyOf<B> = Key<V<B>, Secret>;
pub type PublicKeyOf<B> = Key<V<B>, Public>;
pub type PkeSecretOf<B> = Key<V<B>, PkeSecret>;
pub type PkePublicOf<B> = Key<V<B>, PkePublic>;

pub fn key_from_bytes<VV: HasKey<K>, K: KeyType>(b: &[u8]) -> Result<Key<VV, K>, PasetoError> {
    KeyText::<VV, K>::from_raw_bytes(b).try_into()
}

pub fn key_bytes<VV: HasKey<K>, K: KeyType>(k: &Key<VV, K>) -> Vec<u8> {
    k.expose_key().as_raw_bytes().to_vec()
}

pub fn err_kind(e: &PasetoError) -> &'static str {
    match e {
        PasetoError::Base64DecodeError => "Base64DecodeError",
        PasetoError::InvalidKey => "InvalidKey",
        PasetoError::InvalidToken => "InvalidToken",
        PasetoError::CryptoError => "CryptoError",
        PasetoError::ClaimsError => "ClaimsError",
        PasetoError::PayloadError(_) => "PayloadError",
        _ => "Other",
    }
}

/// Arbitrary-bytes payload (SUFFIX "" like JSON), so every byte string is encodable.
#[derive(Clone, Debug, PartialEq, Eq)]
pub struct Raw(pub Vec<u8>);

impl Payload for Raw {
    const SUFFIX: &'static str = "";
    fn encode(self, mut writer: impl WriteBytes) -> Result<(), Box<dyn std::error::Error + Send + Sync>> {
        // two fragments on purpose: Payload::encode may write in pieces
        let (a, b) = self.0.split_at(self.0.len() / 2);
        writer.write(a);
        writer.write(b);
        Ok(())
    }
    fn decode(payload: &[u8]) -> Result<Self, Box<dyn std::error::Error + Send + Sync>> {
        Ok(Raw(payload.to_vec()))
    }
}

// ---------------------------------------------------------------------------
// key provisioning from generated seeds (pure functions of the seed bytes)

#[derive(Clone, Debug, Serialize, Deserialize, PartialEq, Eq, Hash)]
pub struct KeySeed {
    #[serde(with = "crate::util::hexser")]
    pub bytes: Vec<u8>, // >= 48 bytes
}

impl KeySeed {
    pub fn from_u64(x: u64) -> Self {
        KeySeed { bytes: crate::rng::det_bytes(x, 0x6b65_79, 48) }
    }
    fn idx(&self) -> usize {
        self.bytes.iter().fold(0usize, |a, b| a.wrapping_mul(31).wrapping_add(*b as usize))
    }
}

pub fn local_key_bytes(seed: &KeySeed) -> [u8; 32] {
    seed.bytes[..32].try_into().unwrap()
}

/// Serialised (PASERK raw bytes) signing secret key of `ver` for a seed.
pub fn secret_bytes(ver: Ver, seed: &KeySeed) -> Vec<u8> {
    match ver {
        Ver::V2 | Ver::V4 => {
            let s: [u8; 32] = seed.bytes[..32].try_into().unwrap();
            let mut sk = s.to_vec();
            sk.extend_from_slice(&model::ed25519_pk_from_seed(&s));
            sk
        }
        Ver::V3 => {
            let mut s = seed.bytes[..48].to_vec();
            s[0] &= 0x7f; // < n
            if s.iter().all(|b| *b == 0) {
                s[47] = 1;
            }
            s
        }
        Ver::V1 => crate::keypool::rsa2048(seed.idx()),
    }
}

/// Public half (raw PASERK bytes) of a serialised secret key, computed by the model.
pub fn public_bytes(ver: Ver, sk: &[u8]) -> Vec<u8> {
    match ver {
        Ver::V2 | Ver::V4 => sk[32..].to_vec(),
        Ver::V3 => model::p384_public(sk).expect("valid scalar").to_vec(),
        Ver::V1 => model::rsa_priv_from_pkcs1(&model::pem_to_der(sk)).expect("valid rsa key").spki_der,
    }
}

pub fn pke_secret_bytes(ver: Ver, seed: &KeySeed) -> Vec<u8> {
    match ver {
        Ver::V1 => crate::keypool::rsa4096(seed.idx()),
        _ => secret_bytes(ver, seed),
    }
}

pub fn secret_key<B: Backend>(seed: &KeySeed) -> SecretKeyOf<B> {
    key_from_bytes::<V<B>, Secret>(&secret_bytes(B::VER, seed)).unwrap_or_else(|e| library_refused("a valid generated secret key", &e))
}

pub fn local_key<B: Backend>(seed: &KeySeed) -> LocalKeyOf<B> {
    key_from_bytes::<V<B>, Local>(&local_key_bytes(seed)).unwrap_or_else(|e| library_refused("32 bytes offered as a local key", &e))
}

pub fn pke_pair<B: Backend>(seed: &KeySeed) -> (PkeSecretOf<B>, PkePublicOf<B>, Vec<u8>, Vec<u8>) {
    let sk = pke_secret_bytes(B::VER, seed);
    let pk = public_bytes(B::VER, &sk);
    (
        key_from_bytes::<V<B>, PkeSecret>(&sk).unwrap_or_else(|e| library_refused("a valid generated key-sealing secret key", &e)),
        key_from_bytes::<V<B>, PkePublic>(&pk).unwrap_or_else(|e| library_refused("a valid generated key-sealing public key", &e)),
        sk,
        pk,
    )
}

/// PBKW parameters have private fields and no constructor: obtain them the only way a user
/// can, by parsing a syntactically valid blob carrying the wanted parameter bytes.
pub fn pw_params<B: Backend>(p: &PwParams) -> <V<B> as PwWrapVersion>::Params {
    let ver = B::VER;
    let mut blob = vec![0u8; model::pbkw_salt_len(ver)];
    blob.extend_from_slice(&p.bytes());
    blob.extend(std::iter::repeat(0u8).take(model::pbkw_nonce_len(ver) + model::pbkw_tag_len(ver)));
    let s = format!("{}.local-pw.{}", ver.k(), b64_encode(&blob));
    let w: PasswordWrappedKey<V<B>, Local> = s.parse().unwrap_or_else(|e| library_refused("a well-formed password-wrap blob (parameter carrier)", &e));
    w.params().unwrap_or_else(|e| library_refused("params() of a well-formed password-wrap blob", &e))
}

/// cheapest parameters each version accepts everywhere
pub fn cheapest_params(ver: Ver) -> PwParams {
    if ver.nist() {
        PwParams::Pbkdf2 { iterations: 1 }
    } else {
        PwParams::Argon2id { mem_bytes: 8 * 1024, time: 1, para: 1 }
    }
}

pub fn default_params<B: Backend>() -> PwParams {
    match B::NAME {
        "paseto-v4-sodium" => PwParams::Argon2id { mem_bytes: 64 * 1024 * 1024, time: 2, para: 1 },
        _ if B::VER.nist() => PwParams::Pbkdf2 { iterations: 100_000 },
        // argon2 crate defaults: 19 MiB, t=2, p=1
        _ => PwParams::Argon2id { mem_bytes: 19 * 1024 * 1024, time: 2, para: 1 },
    }
}

/// Same as `Raw` but with a non-empty encoding suffix: headers become `v4.x1.local.` etc.
/// (PASETO reserves the suffix for future encodings; the library supports any `Payload::SUFFIX`.)
#[derive(Clone, Debug, PartialEq, Eq)]
pub struct RawS(pub Vec<u8>);

impl Payload for RawS {
    const SUFFIX: &'static str = ".x1";
    fn encode(self, mut writer: impl WriteBytes) -> Result<(), Box<dyn std::error::Error + Send + Sync>> {
        writer.write(&self.0);
        Ok(())
    }
    fn decode(payload: &[u8]) -> Result<Self, Box<dyn std::error::Error + Send + Sync>> {
        Ok(RawS(payload.to_vec()))
    }
}

/// payload types that carry raw bytes (so generic checks can run under several suffixes)
pub trait BytesPayload: Payload + Sized {
    fn from_bytes(b: Vec<u8>) -> Self;
    fn bytes(&self) -> &[u8];
}
impl BytesPayload for Raw {
    fn from_bytes(b: Vec<u8>) -> Self {
        Raw(b)
    }
    fn bytes(&self) -> &[u8] {
        &self.0
    }
}
impl BytesPayload for RawS {
    fn from_bytes(b: Vec<u8>) -> Self {
        RawS(b)
    }
    fn bytes(&self) -> &[u8] {
        &self.0
    }
}

/// token header text for version, payload suffix and purpose
pub fn token_header<M: Payload>(ver: Ver, purpose: &str) -> String {
    format!("{}{}.{purpose}.", ver.v(), M::SUFFIX)
}

/// The purpose-specific alias methods of the public API (`encrypt[_with_aad]`, `decrypt[_with_aad]`,
/// `sign[_with_aad]`, `verify[_with_aad]`) next to the generic `seal` / `unseal`, selectable by
/// a generated index so that every entry point is exercised.
pub trait Aliases<VV>: paseto_core::version::Purpose + Sized
where
    VV: SealingVersion<Self>,
{
    /// which: 0 generic seal, 1 *_with_aad alias, 2 plain alias (only meaningful with an empty assertion)
    fn seal_via<M: Payload, F: paseto_core::encodings::Footer>(
        which: u8,
        tok: paseto_core::tokens::UnsealedToken<VV, Self, M, F>,
        key: &Key<VV, Self::SealingKey>,
        aad: &[u8],
    ) -> Result<paseto_core::tokens::SealedToken<VV, Self, M, F>, PasetoError>;
    fn unseal_via<M: Payload, F: paseto_core::encodings::Footer, Val: paseto_core::validation::Validate<Claims = M>>(
        which: u8,
        tok: paseto_core::tokens::SealedToken<VV, Self, M, F>,
        key: &Key<VV, Self>,
        aad: &[u8],
        v: &Val,
    ) -> Result<paseto_core::tokens::UnsealedToken<VV, Self, M, F>, PasetoError>;
    fn alias_name(which: u8, aad_empty: bool, sealing: bool) -> &'static str;
}

impl<VV: SealingVersion<Local>> Aliases<VV> for Local {
    fn seal_via<M: Payload, F: paseto_core::encodings::Footer>(which: u8, tok: paseto_core::tokens::UnsealedToken<VV, Local, M, F>, key: &Key<VV, Local>, aad: &[u8]) -> Result<paseto_core::tokens::SealedToken<VV, Local, M, F>, PasetoError> {
        match which % 3 {
            1 => tok.encrypt_with_aad(key, aad),
            2 if aad.is_empty() => tok.encrypt(key),
            _ => tok.seal(key, aad),
        }
    }
    fn unseal_via<M: Payload, F: paseto_core::encodings::Footer, Val: paseto_core::validation::Validate<Claims = M>>(which: u8, tok: paseto_core::tokens::SealedToken<VV, Local, M, F>, key: &Key<VV, Local>, aad: &[u8], v: &Val) -> Result<paseto_core::tokens::UnsealedToken<VV, Local, M, F>, PasetoError> {
        match which % 3 {
            1 => tok.decrypt_with_aad(key, aad, v),
            2 if aad.is_empty() => tok.decrypt(key, v),
            _ => tok.unseal(key, aad, v),
        }
    }
    fn alias_name(which: u8, aad_empty: bool, sealing: bool) -> &'static str {
        match (which % 3, aad_empty, sealing) {
            (1, _, true) => "encrypt_with_aad",
            (2, true, true) => "encrypt",
            (_, _, true) => "seal",
            (1, _, false) => "decrypt_with_aad",
            (2, true, false) => "decrypt",
            (_, _, false) => "unseal",
        }
    }
}

impl<VV: SealingVersion<Public>> Aliases<VV> for Public {
    fn seal_via<M: Payload, F: paseto_core::encodings::Footer>(which: u8, tok: paseto_core::tokens::UnsealedToken<VV, Public, M, F>, key: &Key<VV, Secret>, aad: &[u8]) -> Result<paseto_core::tokens::SealedToken<VV, Public, M, F>, PasetoError> {
        match which % 3 {
            1 => tok.sign_with_aad(key, aad),
            2 if aad.is_empty() => tok.sign(key),
            _ => tok.seal(key, aad),
        }
    }
    fn unseal_via<M: Payload, F: paseto_core::encodings::Footer, Val: paseto_core::validation::Validate<Claims = M>>(which: u8, tok: paseto_core::tokens::SealedToken<VV, Public, M, F>, key: &Key<VV, Public>, aad: &[u8], v: &Val) -> Result<paseto_core::tokens::UnsealedToken<VV, Public, M, F>, PasetoError> {
        match which % 3 {
            1 => tok.verify_with_aad(key, aad, v),
            2 if aad.is_empty() => tok.verify(key, v),
            _ => tok.unseal(key, aad, v),
        }
    }
    fn alias_name(which: u8, aad_empty: bool, sealing: bool) -> &'static str {
        match (which % 3, aad_empty, sealing) {
            (1, _, true) => "sign_with_aad",
            (2, true, true) => "sign",
            (_, _, true) => "seal",
            (1, _, false) => "verify_with_aad",
            (2, true, false) => "verify",
            (_, _, false) => "unseal",
        }
    }
}

/// The library refused an input that is valid by construction (a generated key, a well-formed blob).
/// Raised as a panic with a recognisable prefix; the engine reports it as a violation of the
/// property being checked (the library, not the harness, is at fault), see `engine::classify_panic`.
pub fn library_refused<T>(what: &str, e: &PasetoError) -> T {
    panic!("LIBRARY-REFUSED-VALID-INPUT: {what} was rejected: {e}")
}
