//! Fault mutators shared by C02, C06 and C12.

use serde::{Deserialize, Serialize};

/// Identifies one mutant (enough to regenerate it from the unmutated object).
#[derive(Clone, Debug, Serialize, Deserialize, PartialEq, Eq, Hash)]
pub struct MutId {
    pub class: String,
    pub pos: u32,
    pub arg: u32,
}

#[derive(Clone, Debug)]
pub struct TokenMutant {
    pub id: MutId,
    pub payload: Vec<u8>,
    pub footer: Vec<u8>,
    pub assertion: Vec<u8>,
}

pub struct TokenParts<'a> {
    pub payload: &'a [u8],
    pub footer: &'a [u8],
    pub assertion: &'a [u8],
    /// length of the leading nonce (0 for public tokens)
    pub prefix: usize,
    /// length of the trailing tag / signature
    pub suffix: usize,
    /// RSA signatures: the public modulus, big endian (None otherwise)
    pub modulus: Option<&'a [u8]>,
}

fn mid(class: &str, pos: usize, arg: usize) -> MutId {
    MutId { class: class.to_string(), pos: pos as u32, arg: arg as u32 }
}

/// positions to flip: all bits when `len <= full_limit`, otherwise all bits of the first
/// `edge` and last `edge` bytes plus a deterministic sample of the middle.
fn flip_positions(len: usize, full_limit: usize, edge: usize, seed: u64) -> Vec<usize> {
    if len <= full_limit {
        return (0..len * 8).collect();
    }
    let mut v: Vec<usize> = (0..edge * 8).collect();
    v.extend((len - edge) * 8..len * 8);
    let mid_bytes = len - 2 * edge;
    let r = crate::rng::det_bytes(seed, 0xf11b, if mid_bytes == 0 { 0 } else { 256 * 4 });
    for ch in r.chunks(4) {
        let x = u32::from_le_bytes(ch.try_into().unwrap()) as usize;
        v.push((edge + x % mid_bytes) * 8 + (x >> 20) % 8);
    }
    v.sort();
    v.dedup();
    v
}

/// The C02 mutation catalogue over (payload, footer, assertion).  Key substitutions and header
/// relabels are produced by the driver (they need typed keys / other parsers).
pub fn token_mutants(p: &TokenParts, assertion_supported: bool, seed: u64, full_limit: usize) -> Vec<TokenMutant> {
    let mut out = Vec::new();
    let mut push = |id: MutId, payload: Vec<u8>, footer: Vec<u8>, assertion: Vec<u8>| {
        if payload != p.payload || footer != p.footer || assertion != p.assertion {
            out.push(TokenMutant { id, payload, footer, assertion });
        }
    };
    let pl = p.payload.len();
    // 1. single-bit flips of payload and footer
    for bit in flip_positions(pl, full_limit, 64.min(pl / 2), seed) {
        let mut x = p.payload.to_vec();
        x[bit / 8] ^= 1 << (bit % 8);
        let region = if bit / 8 < p.prefix {
            "flip-nonce"
        } else if bit / 8 >= pl - p.suffix {
            "flip-tag"
        } else {
            "flip-body"
        };
        push(mid(region, bit, 0), x, p.footer.to_vec(), p.assertion.to_vec());
    }
    for bit in flip_positions(p.footer.len(), full_limit, 32.min(p.footer.len() / 2), seed ^ 1) {
        let mut x = p.footer.to_vec();
        x[bit / 8] ^= 1 << (bit % 8);
        push(mid("flip-footer", bit, 0), p.payload.to_vec(), x, p.assertion.to_vec());
    }
    if assertion_supported {
        for bit in flip_positions(p.assertion.len(), 64, 16.min(p.assertion.len() / 2), seed ^ 2) {
            let mut x = p.assertion.to_vec();
            x[bit / 8] ^= 1 << (bit % 8);
            push(mid("flip-assertion", bit, 0), p.payload.to_vec(), p.footer.to_vec(), x);
        }
    }
    // 2. truncations (every length when small, else the ones around every field boundary)
    let trunc_lens: Vec<usize> = if pl <= full_limit {
        (0..pl).collect()
    } else {
        let mut v: Vec<usize> = (0..p.prefix + 4).collect();
        v.extend(pl.saturating_sub(p.suffix + 4)..pl);
        v.extend([pl / 2, pl / 3]);
        v.sort();
        v.dedup();
        v.retain(|x| *x < pl);
        v
    };
    for k in &trunc_lens {
        push(mid("truncate-back", *k, 0), p.payload[..*k].to_vec(), p.footer.to_vec(), p.assertion.to_vec());
    }
    for k in trunc_lens.iter().filter(|k| **k > 0) {
        push(mid("truncate-front", *k, 0), p.payload[*k..].to_vec(), p.footer.to_vec(), p.assertion.to_vec());
    }
    // 3. extensions by 1..3 bytes at front, back and each field boundary
    let boundaries = [0usize, p.prefix, pl - p.suffix.min(pl), pl];
    for (bi, b) in boundaries.iter().enumerate() {
        for n in 1..=3usize {
            for fillb in [0x00u8, 0xff, 0x41] {
                let mut x = p.payload[..*b].to_vec();
                x.extend(std::iter::repeat(fillb).take(n));
                x.extend_from_slice(&p.payload[*b..]);
                push(mid("extend", bi * 16 + n, fillb as usize), x, p.footer.to_vec(), p.assertion.to_vec());
            }
        }
    }
    // 4. boundary shifts: the concatenation body||footer||assertion stays fixed
    let body_end = pl - p.suffix.min(pl);
    let body_start = p.prefix.min(body_end);
    for k in 1..=3usize {
        // body -> footer
        if body_end - body_start >= k {
            let mut x = p.payload[..body_end - k].to_vec();
            x.extend_from_slice(&p.payload[body_end..]);
            let mut f = p.payload[body_end - k..body_end].to_vec();
            f.extend_from_slice(p.footer);
            push(mid("shift-body-to-footer", k, 0), x, f, p.assertion.to_vec());
        }
        // footer -> body
        if p.footer.len() >= k {
            let mut x = p.payload[..body_end].to_vec();
            x.extend_from_slice(&p.footer[..k]);
            x.extend_from_slice(&p.payload[body_end..]);
            push(mid("shift-footer-to-body", k, 0), x, p.footer[k..].to_vec(), p.assertion.to_vec());
        }
        if assertion_supported {
            // footer -> assertion
            if p.footer.len() >= k {
                let fl = p.footer.len();
                let mut a = p.footer[fl - k..].to_vec();
                a.extend_from_slice(p.assertion);
                push(mid("shift-footer-to-assertion", k, 0), p.payload.to_vec(), p.footer[..fl - k].to_vec(), a);
            }
            // assertion -> footer
            if p.assertion.len() >= k {
                let mut f = p.footer.to_vec();
                f.extend_from_slice(&p.assertion[..k]);
                push(mid("shift-assertion-to-footer", k, 0), p.payload.to_vec(), f, p.assertion[k..].to_vec());
            }
            // body -> assertion (skipping an empty footer)
            if p.footer.is_empty() && body_end - body_start >= k {
                let mut x = p.payload[..body_end - k].to_vec();
                x.extend_from_slice(&p.payload[body_end..]);
                let mut a = p.payload[body_end - k..body_end].to_vec();
                a.extend_from_slice(p.assertion);
                push(mid("shift-body-to-assertion", k, 0), x, Vec::new(), a);
            }
        }
    }
    // 5. footer add / remove / replace
    push(mid("footer-remove", 0, 0), p.payload.to_vec(), Vec::new(), p.assertion.to_vec());
    for (i, extra) in [&b"\x00"[..], b"x", b"{}", b"."].iter().enumerate() {
        let mut f = p.footer.to_vec();
        f.extend_from_slice(extra);
        push(mid("footer-append", i, 0), p.payload.to_vec(), f, p.assertion.to_vec());
        let mut f2 = extra.to_vec();
        f2.extend_from_slice(p.footer);
        push(mid("footer-prepend", i, 0), p.payload.to_vec(), f2, p.assertion.to_vec());
        push(mid("footer-replace", i, 0), p.payload.to_vec(), extra.to_vec(), p.assertion.to_vec());
    }
    // footer and assertion swapped
    if assertion_supported {
        push(mid("swap-footer-assertion", 0, 0), p.payload.to_vec(), p.assertion.to_vec(), p.footer.to_vec());
    }
    // 6. assertion add / remove / replace (for v1/v2 any non-empty assertion must be refused)
    push(mid("assertion-remove", 0, 0), p.payload.to_vec(), p.footer.to_vec(), Vec::new());
    for (i, extra) in [&b"\x00"[..], b"x", b"{\"a\":1}"].iter().enumerate() {
        let mut a = p.assertion.to_vec();
        a.extend_from_slice(extra);
        push(mid("assertion-append", i, 0), p.payload.to_vec(), p.footer.to_vec(), a);
        push(mid("assertion-replace", i, 0), p.payload.to_vec(), p.footer.to_vec(), extra.to_vec());
    }
    // 8. correlated changes inside the nonce, the body, the tag / signature and the footer
    {
        let regions = [(0usize, p.prefix.min(pl)), (body_start, body_end), (body_end, pl)];
        for (ri, (a, b)) in regions.iter().enumerate() {
            if a < b {
                for m in correlated(&p.payload[*a..*b]) {
                    let mut x = p.payload[..*a].to_vec();
                    x.extend_from_slice(&m.1);
                    x.extend_from_slice(&p.payload[*b..]);
                    push(mid(&format!("correlated-{}", m.0), ri, m.2), x, p.footer.to_vec(), p.assertion.to_vec());
                }
            }
        }
        for m in correlated(p.footer) {
            push(mid(&format!("correlated-footer-{}", m.0), 0, m.2), p.payload.to_vec(), m.1, p.assertion.to_vec());
        }
    }
    // 9. Ed25519 signatures (64-byte signature, no nonce): the scalar half S replaced by S + L and
    // S + 2L (the same scalar modulo the group order - a verifier that does not insist on the
    // canonical S accepts it), and R with its unused encodings left alone
    if p.prefix == 0 && p.suffix == 64 && pl >= 64 {
        // L = 2^252 + 27742317777372353535851937790883648493, little endian
        const L: [u8; 32] = [0xed, 0xd3, 0xf5, 0x5c, 0x1a, 0x63, 0x12, 0x58, 0xd6, 0x9c, 0xf7, 0xa2, 0xde, 0xf9, 0xde, 0x14, 0, 0, 0, 0, 0, 0, 0, 0, 0, 0, 0, 0, 0, 0, 0, 0x10];
        let mut s: [u8; 32] = p.payload[pl - 32..].try_into().unwrap();
        for k in 1..=2usize {
            let mut carry = 0u16;
            for i in 0..32 {
                let t = s[i] as u16 + L[i] as u16 + carry;
                s[i] = t as u8;
                carry = t >> 8;
            }
            if carry != 0 {
                break;
            }
            let mut x = p.payload[..pl - 32].to_vec();
            x.extend_from_slice(&s);
            push(mid("signature-scalar-plus-group-order", k, 0), x, p.footer.to_vec(), p.assertion.to_vec());
        }
    }
    // 10. RSA signatures: the signature integer s replaced by s + n (the same residue modulo the
    // public modulus; RSAVP1 refuses representatives outside 0..n-1) whenever s + n still fits the field
    if let Some(n) = p.modulus {
        if p.prefix == 0 && p.suffix == n.len() && pl >= n.len() {
            let mut s = p.payload[pl - n.len()..].to_vec();
            let mut carry = 0u16;
            for i in (0..s.len()).rev() {
                let t = s[i] as u16 + n[i] as u16 + carry;
                s[i] = t as u8;
                carry = t >> 8;
            }
            if carry == 0 {
                let mut x = p.payload[..pl - n.len()].to_vec();
                x.extend_from_slice(&s);
                push(mid("signature-plus-modulus", 1, 0), x, p.footer.to_vec(), p.assertion.to_vec());
            }
        }
    }
    // 7. interior deletions at the field boundaries (the total shrinks, both ends stay)
    for (bi, b) in [p.prefix.min(pl), body_end].iter().enumerate() {
        for k in 1..=3usize {
            if b + k <= pl {
                let mut x = p.payload[..*b].to_vec();
                x.extend_from_slice(&p.payload[b + k..]);
                push(mid("delete-after-boundary", bi * 16 + k, 0), x, p.footer.to_vec(), p.assertion.to_vec());
            }
            if *b >= k {
                let mut x = p.payload[..b - k].to_vec();
                x.extend_from_slice(&p.payload[*b..]);
                push(mid("delete-before-boundary", bi * 16 + k, 0), x, p.footer.to_vec(), p.assertion.to_vec());
            }
        }
    }
    out
}

/// correlated modifications of one field: (class, new bytes, arg)
pub fn correlated(field: &[u8]) -> Vec<(&'static str, Vec<u8>, usize)> {
    let n = field.len();
    let mut out = Vec::new();
    let mut add = |class: &'static str, v: Vec<u8>, arg: usize| {
        if v != field {
            out.push((class, v, arg));
        }
    };
    if n >= 16 {
        let words = n / 8;
        for (i, j) in [(0usize, 1usize), (0, words - 1), (1, words - 1)] {
            if i < j && j < words {
                let mut v = field.to_vec();
                for k in 0..8 {
                    v.swap(8 * i + k, 8 * j + k);
                }
                add("word-swap", v, i * 64 + j);
            }
        }
        for d in [8usize, 16, 24] {
            if d < n {
                let mut v = field.to_vec();
                v[0] ^= 1;
                v[d] ^= 1;
                add("paired-bit-flip", v, d);
                let mut v2 = field.to_vec();
                v2[n - 1] ^= 0x80;
                v2[n - 1 - d] ^= 0x80;
                add("paired-bit-flip", v2, 1000 + d);
            }
        }
        // 4-byte words as well
        let mut v = field.to_vec();
        for k in 0..4 {
            v.swap(k, 4 + k);
        }
        add("halfword-swap", v, 0);
    }
    if n >= 2 {
        let mut v = field.to_vec();
        v.swap(0, 1);
        add("byte-swap", v, 0);
        let mut v2 = field.to_vec();
        v2.swap(n - 2, n - 1);
        add("byte-swap", v2, 1);
        // byte sums preserved: +1 / -1 on neighbours
        let mut v3 = field.to_vec();
        v3[0] = v3[0].wrapping_add(1);
        v3[1] = v3[1].wrapping_sub(1);
        add("sum-preserving", v3, 0);
        let mut v4 = field.to_vec();
        v4.reverse();
        add("reversed", v4, 0);
    }
    out
}

#[derive(Clone, Debug)]
pub struct BlobMutant {
    pub id: MutId,
    pub blob: Vec<u8>,
}

/// C06 catalogue over one opaque blob with known field boundaries.
pub fn blob_mutants(blob: &[u8], boundaries: &[usize], full_limit: usize, edge: usize, seed: u64) -> Vec<BlobMutant> {
    let mut out = Vec::new();
    let mut push = |id: MutId, b: Vec<u8>| {
        if b != blob {
            out.push(BlobMutant { id, blob: b });
        }
    };
    let n = blob.len();
    let mut bits = flip_positions(n, full_limit, edge.min(n / 2), seed);
    // always include all bits of 8 bytes after every boundary when sampling
    if n > full_limit {
        for b in boundaries {
            for byte in *b..(*b + 8).min(n) {
                for bit in 0..8 {
                    bits.push(byte * 8 + bit);
                }
            }
        }
        bits.sort();
        bits.dedup();
    }
    for bit in bits {
        let mut x = blob.to_vec();
        x[bit / 8] ^= 1 << (bit % 8);
        let field = boundaries.iter().filter(|b| **b <= bit / 8).count();
        push(mid(&format!("flip-field{field}"), bit, 0), x);
    }
    let lens: Vec<usize> = if n <= full_limit {
        (0..n).collect()
    } else {
        let mut v: Vec<usize> = Vec::new();
        for b in boundaries.iter().chain([n].iter()) {
            v.extend(b.saturating_sub(3)..(*b + 3).min(n));
        }
        v.extend([0, 1, n / 2, n - 1]);
        v.sort();
        v.dedup();
        v.retain(|x| *x < n);
        v
    };
    for k in &lens {
        push(mid("truncate-back", *k, 0), blob[..*k].to_vec());
        if *k > 0 {
            push(mid("truncate-front", *k, 0), blob[*k..].to_vec());
        }
    }
    let mut bs = boundaries.to_vec();
    bs.push(0);
    bs.push(n);
    bs.sort();
    bs.dedup();
    for (bi, b) in bs.iter().enumerate() {
        for k in 1..=3usize {
            for fillb in [0u8, 0xff] {
                let mut x = blob[..*b].to_vec();
                x.extend(std::iter::repeat(fillb).take(k));
                x.extend_from_slice(&blob[*b..]);
                push(mid("extend", bi * 16 + k, fillb as usize), x);
            }
        }
    }
    // the first byte of every field set to every value (format tags live there: point-encoding
    // tags, version bytes); a sample of values when each mutant is expensive
    for (bi, b) in bs.iter().enumerate() {
        if *b >= n {
            continue;
        }
        let values: Vec<u8> = if n <= full_limit { (0..=255u8).collect() } else { vec![0, 1, 2, 3, 4, 5, 6, 7, 0x80, 0xff] };
        for v in values {
            if v.count_ones() == (blob[*b] ^ v).count_ones() && (blob[*b] ^ v).count_ones() == 1 {
                // single-bit neighbours are already in the flip catalogue
            }
            let mut x = blob.to_vec();
            x[*b] = v;
            push(mid("set-field-first-byte", bi, v as usize), x);
        }
    }
    // correlated changes inside one field (a comparison that folds differences - XOR of words, sum
    // of bytes - instead of OR-ing them is blind to exactly these): words / bytes exchanged, the same
    // bit flipped in two bytes 8, 16 or 24 apart
    for (fi, w) in bs.windows(2).enumerate() {
        let (a, b) = (w[0], w[1]);
        for m in correlated(&blob[a..b]) {
            let mut x = blob[..a].to_vec();
            x.extend_from_slice(&m.1);
            x.extend_from_slice(&blob[b..]);
            push(mid(&format!("correlated-{}", m.0), fi, m.2), x);
        }
    }
    // interior deletions: 1..3 bytes removed right after / right before every field boundary,
    // plus the whole run of zero bytes that follows a boundary (a stripped big-endian integer)
    for (bi, b) in bs.iter().enumerate() {
        for k in 1..=3usize {
            if b + k <= n {
                let mut x = blob[..*b].to_vec();
                x.extend_from_slice(&blob[b + k..]);
                push(mid("delete-after-boundary", bi * 16 + k, 0), x);
            }
            if *b >= k {
                let mut x = blob[..b - k].to_vec();
                x.extend_from_slice(&blob[*b..]);
                push(mid("delete-before-boundary", bi * 16 + k, 0), x);
            }
        }
        let zeros = blob[*b..].iter().take_while(|x| **x == 0).count();
        if zeros > 3 && b + zeros < n {
            let mut x = blob[..*b].to_vec();
            x.extend_from_slice(&blob[b + zeros..]);
            push(mid("delete-zero-run", bi, zeros), x);
        }
    }
    out
}
