//! Independent reference model of PASETO v1-v4 and PASERK, written from the
//! specification.  It shares no composition code with /repo: own PAE, own
//! base64url, own field layouts, own HKDF/PBKDF2-free composition, own AES-CTR
//! with a full 128-bit big-endian counter.  Primitives come from aws-lc-rs
//! (SHA-384, HMAC, PBKDF2, ECDSA, RSA-PSS, ECDH), libsodium (BLAKE2b, XChaCha20,
//! XChaCha20-Poly1305, Ed25519, X25519, Argon2id), the bare `aes` block cipher and
//! big-integer arithmetic; never from the composition code of the crate under test.
//!
//! `selftest()` reproduces every positive upstream vector before any property is judged.

#![allow(clippy::too_many_arguments)]

use aes::cipher::{BlockEncrypt, KeyInit};
use aws_lc_rs::{digest, hmac};
use libsodium_rs::{crypto_aead, crypto_generichash, crypto_pwhash, crypto_scalarmult, crypto_sign, crypto_stream};
use num_bigint_dig::BigUint;

use crate::util::{b64_decode, b64_encode};

#[derive(Clone, Copy, PartialEq, Eq, Debug, serde::Serialize, serde::Deserialize)]
pub enum Ver {
    V1,
    V2,
    V3,
    V4,
}

impl Ver {
    pub fn n(self) -> u8 {
        match self {
            Ver::V1 => 1,
            Ver::V2 => 2,
            Ver::V3 => 3,
            Ver::V4 => 4,
        }
    }
    pub fn nist(self) -> bool {
        matches!(self, Ver::V1 | Ver::V3)
    }
    pub fn has_assertion(self) -> bool {
        matches!(self, Ver::V3 | Ver::V4)
    }
    pub fn v(self) -> String {
        format!("v{}", self.n())
    }
    pub fn k(self) -> String {
        format!("k{}", self.n())
    }
    /// length of the random draw behind a local token
    pub fn local_draw_len(self) -> usize {
        if self == Ver::V2 { 24 } else { 32 }
    }
    pub fn local_nonce_len(self) -> usize {
        if self == Ver::V2 { 24 } else { 32 }
    }
    pub fn local_tag_len(self) -> usize {
        match self {
            Ver::V1 | Ver::V3 => 48,
            Ver::V2 => 16,
            Ver::V4 => 32,
        }
    }
    pub fn sig_len(self) -> usize {
        match self {
            Ver::V1 => 256,
            Ver::V2 | Ver::V4 => 64,
            Ver::V3 => 96,
        }
    }
}

pub type MR<T> = Result<T, String>;

// ---------------------------------------------------------------------------
// primitives

pub fn pae(pieces: &[&[u8]]) -> Vec<u8> {
    let mut out = Vec::new();
    out.extend_from_slice(&(pieces.len() as u64).to_le_bytes());
    for p in pieces {
        out.extend_from_slice(&(p.len() as u64).to_le_bytes());
        out.extend_from_slice(p);
    }
    out
}

/// Inverse of `pae`: the unique piece list, or None if `bytes` is not a PAE output.
pub fn pae_parse(bytes: &[u8]) -> Option<Vec<Vec<u8>>> {
    let mut rest = bytes;
    let take8 = |r: &mut &[u8]| -> Option<u64> {
        if r.len() < 8 {
            return None;
        }
        let (a, b) = r.split_at(8);
        *r = b;
        Some(u64::from_le_bytes(a.try_into().unwrap()))
    };
    let n = take8(&mut rest)?;
    let mut out = Vec::new();
    for _ in 0..n {
        let l = take8(&mut rest)? as usize;
        if rest.len() < l {
            return None;
        }
        let (a, b) = rest.split_at(l);
        out.push(a.to_vec());
        rest = b;
    }
    if rest.is_empty() { Some(out) } else { None }
}

pub fn sha384(parts: &[&[u8]]) -> [u8; 48] {
    let mut c = digest::Context::new(&digest::SHA384);
    for p in parts {
        c.update(p);
    }
    c.finish().as_ref().try_into().unwrap()
}

pub fn hmac384(key: &[u8], parts: &[&[u8]]) -> [u8; 48] {
    let k = hmac::Key::new(hmac::HMAC_SHA384, key);
    let mut c = hmac::Context::with_key(&k);
    for p in parts {
        c.update(p);
    }
    c.sign().as_ref().try_into().unwrap()
}

/// HKDF-SHA384 (RFC 5869) composed by hand from HMAC.
pub fn hkdf384(salt: Option<&[u8]>, ikm: &[u8], info: &[&[u8]], len: usize) -> Vec<u8> {
    let zeros = [0u8; 48];
    let prk = hmac384(salt.unwrap_or(&zeros), &[ikm]);
    let mut out = Vec::new();
    let mut t: Vec<u8> = Vec::new();
    let mut i = 1u8;
    while out.len() < len {
        let mut parts: Vec<&[u8]> = vec![&t];
        parts.extend_from_slice(info);
        let ib = [i];
        parts.push(&ib);
        t = hmac384(&prk, &parts).to_vec();
        out.extend_from_slice(&t);
        i += 1;
    }
    out.truncate(len);
    out
}

pub fn pbkdf2_sha384(pw: &[u8], salt: &[u8], iters: u32, len: usize) -> MR<Vec<u8>> {
    let it = std::num::NonZeroU32::new(iters).ok_or("pbkdf2: zero iterations")?;
    let mut out = vec![0u8; len];
    aws_lc_rs::pbkdf2::derive(aws_lc_rs::pbkdf2::PBKDF2_HMAC_SHA384, it, salt, pw, &mut out);
    Ok(out)
}

/// AES-256-CTR with the whole 16-byte IV as one big-endian 128-bit counter (NIST SP 800-38A,
/// what OpenSSL's aes-256-ctr does).
pub fn aes256ctr(key: &[u8], iv: &[u8], data: &[u8]) -> Vec<u8> {
    let cipher = aes::Aes256::new_from_slice(key).expect("aes key");
    let mut ctr = u128::from_be_bytes(iv.try_into().expect("iv 16"));
    let mut out = Vec::with_capacity(data.len());
    for chunk in data.chunks(16) {
        let mut block = aes::Block::clone_from_slice(&ctr.to_be_bytes());
        cipher.encrypt_block(&mut block);
        for (i, b) in chunk.iter().enumerate() {
            out.push(b ^ block[i]);
        }
        ctr = ctr.wrapping_add(1);
    }
    out
}

/// The same through aws-lc (used to cross-check the hand-written counter in `selftest`).
pub fn aes256ctr_awslc(key: &[u8], iv: &[u8], data: &[u8]) -> Vec<u8> {
    use aws_lc_rs::cipher::{AES_256, EncryptingKey, EncryptionContext, UnboundCipherKey};
    let k = UnboundCipherKey::new(&AES_256, key).unwrap();
    let mut buf = data.to_vec();
    let ivf: [u8; 16] = iv.try_into().unwrap();
    EncryptingKey::ctr(k)
        .unwrap()
        .less_safe_encrypt(&mut buf, EncryptionContext::Iv128(aws_lc_rs::iv::FixedLength::from(ivf)))
        .unwrap();
    buf
}

pub fn blake2b(key: Option<&[u8]>, outlen: usize, parts: &[&[u8]]) -> Vec<u8> {
    let mut st = crypto_generichash::State::new(key, outlen).expect("blake2b params");
    for p in parts {
        st.update(p);
    }
    st.finalize()
}

pub fn xchacha20(key: &[u8], nonce: &[u8], data: &[u8]) -> Vec<u8> {
    let k = crypto_stream::Key::from_slice(key).expect("xchacha key");
    let n = crypto_stream::xchacha20::Nonce::try_from_slice(nonce).expect("xchacha nonce");
    if data.is_empty() {
        return Vec::new();
    }
    crypto_stream::xchacha20::stream_xor(data, &n, &k).expect("xchacha")
}

pub fn ed25519_pk_from_seed(seed: &[u8; 32]) -> [u8; 32] {
    let kp = crypto_sign::keypair_from_seed(seed).expect("ed25519 seed");
    *kp.public_key.as_bytes()
}

pub fn ed25519_sign(sk64: &[u8], msg: &[u8]) -> MR<[u8; 64]> {
    let sk = crypto_sign::SecretKey::from_bytes(sk64).map_err(|e| format!("{e}"))?;
    crypto_sign::sign_detached(msg, &sk).map_err(|e| format!("{e}"))
}

pub fn ed25519_verify(pk32: &[u8], msg: &[u8], sig: &[u8]) -> bool {
    let Ok(pk) = crypto_sign::PublicKey::from_bytes(pk32) else {
        return false;
    };
    let Ok(sig): Result<[u8; 64], _> = sig.try_into() else {
        return false;
    };
    crypto_sign::verify_detached(&sig, msg, &pk)
}

/// ECDSA P-384/SHA-384 verification of a fixed-width r||s signature by aws-lc-rs.
pub fn p384_verify_awslc(pk_sec1: &[u8], msg: &[u8], sig96: &[u8]) -> bool {
    use aws_lc_rs::signature::{ECDSA_P384_SHA384_FIXED, UnparsedPublicKey};
    UnparsedPublicKey::new(&ECDSA_P384_SHA384_FIXED, pk_sec1).verify(msg, sig96).is_ok()
}

/// The same by RustCrypto p384.
pub fn p384_verify_rc(pk_sec1: &[u8], msg: &[u8], sig96: &[u8]) -> bool {
    use p384::ecdsa::signature::Verifier;
    let Ok(vk) = p384::ecdsa::VerifyingKey::from_sec1_bytes(pk_sec1) else {
        return false;
    };
    let Ok(sig) = p384::ecdsa::Signature::from_slice(sig96) else {
        return false;
    };
    vk.verify(msg, &sig).is_ok()
}

/// Compressed public key of a P-384 scalar (via RustCrypto; cross-checked with aws-lc in selftest).
pub fn p384_public(sk48: &[u8]) -> MR<[u8; 49]> {
    let sk = p384::SecretKey::from_slice(sk48).map_err(|e| format!("{e}"))?;
    let ep = p384::EncodedPoint::from(sk.public_key()).compress();
    ep.as_bytes().try_into().map_err(|_| "pk len".to_string())
}

pub fn p384_uncompress(pk49: &[u8]) -> MR<Vec<u8>> {
    let pk = p384::PublicKey::from_sec1_bytes(pk49).map_err(|e| format!("{e}"))?;
    Ok(p384::EncodedPoint::from(pk).as_bytes().to_vec())
}

/// Independent ECDSA signer (aws-lc-rs: random k, S not normalised).
pub fn p384_sign_awslc(sk48: &[u8], msg: &[u8]) -> MR<Vec<u8>> {
    use aws_lc_rs::signature::{ECDSA_P384_SHA384_FIXED_SIGNING, EcdsaKeyPair};
    let pk = p384_uncompress(&p384_public(sk48)?)?;
    let kp = EcdsaKeyPair::from_private_key_and_public_key(&ECDSA_P384_SHA384_FIXED_SIGNING, sk48, &pk)
        .map_err(|e| format!("{e}"))?;
    let rng = aws_lc_rs::rand::SystemRandom::new();
    Ok(kp.sign(&rng, msg).map_err(|e| format!("{e}"))?.as_ref().to_vec())
}

/// Independent deterministic ECDSA signer (RustCrypto, RFC 6979, low-S normalised or not on request).
pub fn p384_sign_rc(sk48: &[u8], msg: &[u8], high_s: bool) -> MR<Vec<u8>> {
    use p384::ecdsa::signature::Signer;
    let sk = p384::ecdsa::SigningKey::from_slice(sk48).map_err(|e| format!("{e}"))?;
    let sig: p384::ecdsa::Signature = sk.sign(msg);
    let low = sig.normalize_s().unwrap_or(sig);
    if !high_s {
        return Ok(low.to_bytes().to_vec());
    }
    // n - s
    let (r, s) = low.split_scalars();
    let neg_s = -*s;
    let hs = p384::ecdsa::Signature::from_scalars(*r, neg_s).map_err(|e| format!("{e}"))?;
    Ok(hs.to_bytes().to_vec())
}

pub fn p384_ecdh(sk48: &[u8], peer_sec1: &[u8]) -> MR<[u8; 48]> {
    // RustCrypto
    let sk = p384::SecretKey::from_slice(sk48).map_err(|e| format!("{e}"))?;
    let pk = p384::PublicKey::from_sec1_bytes(peer_sec1).map_err(|e| format!("{e}"))?;
    let shared = p384::ecdh::diffie_hellman(sk.to_nonzero_scalar(), pk.as_affine());
    let a: [u8; 48] = shared.raw_secret_bytes().as_slice().try_into().unwrap();
    // aws-lc
    use aws_lc_rs::agreement;
    let private = agreement::PrivateKey::from_private_key(&agreement::ECDH_P384, sk48).map_err(|e| format!("{e}"))?;
    let unc = p384_uncompress(peer_sec1)?;
    let peer = agreement::UnparsedPublicKey::new(&agreement::ECDH_P384, unc);
    let b: Vec<u8> = agreement::agree(&private, peer, "agree failed".to_string(), |s| Ok(s.to_vec()))?;
    if a[..] != b[..] {
        return Err("MODEL: ECDH disagreement between p384 and aws-lc".into());
    }
    Ok(a)
}

pub struct RsaPub {
    pub n: BigUint,
    pub e: BigUint,
    pub pkcs1_der: Vec<u8>,
}

pub fn rsa_pub_from_spki(spki_der: &[u8]) -> MR<RsaPub> {
    use rsa::pkcs1::EncodeRsaPublicKey;
    use rsa::pkcs8::DecodePublicKey;
    use rsa::traits::PublicKeyParts;
    let k = rsa::RsaPublicKey::from_public_key_der(spki_der).map_err(|e| format!("{e}"))?;
    Ok(RsaPub {
        n: BigUint::from_bytes_be(&k.n().to_bytes_be()),
        e: BigUint::from_bytes_be(&k.e().to_bytes_be()),
        pkcs1_der: k.to_pkcs1_der().map_err(|e| format!("{e}"))?.as_bytes().to_vec(),
    })
}

pub struct RsaPriv {
    pub n: BigUint,
    pub e: BigUint,
    pub d: BigUint,
    pub spki_der: Vec<u8>,
}

pub fn rsa_priv_from_pkcs1(der: &[u8]) -> MR<RsaPriv> {
    use rsa::pkcs1::DecodeRsaPrivateKey;
    use rsa::pkcs8::EncodePublicKey;
    use rsa::traits::{PrivateKeyParts, PublicKeyParts};
    let k = rsa::RsaPrivateKey::from_pkcs1_der(der).map_err(|e| format!("{e}"))?;
    Ok(RsaPriv {
        n: BigUint::from_bytes_be(&k.n().to_bytes_be()),
        e: BigUint::from_bytes_be(&k.e().to_bytes_be()),
        d: BigUint::from_bytes_be(&k.d().to_bytes_be()),
        spki_der: k.to_public_key().to_public_key_der().map_err(|e| format!("{e}"))?.as_bytes().to_vec(),
    })
}

/// PEM or DER -> DER (the v1 vectors carry PEM).
pub fn pem_to_der(input: &[u8]) -> Vec<u8> {
    if input.starts_with(b"-----BEGIN") {
        let s = String::from_utf8_lossy(input);
        let body: String = s.lines().filter(|l| !l.starts_with("-----")).collect();
        // standard base64 with padding
        let std: String = body
            .chars()
            .filter(|c| !c.is_whitespace() && *c != '=')
            .map(|c| match c {
                '+' => '-',
                '/' => '_',
                o => o,
            })
            .collect();
        lenient_b64(&std)
    } else {
        input.to_vec()
    }
}

fn lenient_b64(s: &str) -> Vec<u8> {
    // PEM bodies may carry non-zero trailing bits never; decode strictly first.
    b64_decode(s).unwrap_or_default()
}

pub fn rsa_pss_verify_awslc(pkcs1_pub_der: &[u8], msg: &[u8], sig: &[u8]) -> bool {
    use aws_lc_rs::signature::{RSA_PSS_2048_8192_SHA384, UnparsedPublicKey};
    UnparsedPublicKey::new(&RSA_PSS_2048_8192_SHA384, pkcs1_pub_der).verify(msg, sig).is_ok()
}

pub fn rsa_pss_sign_awslc(pkcs1_priv_der: &[u8], msg: &[u8]) -> MR<Vec<u8>> {
    use aws_lc_rs::rsa::KeyPair;
    use aws_lc_rs::signature::RSA_PSS_SHA384;
    let kp = KeyPair::from_der(pkcs1_priv_der).map_err(|e| format!("{e}"))?;
    let mut sig = vec![0u8; kp.public_modulus_len()];
    let rng = aws_lc_rs::rand::SystemRandom::new();
    kp.sign(&RSA_PSS_SHA384, &rng, msg, &mut sig).map_err(|e| format!("{e}"))?;
    Ok(sig)
}

pub fn i2osp(x: &BigUint, len: usize) -> Vec<u8> {
    let b = x.to_bytes_be();
    let mut out = vec![0u8; len.saturating_sub(b.len())];
    out.extend_from_slice(&b);
    out
}

// ---------------------------------------------------------------------------
// PASETO local

thread_local! {
    static SUFFIX: std::cell::RefCell<String> = const { std::cell::RefCell::new(String::new()) };
}

/// Run `f` with the token header carrying the payload-encoding suffix `sfx`
/// (`v4<sfx>.local.`), as the library does for `Payload::SUFFIX`.
pub fn with_suffix<T>(sfx: &str, f: impl FnOnce() -> T) -> T {
    SUFFIX.with(|s| *s.borrow_mut() = sfx.to_string());
    let r = f();
    SUFFIX.with(|s| s.borrow_mut().clear());
    r
}

pub fn header(ver: Ver, purpose: &str) -> String {
    SUFFIX.with(|s| format!("{}{}.{}.", ver.v(), s.borrow(), purpose))
}

pub fn assemble(h: &str, payload: &[u8], footer: &[u8]) -> String {
    let mut s = format!("{h}{}", b64_encode(payload));
    if !footer.is_empty() {
        s.push('.');
        s.push_str(&b64_encode(footer));
    }
    s
}

/// Split a token string: (payload bytes, footer bytes).  Strict.
pub fn disassemble(h: &str, token: &str) -> MR<(Vec<u8>, Vec<u8>)> {
    let rest = token.strip_prefix(h).ok_or("wrong header")?;
    let mut it = rest.split('.');
    let p = it.next().ok_or("no payload")?;
    let f = it.next();
    if it.next().is_some() {
        return Err("extra segment".into());
    }
    let payload = b64_decode(p).ok_or("payload base64")?;
    let footer = match f {
        Some(f) => b64_decode(f).ok_or("footer base64")?,
        None => Vec::new(),
    };
    Ok((payload, footer))
}

/// The nonce that ends up in the token for a given random draw and message.
pub fn local_nonce(ver: Ver, draw: &[u8], m: &[u8]) -> Vec<u8> {
    match ver {
        Ver::V1 => hmac384(draw, &[m])[..32].to_vec(),
        Ver::V2 => blake2b(Some(draw), 24, &[m]),
        Ver::V3 | Ver::V4 => draw.to_vec(),
    }
}

/// Encrypt with the nonce as it appears in the token (not the pre-image draw).
pub fn local_encrypt_with_nonce(ver: Ver, key: &[u8], n: &[u8], m: &[u8], f: &[u8], i: &[u8]) -> MR<Vec<u8>> {
    let h = header(ver, "local");
    if !ver.has_assertion() && !i.is_empty() {
        return Err("implicit assertion unsupported".into());
    }
    if n.len() != ver.local_nonce_len() {
        return Err("nonce length".into());
    }
    let mut payload = n.to_vec();
    match ver {
        Ver::V1 => {
            let ek = hkdf384(Some(&n[..16]), key, &[b"paseto-encryption-key"], 32);
            let ak = hkdf384(Some(&n[..16]), key, &[b"paseto-auth-key-for-aead"], 32);
            let c = aes256ctr(&ek, &n[16..], m);
            let t = hmac384(&ak, &[&pae(&[h.as_bytes(), n, &c, f])]);
            payload.extend_from_slice(&c);
            payload.extend_from_slice(&t);
        }
        Ver::V2 => {
            let aad = pae(&[h.as_bytes(), n, f]);
            let k = crypto_aead::xchacha20poly1305::Key::from_bytes(key).map_err(|e| format!("{e}"))?;
            let nn = crypto_aead::xchacha20poly1305::Nonce::try_from_slice(n).map_err(|e| format!("{e}"))?;
            let (c, t) = crypto_aead::xchacha20poly1305::encrypt_detached(m, Some(&aad), &nn, &k)
                .map_err(|e| format!("{e}"))?;
            payload.extend_from_slice(&c);
            payload.extend_from_slice(&t);
        }
        Ver::V3 => {
            let tmp = hkdf384(None, key, &[b"paseto-encryption-key", n], 48);
            let ak = hkdf384(None, key, &[b"paseto-auth-key-for-aead", n], 48);
            let c = aes256ctr(&tmp[..32], &tmp[32..], m);
            let t = hmac384(&ak, &[&pae(&[h.as_bytes(), n, &c, f, i])]);
            payload.extend_from_slice(&c);
            payload.extend_from_slice(&t);
        }
        Ver::V4 => {
            let tmp = blake2b(Some(key), 56, &[b"paseto-encryption-key", n]);
            let ak = blake2b(Some(key), 32, &[b"paseto-auth-key-for-aead", n]);
            let c = xchacha20(&tmp[..32], &tmp[32..], m);
            let t = blake2b(Some(&ak), 32, &[&pae(&[h.as_bytes(), n, &c, f, i])]);
            payload.extend_from_slice(&c);
            payload.extend_from_slice(&t);
        }
    }
    Ok(payload)
}

/// Full token for a random draw (v1: 32-byte b, v2: 24-byte b, v3/v4: the nonce).
pub fn local_encrypt(ver: Ver, key: &[u8], draw: &[u8], m: &[u8], f: &[u8], i: &[u8]) -> MR<String> {
    let n = local_nonce(ver, draw, m);
    let payload = local_encrypt_with_nonce(ver, key, &n, m, f, i)?;
    Ok(assemble(&header(ver, "local"), &payload, f))
}

pub fn local_decrypt(ver: Ver, key: &[u8], token: &str, i: &[u8]) -> MR<(Vec<u8>, Vec<u8>)> {
    let h = header(ver, "local");
    let (payload, f) = disassemble(&h, token)?;
    let nl = ver.local_nonce_len();
    let tl = ver.local_tag_len();
    if payload.len() < nl + tl {
        return Err("too short".into());
    }
    let n = &payload[..nl];
    let c = &payload[nl..payload.len() - tl];
    let t = &payload[payload.len() - tl..];
    if !ver.has_assertion() && !i.is_empty() {
        return Err("implicit assertion unsupported".into());
    }
    let m = match ver {
        Ver::V1 => {
            let ek = hkdf384(Some(&n[..16]), key, &[b"paseto-encryption-key"], 32);
            let ak = hkdf384(Some(&n[..16]), key, &[b"paseto-auth-key-for-aead"], 32);
            let t2 = hmac384(&ak, &[&pae(&[h.as_bytes(), n, c, &f])]);
            if t2[..] != *t {
                return Err("bad tag".into());
            }
            aes256ctr(&ek, &n[16..], c)
        }
        Ver::V2 => {
            let aad = pae(&[h.as_bytes(), n, &f]);
            let k = crypto_aead::xchacha20poly1305::Key::from_bytes(key).map_err(|e| format!("{e}"))?;
            let nn = crypto_aead::xchacha20poly1305::Nonce::try_from_slice(n).map_err(|e| format!("{e}"))?;
            crypto_aead::xchacha20poly1305::decrypt_detached(c, t, Some(&aad), &nn, &k).map_err(|_| "bad tag")?
        }
        Ver::V3 => {
            let tmp = hkdf384(None, key, &[b"paseto-encryption-key", n], 48);
            let ak = hkdf384(None, key, &[b"paseto-auth-key-for-aead", n], 48);
            let t2 = hmac384(&ak, &[&pae(&[h.as_bytes(), n, c, &f, i])]);
            if t2[..] != *t {
                return Err("bad tag".into());
            }
            aes256ctr(&tmp[..32], &tmp[32..], c)
        }
        Ver::V4 => {
            let tmp = blake2b(Some(key), 56, &[b"paseto-encryption-key", n]);
            let ak = blake2b(Some(key), 32, &[b"paseto-auth-key-for-aead", n]);
            let t2 = blake2b(Some(&ak), 32, &[&pae(&[h.as_bytes(), n, c, &f, i])]);
            if t2[..] != *t {
                return Err("bad tag".into());
            }
            xchacha20(&tmp[..32], &tmp[32..], c)
        }
    };
    Ok((m, f))
}

/// The v3 derived counter block n2 for a nonce (used to aim at counter wrap with the IV hook).
pub fn v3_local_n2(key: &[u8], n: &[u8]) -> Vec<u8> {
    hkdf384(None, key, &[b"paseto-encryption-key", n], 48)[32..].to_vec()
}

/// v3 local encryption with a forced counter block (mirrors the IV hook in /repo).
pub fn v3_local_encrypt_forced_iv(key: &[u8], n: &[u8], iv: &[u8; 16], m: &[u8], f: &[u8], i: &[u8]) -> String {
    let h = header(Ver::V3, "local");
    let tmp = hkdf384(None, key, &[b"paseto-encryption-key", n], 48);
    let ak = hkdf384(None, key, &[b"paseto-auth-key-for-aead", n], 48);
    let c = aes256ctr(&tmp[..32], iv, m);
    let t = hmac384(&ak, &[&pae(&[h.as_bytes(), n, &c, f, i])]);
    let mut payload = n.to_vec();
    payload.extend_from_slice(&c);
    payload.extend_from_slice(&t);
    assemble(&h, &payload, f)
}

// ---------------------------------------------------------------------------
// PASETO public

/// The exact byte string that is signed.  `pk` is the compressed point for v3, ignored otherwise.
pub fn public_preauth(ver: Ver, pk: &[u8], m: &[u8], f: &[u8], i: &[u8]) -> MR<Vec<u8>> {
    let h = header(ver, "public");
    if !ver.has_assertion() && !i.is_empty() {
        return Err("implicit assertion unsupported".into());
    }
    Ok(match ver {
        Ver::V1 | Ver::V2 => pae(&[h.as_bytes(), m, f]),
        Ver::V3 => pae(&[pk, h.as_bytes(), m, f, i]),
        Ver::V4 => pae(&[h.as_bytes(), m, f, i]),
    })
}

pub fn public_assemble(ver: Ver, m: &[u8], sig: &[u8], f: &[u8]) -> String {
    let mut payload = m.to_vec();
    payload.extend_from_slice(sig);
    assemble(&header(ver, "public"), &payload, f)
}

/// Split a public token into (message, signature, footer).
pub fn public_split(ver: Ver, token: &str) -> MR<(Vec<u8>, Vec<u8>, Vec<u8>)> {
    let (payload, f) = disassemble(&header(ver, "public"), token)?;
    let sl = ver.sig_len();
    if payload.len() < sl {
        return Err("too short".into());
    }
    let (m, s) = payload.split_at(payload.len() - sl);
    Ok((m.to_vec(), s.to_vec(), f))
}

// ---------------------------------------------------------------------------
// PASERK ids

/// kind is "lid" | "pid" | "sid"; `paserk` the canonical text of the key.
pub fn key_id(ver: Ver, kind: &str, paserk: &str) -> String {
    let h = format!("{}.{}.", ver.k(), kind);
    let d = if ver.nist() {
        sha384(&[h.as_bytes(), paserk.as_bytes()])[..33].to_vec()
    } else {
        blake2b(None, 33, &[h.as_bytes(), paserk.as_bytes()])
    };
    format!("{h}{}", b64_encode(&d))
}

pub fn key_text(ver: Ver, kind: &str, bytes: &[u8]) -> String {
    format!("{}.{}.{}", ver.k(), kind, b64_encode(bytes))
}

// ---------------------------------------------------------------------------
// PASERK PIE

/// `kind` is "local" or "secret".
pub fn pie_wrap(ver: Ver, kind: &str, wk: &[u8], n: &[u8; 32], ptk: &[u8]) -> String {
    pie_wrap_iv(ver, kind, wk, n, ptk, None)
}

/// `iv`: forced counter block (mirrors the paseto_verif hook); None = derived as specified.
pub fn pie_wrap_iv(ver: Ver, kind: &str, wk: &[u8], n: &[u8; 32], ptk: &[u8], iv: Option<&[u8; 16]>) -> String {
    let h = format!("{}.{}-wrap.pie.", ver.k(), kind);
    let (c, t) = if ver.nist() {
        let x = hmac384(wk, &[&[0x80], n]);
        let ak = hmac384(wk, &[&[0x81], n]);
        let c = aes256ctr(&x[..32], iv.map(|v| &v[..]).unwrap_or(&x[32..]), ptk);
        let t = hmac384(&ak[..32], &[h.as_bytes(), n, &c]).to_vec();
        (c, t)
    } else {
        let x = blake2b(Some(wk), 56, &[&[0x80], n]);
        let ak = blake2b(Some(wk), 32, &[&[0x81], n]);
        let c = xchacha20(&x[..32], &x[32..], ptk);
        let t = blake2b(Some(&ak), 32, &[h.as_bytes(), n, &c]);
        (c, t)
    };
    let mut blob = t;
    blob.extend_from_slice(n);
    blob.extend_from_slice(&c);
    format!("{h}{}", b64_encode(&blob))
}

pub fn pie_unwrap(ver: Ver, kind: &str, wk: &[u8], text: &str) -> MR<Vec<u8>> {
    let h = format!("{}.{}-wrap.pie.", ver.k(), kind);
    let blob = b64_decode(text.strip_prefix(&h).ok_or("wrong header")?).ok_or("base64")?;
    let tl = if ver.nist() { 48 } else { 32 };
    if blob.len() < tl + 32 {
        return Err("too short".into());
    }
    let (t, rest) = blob.split_at(tl);
    let (n, c) = rest.split_at(32);
    let n: [u8; 32] = n.try_into().unwrap();
    let again = pie_wrap_raw(ver, &h, wk, &n, c);
    if again.0 != t {
        return Err("bad tag".into());
    }
    Ok(again.1)
}

/// returns (tag over ciphertext `c`, keystream-xor of c)
fn pie_wrap_raw(ver: Ver, h: &str, wk: &[u8], n: &[u8; 32], c: &[u8]) -> (Vec<u8>, Vec<u8>) {
    if ver.nist() {
        let x = hmac384(wk, &[&[0x80], n]);
        let ak = hmac384(wk, &[&[0x81], n]);
        let t = hmac384(&ak[..32], &[h.as_bytes(), n, c]).to_vec();
        (t, aes256ctr(&x[..32], &x[32..], c))
    } else {
        let x = blake2b(Some(wk), 56, &[&[0x80], n]);
        let ak = blake2b(Some(wk), 32, &[&[0x81], n]);
        let t = blake2b(Some(&ak), 32, &[h.as_bytes(), n, c]);
        (t, xchacha20(&x[..32], &x[32..], c))
    }
}

// ---------------------------------------------------------------------------
// PASERK PBKW

#[derive(Clone, Copy, Debug, PartialEq, Eq, serde::Serialize, serde::Deserialize)]
pub enum PwParams {
    Pbkdf2 { iterations: u32 },
    Argon2id { mem_bytes: u64, time: u32, para: u32 },
}

impl PwParams {
    pub fn bytes(&self) -> Vec<u8> {
        match self {
            PwParams::Pbkdf2 { iterations } => iterations.to_be_bytes().to_vec(),
            PwParams::Argon2id { mem_bytes, time, para } => {
                let mut v = mem_bytes.to_be_bytes().to_vec();
                v.extend_from_slice(&time.to_be_bytes());
                v.extend_from_slice(&para.to_be_bytes());
                v
            }
        }
    }
}

pub fn pbkw_salt_len(ver: Ver) -> usize {
    if ver.nist() { 32 } else { 16 }
}
pub fn pbkw_nonce_len(ver: Ver) -> usize {
    if ver.nist() { 16 } else { 24 }
}
pub fn pbkw_tag_len(ver: Ver) -> usize {
    if ver.nist() { 48 } else { 32 }
}

fn pbkw_keys(ver: Ver, pw: &[u8], salt: &[u8], params: &PwParams) -> MR<(Vec<u8>, Vec<u8>)> {
    match (ver.nist(), params) {
        (true, PwParams::Pbkdf2 { iterations }) => {
            let k = pbkdf2_sha384(pw, salt, *iterations, 32)?;
            let ek = sha384(&[&[0xFF], &k])[..32].to_vec();
            let ak = sha384(&[&[0xFE], &k]).to_vec();
            Ok((ek, ak))
        }
        (false, PwParams::Argon2id { mem_bytes, time, para }) => {
            let k = if *para == 1 {
                crypto_pwhash::pwhash(32, pw, salt, *time as u64, *mem_bytes as usize, crypto_pwhash::ALG_ARGON2ID13)
                    .map_err(|e| format!("argon2id: {e}"))?
            } else {
                // libsodium fixes parallelism at 1; for p > 1 the primitive comes from the argon2
                // crate (the composition around it stays the model's own)
                if mem_bytes % 1024 != 0 {
                    return Err("model: memory must be a multiple of 1 KiB".into());
                }
                let params = argon2::Params::new((*mem_bytes / 1024) as u32, *time, *para, Some(32)).map_err(|e| format!("argon2 params: {e}"))?;
                let mut out = vec![0u8; 32];
                argon2::Argon2::new(argon2::Algorithm::Argon2id, argon2::Version::V0x13, params)
                    .hash_password_into(pw, salt, &mut out)
                    .map_err(|e| format!("argon2: {e}"))?;
                out
            };
            let ek = blake2b(None, 32, &[&[0xFF], &k]);
            let ak = blake2b(None, 32, &[&[0xFE], &k]);
            Ok((ek, ak))
        }
        _ => Err("params do not match version".into()),
    }
}

pub fn pbkw_wrap(ver: Ver, kind: &str, pw: &[u8], params: &PwParams, salt: &[u8], nonce: &[u8], ptk: &[u8]) -> MR<String> {
    let h = format!("{}.{}-pw.", ver.k(), kind);
    if salt.len() != pbkw_salt_len(ver) || nonce.len() != pbkw_nonce_len(ver) {
        return Err("salt/nonce length".into());
    }
    let (ek, ak) = pbkw_keys(ver, pw, salt, params)?;
    let pb = params.bytes();
    let (edk, t) = if ver.nist() {
        let edk = aes256ctr(&ek, nonce, ptk);
        let t = hmac384(&ak, &[h.as_bytes(), salt, &pb, nonce, &edk]).to_vec();
        (edk, t)
    } else {
        let edk = xchacha20(&ek, nonce, ptk);
        let t = blake2b(Some(&ak), 32, &[h.as_bytes(), salt, &pb, nonce, &edk]);
        (edk, t)
    };
    let mut blob = salt.to_vec();
    blob.extend_from_slice(&pb);
    blob.extend_from_slice(nonce);
    blob.extend_from_slice(&edk);
    blob.extend_from_slice(&t);
    Ok(format!("{h}{}", b64_encode(&blob)))
}

/// The blob for a given KDF OUTPUT (pre-key) instead of a password: what anyone can compute if a back
/// end ever derives a constant pre-key (e.g. skips the KDF for degenerate parameters).
pub fn pbkw_wrap_with_prekey(ver: Ver, kind: &str, prekey: &[u8], params_bytes: &[u8], salt: &[u8], nonce: &[u8], ptk: &[u8]) -> String {
    let h = format!("{}.{}-pw.", ver.k(), kind);
    let (edk, t) = if ver.nist() {
        let ek = sha384(&[&[0xff], prekey]);
        let ak = sha384(&[&[0xfe], prekey]);
        let edk = aes256ctr(&ek[..32], nonce, ptk);
        let t = hmac384(&ak, &[h.as_bytes(), salt, params_bytes, nonce, &edk]).to_vec();
        (edk, t)
    } else {
        let ek = blake2b(None, 32, &[&[0xff], prekey]);
        let ak = blake2b(None, 32, &[&[0xfe], prekey]);
        let edk = xchacha20(&ek, nonce, ptk);
        let t = blake2b(Some(&ak), 32, &[h.as_bytes(), salt, params_bytes, nonce, &edk]);
        (edk, t)
    };
    let mut blob = salt.to_vec();
    blob.extend_from_slice(params_bytes);
    blob.extend_from_slice(nonce);
    blob.extend_from_slice(&edk);
    blob.extend_from_slice(&t);
    format!("{h}{}", b64_encode(&blob))
}

pub struct PbkwParts {
    pub salt: Vec<u8>,
    pub params: PwParams,
    pub nonce: Vec<u8>,
    pub edk: Vec<u8>,
    pub tag: Vec<u8>,
}

pub fn pbkw_split(ver: Ver, kind: &str, text: &str) -> MR<PbkwParts> {
    let h = format!("{}.{}-pw.", ver.k(), kind);
    let blob = b64_decode(text.strip_prefix(&h).ok_or("wrong header")?).ok_or("base64")?;
    pbkw_split_blob(ver, &blob)
}

pub fn pbkw_split_blob(ver: Ver, blob: &[u8]) -> MR<PbkwParts> {
    let sl = pbkw_salt_len(ver);
    let pl = if ver.nist() { 4 } else { 16 };
    let nl = pbkw_nonce_len(ver);
    let tl = pbkw_tag_len(ver);
    if blob.len() < sl + pl + nl + tl {
        return Err("too short".into());
    }
    let salt = blob[..sl].to_vec();
    let p = &blob[sl..sl + pl];
    let params = if ver.nist() {
        PwParams::Pbkdf2 { iterations: u32::from_be_bytes(p.try_into().unwrap()) }
    } else {
        PwParams::Argon2id {
            mem_bytes: u64::from_be_bytes(p[..8].try_into().unwrap()),
            time: u32::from_be_bytes(p[8..12].try_into().unwrap()),
            para: u32::from_be_bytes(p[12..].try_into().unwrap()),
        }
    };
    let nonce = blob[sl + pl..sl + pl + nl].to_vec();
    let edk = blob[sl + pl + nl..blob.len() - tl].to_vec();
    let tag = blob[blob.len() - tl..].to_vec();
    Ok(PbkwParts { salt, params, nonce, edk, tag })
}

pub fn pbkw_unwrap(ver: Ver, kind: &str, pw: &[u8], text: &str) -> MR<Vec<u8>> {
    let h = format!("{}.{}-pw.", ver.k(), kind);
    let p = pbkw_split(ver, kind, text)?;
    let (ek, ak) = pbkw_keys(ver, pw, &p.salt, &p.params)?;
    let pb = p.params.bytes();
    if ver.nist() {
        let t = hmac384(&ak, &[h.as_bytes(), &p.salt, &pb, &p.nonce, &p.edk]);
        if t[..] != p.tag[..] {
            return Err("bad tag".into());
        }
        Ok(aes256ctr(&ek, &p.nonce, &p.edk))
    } else {
        let t = blake2b(Some(&ak), 32, &[h.as_bytes(), &p.salt, &pb, &p.nonce, &p.edk]);
        if t != p.tag {
            return Err("bad tag".into());
        }
        Ok(xchacha20(&ek, &p.nonce, &p.edk))
    }
}

// ---------------------------------------------------------------------------
// PASERK PKE (seal)

/// v2/v4: seal `pdk` to Ed25519 public key `pk` with X25519 ephemeral secret `esk` (32 bytes, clamped by X25519).
/// As `pke_seal_25519`, with the ephemeral public key written in its other X25519 encoding: bit 255
/// set.  RFC 7748 masks that bit, so the shared secret is the same; every hash and the tag are
/// computed over the 32 bytes as they appear in the blob.
pub fn pke_seal_25519_high_bit(ver: Ver, pk: &[u8], esk: &[u8; 32], pdk: &[u8; 32]) -> MR<String> {
    let h = format!("{}.seal.", ver.k());
    let edpk = crypto_sign::PublicKey::from_bytes(pk).map_err(|e| format!("{e}"))?;
    let xpk = crypto_sign::ed25519_pk_to_curve25519(&edpk).map_err(|e| format!("{e}"))?;
    let mut epk = crypto_scalarmult::curve25519::scalarmult_base(esk).map_err(|e| format!("{e}"))?;
    let xk = crypto_scalarmult::curve25519::scalarmult(esk, &xpk).map_err(|e| format!("{e}"))?;
    epk[31] |= 0x80;
    let blob = pke_25519_body(&h, &xk, &epk, &xpk, pdk);
    Ok(format!("{h}{}", b64_encode(&blob)))
}

pub fn pke_seal_25519(ver: Ver, pk: &[u8], esk: &[u8; 32], pdk: &[u8; 32]) -> MR<String> {
    let h = format!("{}.seal.", ver.k());
    let edpk = crypto_sign::PublicKey::from_bytes(pk).map_err(|e| format!("{e}"))?;
    let xpk = crypto_sign::ed25519_pk_to_curve25519(&edpk).map_err(|e| format!("{e}"))?;
    let epk = crypto_scalarmult::curve25519::scalarmult_base(esk).map_err(|e| format!("{e}"))?;
    let xk = crypto_scalarmult::curve25519::scalarmult(esk, &xpk).map_err(|e| format!("{e}"))?;
    let blob = pke_25519_body(&h, &xk, &epk, &xpk, pdk);
    Ok(format!("{h}{}", b64_encode(&blob)))
}

/// The blob the recipient (holding the Ed25519 secret key) can recompute for a given epk and data key.
pub fn pke_recompute_25519(ver: Ver, sk64: &[u8], epk: &[u8], pdk: &[u8]) -> MR<String> {
    let h = format!("{}.seal.", ver.k());
    let sk = crypto_sign::SecretKey::from_bytes(sk64).map_err(|e| format!("{e}"))?;
    let xsk = crypto_sign::ed25519_sk_to_curve25519(&sk).map_err(|e| format!("{e}"))?;
    let pk = crypto_sign::PublicKey::from_bytes(&sk64[32..]).map_err(|e| format!("{e}"))?;
    let xpk = crypto_sign::ed25519_pk_to_curve25519(&pk).map_err(|e| format!("{e}"))?;
    let xk = crypto_scalarmult::curve25519::scalarmult(&xsk, epk).map_err(|e| format!("{e}"))?;
    Ok(format!("{h}{}", b64_encode(&pke_25519_body(&h, &xk, epk, &xpk, pdk))))
}

pub fn x25519_base(esk: &[u8; 32]) -> MR<[u8; 32]> {
    crypto_scalarmult::curve25519::scalarmult_base(esk).map_err(|e| format!("{e}"))
}

fn pke_25519_body(h: &str, xk: &[u8], epk: &[u8], xpk: &[u8], pdk: &[u8]) -> Vec<u8> {
    let ek = blake2b(None, 32, &[&[0x01], h.as_bytes(), xk, epk, xpk]);
    let ak = blake2b(None, 32, &[&[0x02], h.as_bytes(), xk, epk, xpk]);
    let n = blake2b(None, 24, &[epk, xpk]);
    let edk = xchacha20(&ek, &n, pdk);
    let t = blake2b(Some(&ak), 32, &[h.as_bytes(), epk, &edk]);
    let mut blob = t;
    blob.extend_from_slice(epk);
    blob.extend_from_slice(&edk);
    blob
}

/// v2/v4 unseal with the 64-byte Ed25519 secret key.
pub fn pke_unseal_25519(ver: Ver, sk64: &[u8], text: &str) -> MR<Vec<u8>> {
    let h = format!("{}.seal.", ver.k());
    let blob = b64_decode(text.strip_prefix(&h).ok_or("wrong header")?).ok_or("base64")?;
    if blob.len() != 96 {
        return Err("length".into());
    }
    let (t, rest) = blob.split_at(32);
    let (epk, edk) = rest.split_at(32);
    let sk = crypto_sign::SecretKey::from_bytes(sk64).map_err(|e| format!("{e}"))?;
    let xsk = crypto_sign::ed25519_sk_to_curve25519(&sk).map_err(|e| format!("{e}"))?;
    let pk = crypto_sign::PublicKey::from_bytes(&sk64[32..]).map_err(|e| format!("{e}"))?;
    let xpk = crypto_sign::ed25519_pk_to_curve25519(&pk).map_err(|e| format!("{e}"))?;
    let xk = crypto_scalarmult::curve25519::scalarmult(&xsk, epk).map_err(|e| format!("{e}"))?;
    let ak = blake2b(None, 32, &[&[0x02], h.as_bytes(), &xk, epk, &xpk]);
    let t2 = blake2b(Some(&ak), 32, &[h.as_bytes(), epk, edk]);
    if t2 != t {
        return Err("bad tag".into());
    }
    let ek = blake2b(None, 32, &[&[0x01], h.as_bytes(), &xk, epk, &xpk]);
    let n = blake2b(None, 24, &[epk, &xpk]);
    Ok(xchacha20(&ek, &n, edk))
}

/// k3: seal to compressed P-384 key `pk49` with ephemeral scalar `esk48`.
pub fn pke_seal_p384(pk49: &[u8], esk48: &[u8], pdk: &[u8; 32]) -> MR<String> {
    pke_seal_p384_iv(pk49, esk48, pdk, None)
}

pub fn pke_seal_p384_iv(pk49: &[u8], esk48: &[u8], pdk: &[u8; 32], iv: Option<&[u8; 16]>) -> MR<String> {
    let h = "k3.seal.";
    let epk = p384_public(esk48)?;
    let xk = p384_ecdh(esk48, pk49)?;
    let blob = pke_p384_body(h, &xk, &epk, pk49, pdk, iv);
    Ok(format!("{h}{}", b64_encode(&blob)))
}

/// The blob the recipient (holding sk) can recompute for a given ephemeral key and data key.
pub fn pke_recompute_p384(sk48: &[u8], epk: &[u8], pdk: &[u8], iv: Option<&[u8; 16]>) -> MR<String> {
    let h = "k3.seal.";
    let pk = p384_public(sk48)?;
    let xk = p384_ecdh(sk48, epk)?;
    Ok(format!("{h}{}", b64_encode(&pke_p384_body(h, &xk, epk, &pk, pdk, iv))))
}

fn pke_p384_body(h: &str, xk: &[u8], epk: &[u8], pk: &[u8], pdk: &[u8], iv: Option<&[u8; 16]>) -> Vec<u8> {
    let x = sha384(&[&[0x01], h.as_bytes(), xk, epk, pk]);
    let ak = sha384(&[&[0x02], h.as_bytes(), xk, epk, pk]);
    let edk = aes256ctr(&x[..32], iv.map(|v| &v[..]).unwrap_or(&x[32..]), pdk);
    let t = hmac384(&ak, &[h.as_bytes(), epk, &edk]);
    let mut blob = t.to_vec();
    blob.extend_from_slice(epk);
    blob.extend_from_slice(&edk);
    blob
}

pub fn pke_unseal_p384(sk48: &[u8], text: &str) -> MR<Vec<u8>> {
    let h = "k3.seal.";
    let blob = b64_decode(text.strip_prefix(h).ok_or("wrong header")?).ok_or("base64")?;
    if blob.len() != 48 + 49 + 32 {
        return Err("length".into());
    }
    let (t, rest) = blob.split_at(48);
    let (epk, edk) = rest.split_at(49);
    let pk = p384_public(sk48)?;
    let xk = p384_ecdh(sk48, epk)?;
    let ak = sha384(&[&[0x02], h.as_bytes(), &xk, epk, &pk]);
    let t2 = hmac384(&ak, &[h.as_bytes(), epk, edk]);
    if t2[..] != *t {
        return Err("bad tag".into());
    }
    let x = sha384(&[&[0x01], h.as_bytes(), &xk, epk, &pk]);
    Ok(aes256ctr(&x[..32], &x[32..], edk))
}

/// k1: RSA-KEM with the 512-byte random value `r` (two top bits 01).
pub fn pke_seal_rsa(pk: &RsaPub, r: &[u8], pdk: &[u8; 32]) -> MR<String> {
    pke_seal_rsa_iv(pk, r, pdk, None)
}

pub fn pke_seal_rsa_iv(pk: &RsaPub, r: &[u8], pdk: &[u8; 32], iv: Option<&[u8; 16]>) -> MR<String> {
    let h = "k1.seal.";
    if r.len() != 512 {
        return Err("r length".into());
    }
    let c = i2osp(&BigUint::from_bytes_be(r).modpow(&pk.e, &pk.n), 512);
    let blob = pke_rsa_body(h, r, &c, pdk, iv);
    Ok(format!("{h}{}", b64_encode(&blob)))
}

/// The blob for a known r and ciphertext c (the recipient recovers r = c^d).
pub fn pke_recompute_rsa(r: &[u8], c: &[u8], pdk: &[u8], iv: Option<&[u8; 16]>) -> String {
    let h = "k1.seal.";
    format!("{h}{}", b64_encode(&pke_rsa_body(h, r, c, pdk, iv)))
}

fn pke_rsa_body(h: &str, r: &[u8], c: &[u8], pdk: &[u8], iv: Option<&[u8; 16]>) -> Vec<u8> {
    let k = sha384(&[c]);
    let x = hmac384(&k, &[&[0x01], h.as_bytes(), r]);
    let ak = hmac384(&k, &[&[0x02], h.as_bytes(), r]);
    let edk = aes256ctr(&x[..32], iv.map(|v| &v[..]).unwrap_or(&x[32..]), pdk);
    let t = hmac384(&ak, &[h.as_bytes(), c, &edk]);
    let mut blob = t.to_vec();
    blob.extend_from_slice(&edk);
    blob.extend_from_slice(c);
    blob
}

pub fn pke_unseal_rsa(sk: &RsaPriv, text: &str) -> MR<Vec<u8>> {
    let h = "k1.seal.";
    let blob = b64_decode(text.strip_prefix(h).ok_or("wrong header")?).ok_or("base64")?;
    if blob.len() != 48 + 32 + 512 {
        return Err("length".into());
    }
    let (t, rest) = blob.split_at(48);
    let (edk, c) = rest.split_at(32);
    let ci = BigUint::from_bytes_be(c);
    if ci >= sk.n {
        return Err("c out of range".into());
    }
    let r = i2osp(&ci.modpow(&sk.d, &sk.n), 512);
    let k = sha384(&[c]);
    let ak = hmac384(&k, &[&[0x02], h.as_bytes(), &r]);
    let t2 = hmac384(&ak, &[h.as_bytes(), c, edk]);
    if t2[..] != *t {
        return Err("bad tag".into());
    }
    let x = hmac384(&k, &[&[0x01], h.as_bytes(), &r]);
    Ok(aes256ctr(&x[..32], &x[32..], edk))
}

/// The RSA-KEM ciphertext for r (fixed width), to aim at leading-zero ciphertexts.
pub fn rsa_kem_c(pk: &RsaPub, r: &[u8]) -> Vec<u8> {
    i2osp(&BigUint::from_bytes_be(r).modpow(&pk.e, &pk.n), 512)
}

/// r = c^d mod n (fixed width).
pub fn rsa_kem_r(sk: &RsaPriv, c: &[u8]) -> Vec<u8> {
    i2osp(&BigUint::from_bytes_be(c).modpow(&sk.d, &sk.n), 512)
}

/// The same with CRT (fast), for *constructing* inputs only; the caller verifies r^e == c
/// with `rsa_kem_c`, so no trust is placed in it.
pub fn rsa_kem_r_fast(pkcs1_der: &[u8], c: &[u8]) -> MR<Vec<u8>> {
    use rsa::pkcs1::DecodeRsaPrivateKey;
    let k = rsa::RsaPrivateKey::from_pkcs1_der(pkcs1_der).map_err(|e| format!("{e}"))?;
    let r = rsa::hazmat::rsa_decrypt_and_check::<rsa::rand_core::OsRng>(&k, None, &rsa::BigUint::from_bytes_be(c))
        .map_err(|e| format!("{e}"))?;
    let b = r.to_bytes_be();
    let mut out = vec![0u8; 512usize.saturating_sub(b.len())];
    out.extend_from_slice(&b);
    Ok(out)
}

/// Construct an RSA-KEM input r (two top bits 01) whose ciphertext c = r^e mod n starts with
/// `zeros` zero bytes: pick such a c, take r = c^d (CRT, verified with the public operation).
pub fn rsa_aimed_r(pkcs1_priv_der: &[u8], pk: &RsaPub, seed: u64, zeros: usize) -> MR<Option<Vec<u8>>> {
    for t in 0..96u64 {
        let mut c = crate::rng::det_bytes(seed, 0xc0de + t, 512);
        for b in c.iter_mut().take(zeros) {
            *b = 0;
        }
        if c[zeros] == 0 {
            c[zeros] = 1;
        }
        let r = rsa_kem_r_fast(pkcs1_priv_der, &c)?;
        if r[0] & 0xc0 == 0x40 {
            if rsa_kem_c(pk, &r) != c {
                return Err("rsa_aimed_r: r^e != c".into());
            }
            return Ok(Some(r));
        }
    }
    Ok(None)
}
