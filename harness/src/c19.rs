//! Support for C19 (feature subsets): fixtures produced by the FULL build for the reduced-build
//! probe programs, and acceptance of what the probes produce.

use paseto_core::paserk::{PasswordWrappedKey, PieWrappedKey, SealedKey};
use paseto_core::tokens::{SealedToken, UnsealedToken};
use paseto_core::validation::NoValidation;
use paseto_core::version::{Local, Public};
use serde_json::{Value, json};

use crate::backends::*;
use crate::refmodel as model;

const MSG: &[u8] = b"{\"data\":\"feature probe\",\"exp\":\"2039-01-01T00:00:00+00:00\"}";
const FOOTER: &[u8] = b"{\"kid\":\"probe\"}";
const PASSWORD: &[u8] = b"probe password";

fn fixtures_for<B: Backend>(seed: u64) -> Value {
    crate::rng::set_seeded(seed);
    let ks = KeySeed::from_u64(seed);
    let lk = local_key::<B>(&ks);
    let sk = secret_key::<B>(&ks);
    let pk = sk.public_key();
    let wk = local_key::<B>(&KeySeed::from_u64(seed ^ 0x55));
    let (pke_sk, pke_pk, pke_sk_raw, pke_pk_raw) = pke_pair::<B>(&ks);
    let _ = pke_sk;
    let tl = UnsealedToken::<V<B>, Local, Raw>::new(Raw(MSG.to_vec())).with_footer(FOOTER.to_vec()).seal(&lk, &[]).unwrap().to_string();
    let tp = UnsealedToken::<V<B>, Public, Raw>::new(Raw(MSG.to_vec())).with_footer(FOOTER.to_vec()).seal(&sk, &[]).unwrap().to_string();
    json!({
        "crate": B::NAME,
        "version": B::VER.n(),
        "deterministic_sig": B::DETERMINISTIC_SIG,
        "msg": hex::encode(MSG),
        "footer": hex::encode(FOOTER),
        "password": hex::encode(PASSWORD),
        "local_key": hex::encode(key_bytes(&lk)),
        "wrapping_key": hex::encode(key_bytes(&wk)),
        "secret_key": hex::encode(key_bytes(&sk)),
        "public_key": hex::encode(key_bytes(&pk)),
        "public_text": pk.to_string(),
        "local_text": lk.expose_key().to_string(),
        "secret_text": sk.expose_key().to_string(),
        "pke_secret": hex::encode(&pke_sk_raw),
        "pke_public": hex::encode(&pke_pk_raw),
        "token_local": tl,
        "token_public": tp,
        "pie_local": lk.clone().wrap_pie(&wk).unwrap().to_string(),
        "pw_local": lk.clone().password_wrap_with_params(PASSWORD, &pw_params::<B>(&cheapest_params(B::VER))).unwrap().to_string(),
        "seal": lk.clone().seal(&pke_pk).unwrap().to_string(),
        "lid": lk.id().to_string(),
        "sid": sk.id().to_string(),
        "pid": pk.id().to_string(),
    })
}

pub fn fixtures(version: u8, seed: u64) -> Value {
    match version {
        1 => fixtures_for::<BV1>(seed),
        2 => fixtures_for::<BV2>(seed),
        3 => fixtures_for::<BV3>(seed),
        _ => fixtures_for::<BV4>(seed),
    }
}

fn accept_for<B: Backend>(fx: &Value, kind: &str, text: &str) -> Result<(), String> {
    let h = |k: &str| hex::decode(fx[k].as_str().unwrap_or("")).unwrap_or_default();
    let lk_raw = h("local_key");
    let e = |x: paseto_core::PasetoError| format!("{x}");
    match kind {
        "TOKEN_LOCAL" => {
            let lk = key_from_bytes::<V<B>, Local>(&lk_raw).map_err(e)?;
            let t: SealedToken<V<B>, Local, Raw, Vec<u8>> = text.parse().map_err(e)?;
            let u = t.unseal(&lk, &[], &NoValidation::dangerous_no_validation()).map_err(e)?;
            if u.claims.0 != MSG || u.footer != FOOTER {
                return Err("claims/footer differ".into());
            }
            // and it is the specification's token for the nonce it carries
            let (m, f) = model::local_decrypt(B::VER, &lk_raw, text, &[])?;
            if m != MSG || f != FOOTER {
                return Err("reference model decrypts to different claims".into());
            }
            Ok(())
        }
        "TOKEN_PUBLIC" => {
            let pk = key_from_bytes::<V<B>, Public>(&h("public_key")).map_err(e)?;
            let t: SealedToken<V<B>, Public, Raw, Vec<u8>> = text.parse().map_err(e)?;
            let u = t.unseal(&pk, &[], &NoValidation::dangerous_no_validation()).map_err(e)?;
            if u.claims.0 != MSG || u.footer != FOOTER {
                return Err("claims/footer differ".into());
            }
            if B::DETERMINISTIC_SIG && text != fx["token_public"].as_str().unwrap_or("") {
                return Err("deterministic signature differs from the full build's".into());
            }
            Ok(())
        }
        "PIE" => {
            let wk = key_from_bytes::<V<B>, Local>(&h("wrapping_key")).map_err(e)?;
            let w: PieWrappedKey<V<B>, Local> = text.parse().map_err(e)?;
            let k = w.unwrap(&wk).map_err(e)?;
            if key_bytes(&k) == lk_raw { Ok(()) } else { Err("unwrapped key differs".into()) }
        }
        "PW" => {
            let w: PasswordWrappedKey<V<B>, Local> = text.parse().map_err(e)?;
            let k = w.unwrap(PASSWORD).map_err(e)?;
            if key_bytes(&k) == lk_raw { Ok(()) } else { Err("unwrapped key differs".into()) }
        }
        "SEAL" => {
            let sk = key_from_bytes::<V<B>, paseto_core::version::PkeSecret>(&h("pke_secret")).map_err(e)?;
            let w: SealedKey<V<B>> = text.parse().map_err(e)?;
            let k = w.unseal(&sk).map_err(e)?;
            if key_bytes(&k) == lk_raw { Ok(()) } else { Err("unsealed key differs".into()) }
        }
        "LID" | "SID" | "PID" => {
            let want = fx[&kind.to_lowercase()].as_str().unwrap_or("");
            if text == want { Ok(()) } else { Err(format!("id {text} != full build's {want}")) }
        }
        other => Err(format!("unknown output kind {other}")),
    }
}

/// `lines`: "KIND text" produced by a reduced-feature probe; returns one verdict per line
pub fn accept(fx: &Value, lines: &str) -> Vec<(String, Result<(), String>)> {
    let v = fx["version"].as_u64().unwrap_or(4);
    let mut out = Vec::new();
    for l in lines.lines() {
        let Some(rest) = l.strip_prefix("OUT ") else { continue };
        let mut it = rest.splitn(2, ' ');
        let kind = it.next().unwrap_or("").to_string();
        let text = it.next().unwrap_or("");
        let r = match v {
            1 => accept_for::<BV1>(fx, &kind, text),
            2 => accept_for::<BV2>(fx, &kind, text),
            3 => accept_for::<BV3>(fx, &kind, text),
            _ => accept_for::<BV4>(fx, &kind, text),
        };
        out.push((kind, r));
    }
    out
}
