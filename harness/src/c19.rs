//! Support for C19 (feature subsets): fixtures produced by the FULL build for the reduced-build
//! probe programs, and acceptance of what the probes produce.

use paseto_core::paserk::{PasswordWrappedKey, PieWrappedKey, SealedKey};
use paseto_core::tokens::{SealedToken, UnsealedToken};
use paseto_core::validation::NoValidation;
use paseto_core::version::{Local, Public};
use serde_json::{Value, json};

use crate::backends::*;
use crate::refmodel as model;

const MSG: &[u8] = b"{\"data\":\"feature probe\",\"exp\":\"2039-01-01T00:00:00+00:00\"}";
const FOOTER: &[u8] = b"{\"kid\":\"probe\"}";
const PASSWORD: &[u8] = b"probe password";

fn fixtures_for<B: Backend>(seed: u64) -> Value {
    crate::rng::set_seeded(seed);
    let ks = KeySeed::from_u64(seed);
    let lk = local_key::<B>(&ks);
    let sk = secret_key::<B>(&ks);
    let pk = sk.public_key();
    let wk = local_key::<B>(&KeySeed::from_u64(seed ^ 0x55));
    let (pke_sk, pke_pk, pke_sk_raw, pke_pk_raw) = pke_pair::<B>(&ks);
    let _ = pke_sk;
    let tl = UnsealedToken::<V<B>, Local, Raw>::new(Raw(MSG.to_vec())).with_footer(FOOTER.to_vec()).seal(&lk, &[]).unwrap().to_string();
    let tp = UnsealedToken::<V<B>, Public, Raw>::new(Raw(MSG.to_vec())).with_footer(FOOTER.to_vec()).seal(&sk, &[]).unwrap().to_string();
    json!({
        "crate": B::NAME,
        "version": B::VER.n(),
        "deterministic_sig": B::DETERMINISTIC_SIG,
        "msg": hex::encode(MSG),
        "footer": hex::encode(FOOTER),
        "password": hex::encode(PASSWORD),
        "local_key": hex::encode(key_bytes(&lk)),
        "wrapping_key": hex::encode(key_bytes(&wk)),
        "secret_key": hex::encode(key_bytes(&sk)),
        "public_key": hex::encode(key_bytes(&pk)),
        "public_text": pk.to_string(),
        "local_text": lk.expose_key().to_string(),
        "secret_text": sk.expose_key().to_string(),
        "pke_secret": hex::encode(&pke_sk_raw),
        "pke_public": hex::encode(&pke_pk_raw),
        "token_local": tl,
        "token_public": tp,
        "pie_local": lk.clone().wrap_pie(&wk).unwrap().to_string(),
        "pw_local": lk.clone().password_wrap_with_params(PASSWORD, &pw_params::<B>(&cheapest_params(B::VER))).unwrap().to_string(),
        "seal": lk.clone().seal(&pke_pk).unwrap().to_string(),
        "lid": lk.id().to_string(),
        "sid": sk.id().to_string(),
        "pid": pk.id().to_string(),
        "corpus": corpus_for::<B>(seed),
    })
}

/// A corpus of inputs - valid, foreign-built and corrupted - with the FULL build's verdict on each.
/// A reduced build that offers the operation must give exactly the same verdict.
fn corpus_for<B: Backend>(seed: u64) -> Vec<Value> {
    let ver = B::VER;
    let ks = KeySeed::from_u64(seed);
    let lk_raw = local_key_bytes(&ks);
    let lk = local_key::<B>(&ks);
    let sk_raw = secret_bytes(ver, &ks);
    let sk = secret_key::<B>(&ks);
    let pk = sk.public_key();
    let pk_raw = key_bytes(&pk);
    let wk_raw = local_key_bytes(&KeySeed::from_u64(seed ^ 0x55));
    let wk = local_key::<B>(&KeySeed::from_u64(seed ^ 0x55));
    let (pke_sk, _pke_pk, _, pke_pk_raw) = pke_pair::<B>(&ks);
    let mut texts: Vec<(&'static str, String, String)> = Vec::new(); // (kind, how built, text)
    let flip = |t: &str| -> String {
        let mut v: Vec<char> = t.chars().collect();
        let i = v.len().saturating_sub(6);
        v[i] = if v[i] == 'A' { 'B' } else { 'A' };
        v.into_iter().collect()
    };
    // --- public tokens
    let lib_pub = UnsealedToken::<V<B>, Public, Raw>::new(Raw(MSG.to_vec())).with_footer(FOOTER.to_vec()).seal(&sk, &[]).unwrap().to_string();
    texts.push(("public", "library".into(), lib_pub.clone()));
    texts.push(("public", "library, one character changed".into(), flip(&lib_pub)));
    texts.push(("public", "library, extra section".into(), format!("{lib_pub}.AAAA")));
    if let Ok(pre) = model::public_preauth(ver, &model::pem_to_der(&pk_raw), MSG, FOOTER, &[]) {
        let mut foreign: Vec<(String, Vec<u8>)> = Vec::new();
        match ver {
            model::Ver::V2 | model::Ver::V4 => {
                if let Ok(s) = model::ed25519_sign(&sk_raw, &pre) {
                    foreign.push(("libsodium".into(), s.to_vec()));
                }
            }
            model::Ver::V3 => {
                for (n, r) in [("aws-lc random k", model::p384_sign_awslc(&sk_raw, &pre)), ("p384 low S", model::p384_sign_rc(&sk_raw, &pre, false)), ("p384 high S", model::p384_sign_rc(&sk_raw, &pre, true))] {
                    if let Ok(s) = r {
                        foreign.push((n.into(), s));
                    }
                }
            }
            model::Ver::V1 => {
                if let Ok(s) = model::rsa_pss_sign_awslc(&model::pem_to_der(&sk_raw), &pre) {
                    foreign.push(("aws-lc PSS".into(), s));
                }
            }
        }
        for (n, sig) in foreign {
            let t = model::public_assemble(ver, MSG, &sig, FOOTER);
            texts.push(("public", format!("signed by {n}"), t.clone()));
            let mut z = sig.clone();
            let h = z.len() / 2;
            z[..h].fill(0);
            texts.push(("public", format!("signed by {n}, first half of the signature zeroed"), model::public_assemble(ver, MSG, &z, FOOTER)));
        }
    }
    // --- local tokens
    let lib_loc = UnsealedToken::<V<B>, Local, Raw>::new(Raw(MSG.to_vec())).with_footer(FOOTER.to_vec()).seal(&lk, &[]).unwrap().to_string();
    texts.push(("local", "library".into(), lib_loc.clone()));
    texts.push(("local", "library, one character changed".into(), flip(&lib_loc)));
    for (n, draw) in [("zero nonce", vec![0u8; ver.local_draw_len()]), ("all-ones nonce", vec![0xff; ver.local_draw_len()])] {
        if let Ok(t) = model::local_encrypt(ver, &lk_raw, &draw, MSG, FOOTER, &[]) {
            texts.push(("local", format!("reference model, {n}"), t));
        }
    }
    // --- PASERK blobs
    let pie = lk.clone().wrap_pie(&wk).unwrap().to_string();
    texts.push(("pie", "library".into(), pie.clone()));
    texts.push(("pie", "library, one character changed".into(), flip(&pie)));
    texts.push(("pie", "reference model, all-ones nonce".into(), model::pie_wrap(ver, "local", &wk_raw, &[0xff; 32], &lk_raw)));
    let pw = lk.clone().password_wrap_with_params(PASSWORD, &pw_params::<B>(&cheapest_params(ver))).unwrap().to_string();
    texts.push(("pw", "library".into(), pw.clone()));
    texts.push(("pw", "library, one character changed".into(), flip(&pw)));
    if ver.nist() {
        // k1/k3 password wraps: the 16-byte nonce IS the AES-CTR counter block; the 32-byte key spans two
        // blocks, so the counter is incremented once - across a 32-bit, 64-bit or 128-bit carry for these
        for (n, nonce) in [("counter block ending ffffffff", { let mut x = vec![0x11u8; 16]; x[12..].fill(0xff); x }), ("counter block ending ffffffffffffffff", { let mut x = vec![0x22u8; 16]; x[8..].fill(0xff); x }), ("counter block all ones", vec![0xffu8; 16])] {
            if let Ok(t) = model::pbkw_wrap(ver, "local", PASSWORD, &cheapest_params(ver), &vec![0x33u8; model::pbkw_salt_len(ver)], &nonce, &lk_raw) {
                texts.push(("pw", format!("reference model, {n}"), t));
            }
        }
    }
    let (_, ppk, _, _) = pke_pair::<B>(&ks);
    let sealed = lk.clone().seal(&ppk).unwrap().to_string();
    texts.push(("seal", "library".into(), sealed.clone()));
    texts.push(("seal", "library, one character changed".into(), flip(&sealed)));
    // --- Ed25519 versions: a token that verifies under a small-order public key (the identity point
    // as key and as R, S = 0 satisfies the verification equation for every message).  Whether a back end
    // accepts it is its affair (DESIGN section 7); every build of it must give the SAME verdict.
    if matches!(ver, model::Ver::V2 | model::Ver::V4) {
        let mut ident = vec![0u8; 32];
        ident[0] = 1;
        let mut sig = ident.clone();
        sig.extend_from_slice(&[0u8; 32]);
        texts.push(("public-under-key:0100000000000000000000000000000000000000000000000000000000000000", "identity point as public key, R = identity, S = 0".into(), model::public_assemble(ver, MSG, &sig, FOOTER)));
        texts.push(("public-under-key:0100000000000000000000000000000000000000000000000000000000000000", "identity point as public key, the library's own signature".into(), lib_pub.clone()));
    }
    // --- key texts: every key body under every key header, parsed as every key kind
    // (a reduced build must accept exactly the key texts the full build accepts, kind by kind)
    {
        let (_, _, pke_sk_raw, _) = pke_pair::<B>(&ks);
        let pke_sk_enc = key_bytes(&pke_sk);
        let _ = pke_sk_raw;
        let sk_enc = key_bytes(&sk);
        let bodies: Vec<(&str, Vec<u8>)> = vec![("local key", lk_raw.to_vec()), ("public key", pk_raw.clone()), ("secret key", sk_enc), ("key-sealing public key", pke_pk_raw.clone()), ("key-sealing secret key", pke_sk_enc)];
        for (target, header) in [("key-local", "local"), ("key-public", "public"), ("key-secret", "secret"), ("key-pkepublic", "public"), ("key-pkesecret", "secret")] {
            for (bname, body) in &bodies {
                let text = format!("{}.{header}.{}", ver.k(), crate::util::b64_encode(body));
                texts.push((target, format!("bytes of a {bname} under the k.{header} header"), text.clone()));
                if bname.contains(header) || (header == "local" && bname.starts_with("local")) {
                    texts.push((target, format!("bytes of a {bname} under the k.{header} header, one character changed"), flip(&text)));
                }
            }
        }
    }
    // --- the full build's verdicts
    let nv = NoValidation::dangerous_no_validation;
    texts
        .into_iter()
        .map(|(kind, how, text)| {
            let verdict: Result<Vec<u8>, paseto_core::PasetoError> = match kind {
                "public" => text.parse::<SealedToken<V<B>, Public, Raw, Vec<u8>>>().and_then(|t| t.unseal(&pk, &[], &nv())).map(|u| u.claims.0),
                "local" => text.parse::<SealedToken<V<B>, Local, Raw, Vec<u8>>>().and_then(|t| t.unseal(&lk, &[], &nv())).map(|u| u.claims.0),
                "pie" => text.parse::<PieWrappedKey<V<B>, Local>>().and_then(|w| w.unwrap(&wk)).map(|k| key_bytes(&k)),
                "pw" => text.parse::<PasswordWrappedKey<V<B>, Local>>().and_then(|w| w.unwrap(PASSWORD)).map(|k| key_bytes(&k)),
                k if k.starts_with("public-under-key:") => key_from_bytes::<V<B>, Public>(&hex::decode(&k["public-under-key:".len()..]).unwrap_or_default())
                    .and_then(|key| text.parse::<SealedToken<V<B>, Public, Raw, Vec<u8>>>().and_then(|t| t.unseal(&key, &[], &nv())))
                    .map(|u| u.claims.0),
                "key-local" => text.parse::<paseto_core::key::Key<V<B>, Local>>().map(|k| key_bytes(&k)),
                "key-public" => text.parse::<paseto_core::key::Key<V<B>, Public>>().map(|k| key_bytes(&k)),
                "key-secret" => text.parse::<paseto_core::key::Key<V<B>, paseto_core::version::Secret>>().map(|k| key_bytes(&k)),
                "key-pkepublic" => text.parse::<paseto_core::key::Key<V<B>, paseto_core::version::PkePublic>>().map(|k| key_bytes(&k)),
                "key-pkesecret" => text.parse::<paseto_core::key::Key<V<B>, paseto_core::version::PkeSecret>>().map(|k| key_bytes(&k)),
                _ => text.parse::<SealedKey<V<B>>>().and_then(|w| w.unseal(&pke_sk)).map(|k| key_bytes(&k)),
            };
            json!({"kind": kind, "how": how, "text": text, "verdict": match verdict { Ok(b) => format!("ok:{}", hex::encode(b)), Err(_) => "err".to_string() }})
        })
        .collect()
}

pub fn fixtures(version: u8, seed: u64) -> Value {
    match version {
        1 => fixtures_for::<BV1>(seed),
        2 => fixtures_for::<BV2>(seed),
        3 => fixtures_for::<BV3>(seed),
        _ => fixtures_for::<BV4>(seed),
    }
}

fn accept_for<B: Backend>(fx: &Value, kind: &str, text: &str) -> Result<(), String> {
    let h = |k: &str| hex::decode(fx[k].as_str().unwrap_or("")).unwrap_or_default();
    let lk_raw = h("local_key");
    let e = |x: paseto_core::PasetoError| format!("{x}");
    match kind {
        "TOKEN_LOCAL" => {
            let lk = key_from_bytes::<V<B>, Local>(&lk_raw).map_err(e)?;
            let t: SealedToken<V<B>, Local, Raw, Vec<u8>> = text.parse().map_err(e)?;
            let u = t.unseal(&lk, &[], &NoValidation::dangerous_no_validation()).map_err(e)?;
            if u.claims.0 != MSG || u.footer != FOOTER {
                return Err("claims/footer differ".into());
            }
            // and it is the specification's token for the nonce it carries
            let (m, f) = model::local_decrypt(B::VER, &lk_raw, text, &[])?;
            if m != MSG || f != FOOTER {
                return Err("reference model decrypts to different claims".into());
            }
            Ok(())
        }
        "TOKEN_PUBLIC" => {
            let pk = key_from_bytes::<V<B>, Public>(&h("public_key")).map_err(e)?;
            let t: SealedToken<V<B>, Public, Raw, Vec<u8>> = text.parse().map_err(e)?;
            let u = t.unseal(&pk, &[], &NoValidation::dangerous_no_validation()).map_err(e)?;
            if u.claims.0 != MSG || u.footer != FOOTER {
                return Err("claims/footer differ".into());
            }
            if B::DETERMINISTIC_SIG && text != fx["token_public"].as_str().unwrap_or("") {
                return Err("deterministic signature differs from the full build's".into());
            }
            Ok(())
        }
        "PIE" => {
            let wk = key_from_bytes::<V<B>, Local>(&h("wrapping_key")).map_err(e)?;
            let w: PieWrappedKey<V<B>, Local> = text.parse().map_err(e)?;
            let k = w.unwrap(&wk).map_err(e)?;
            if key_bytes(&k) == lk_raw { Ok(()) } else { Err("unwrapped key differs".into()) }
        }
        "PW" => {
            let w: PasswordWrappedKey<V<B>, Local> = text.parse().map_err(e)?;
            let k = w.unwrap(PASSWORD).map_err(e)?;
            if key_bytes(&k) == lk_raw { Ok(()) } else { Err("unwrapped key differs".into()) }
        }
        "SEAL" => {
            let sk = key_from_bytes::<V<B>, paseto_core::version::PkeSecret>(&h("pke_secret")).map_err(e)?;
            let w: SealedKey<V<B>> = text.parse().map_err(e)?;
            let k = w.unseal(&sk).map_err(e)?;
            if key_bytes(&k) == lk_raw { Ok(()) } else { Err("unsealed key differs".into()) }
        }
        "LID" | "SID" | "PID" => {
            let want = fx[&kind.to_lowercase()].as_str().unwrap_or("");
            if text == want { Ok(()) } else { Err(format!("id {text} != full build's {want}")) }
        }
        other => Err(format!("unknown output kind {other}")),
    }
}

/// `lines`: "KIND text" produced by a reduced-feature probe; returns one verdict per line
pub fn accept(fx: &Value, lines: &str) -> Vec<(String, Result<(), String>)> {
    let v = fx["version"].as_u64().unwrap_or(4);
    let mut out = Vec::new();
    for l in lines.lines() {
        let Some(rest) = l.strip_prefix("OUT ") else { continue };
        let mut it = rest.splitn(2, ' ');
        let kind = it.next().unwrap_or("").to_string();
        let text = it.next().unwrap_or("");
        let r = match v {
            1 => accept_for::<BV1>(fx, &kind, text),
            2 => accept_for::<BV2>(fx, &kind, text),
            3 => accept_for::<BV3>(fx, &kind, text),
            _ => accept_for::<BV4>(fx, &kind, text),
        };
        out.push((kind, r));
    }
    out
}
