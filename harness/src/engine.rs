//! Runner, counters, evidence writer, replay and known-findings matcher.
//!
//! Every property check is a list of `SubCheck`s.  A sub-check either drives a
//! proptest `TestRunner` over a generated, serialisable case type
//! (`SubCheck::prop`) or enumerates cases itself (`SubCheck::custom`).  Both
//! kinds report through an `Acc`, and both can re-execute one saved case
//! (`replay`) without proptest.

use std::collections::{BTreeMap, HashSet};
use std::fmt::Debug;
use std::hash::{Hash, Hasher};
use std::sync::Arc;
use std::sync::atomic::{AtomicBool, Ordering};

use proptest::strategy::{Strategy, ValueTree};
use proptest::test_runner::{Config, RngSeed, TestCaseError, TestError, TestRunner};
use serde::Serialize;
use serde::de::DeserializeOwned;
use serde_json::{Value, json};

#[derive(Clone, Copy, PartialEq, Eq, Debug)]
pub enum Tier {
    Quick,
    Thorough,
}

impl Tier {
    pub fn pick<T>(self, q: T, t: T) -> T {
        match self {
            Tier::Quick => q,
            Tier::Thorough => t,
        }
    }
    pub fn name(self) -> &'static str {
        self.pick("quick", "thorough")
    }
}

/// A property failure found by an oracle.
#[derive(Debug, Clone)]
pub struct Fail {
    /// exact failing site and class, e.g. `C05/paseto-v1/pke/seal/ciphertext-leading-zero`
    pub sig: String,
    pub what: String,
}

impl Fail {
    pub fn new(sig: impl Into<String>, what: impl Into<String>) -> Self {
        Fail {
            sig: sig.into(),
            what: what.into(),
        }
    }
}

pub type R = Result<(), Fail>;

#[macro_export]
macro_rules! ensure {
    ($cond:expr, $sig:expr, $($fmt:tt)*) => {
        if !($cond) {
            return Err($crate::engine::Fail::new($sig, format!($($fmt)*)));
        }
    };
}

#[derive(Debug, Clone)]
pub struct Violation {
    pub sig: String,
    pub what: String,
    pub sub: String,
    pub case: Value,
}

pub fn fnv(s: &[u8]) -> u64 {
    let mut h: u64 = 0xcbf29ce484222325;
    for b in s {
        h ^= *b as u64;
        h = h.wrapping_mul(0x100000001b3);
    }
    h
}

pub fn mix(a: u64, b: u64) -> u64 {
    let mut z = a ^ b.rotate_left(32) ^ 0x9e3779b97f4a7c15;
    z = (z ^ (z >> 30)).wrapping_mul(0xbf58476d1ce4e5b9);
    z = (z ^ (z >> 27)).wrapping_mul(0x94d049bb133111eb);
    z ^ (z >> 31)
}

pub fn hash_of<T: Hash>(t: &T) -> u64 {
    // deterministic (no RandomState)
    struct F(u64);
    impl Hasher for F {
        fn finish(&self) -> u64 {
            self.0
        }
        fn write(&mut self, bytes: &[u8]) {
            for b in bytes {
                self.0 ^= *b as u64;
                self.0 = self.0.wrapping_mul(0x100000001b3);
            }
        }
    }
    let mut f = F(0xcbf29ce484222325);
    t.hash(&mut f);
    f.0
}

/// Per-sub-check accumulator (merged into the evidence at the end).
pub struct Acc {
    pub sub: String,
    pub tier: Tier,
    pub seed: u64,
    pub counting: bool,
    pub evals: u64,
    pub nontrivial: HashSet<u64>,
    pub classes: BTreeMap<String, u64>,
    pub samples: Vec<Value>,
    pub violations: Vec<Violation>,
    pub known_hits: BTreeMap<String, (u64, String)>,
    pub notes: Vec<String>,
    pub exhaustive: Vec<String>,
    pub harness_errors: Vec<String>,
    pub known: Arc<Known>,
    sample_cap: usize,
}

impl Acc {
    pub fn new(sub: &str, tier: Tier, seed: u64, known: Arc<Known>) -> Self {
        Acc {
            sub: sub.to_string(),
            tier,
            seed,
            counting: true,
            evals: 0,
            nontrivial: HashSet::new(),
            classes: BTreeMap::new(),
            samples: Vec::new(),
            violations: Vec::new(),
            known_hits: BTreeMap::new(),
            notes: Vec::new(),
            exhaustive: Vec::new(),
            harness_errors: Vec::new(),
            known,
            sample_cap: 3,
        }
    }

    /// one executed case / oracle evaluation
    pub fn eval(&mut self) {
        if self.counting {
            self.evals += 1;
        }
    }
    pub fn evals_n(&mut self, n: u64) {
        if self.counting {
            self.evals += n;
        }
    }
    /// mark a case as non-trivial; `desc` is its canonical descriptor hash
    pub fn nt(&mut self, desc: u64) {
        if self.counting {
            self.nontrivial.insert(mix(fnv(self.sub.as_bytes()), desc));
        }
    }
    pub fn class(&mut self, name: &str) {
        if self.counting {
            *self.classes.entry(name.to_string()).or_insert(0) += 1;
        }
    }
    pub fn class_n(&mut self, name: &str, n: u64) {
        if self.counting {
            *self.classes.entry(name.to_string()).or_insert(0) += n;
        }
    }
    pub fn sample(&mut self, f: impl FnOnce() -> Value) {
        if self.counting && self.samples.len() < self.sample_cap {
            let v = f();
            self.samples.push(json!({"sub": self.sub, "case": v}));
        }
    }
    pub fn note(&mut self, s: impl Into<String>) {
        self.notes.push(s.into());
    }

    /// Record a failure for `case`.  Known findings are tolerated (counted) so
    /// that the search continues behind them.
    pub fn fail(&mut self, f: Fail, case: Value) {
        if f.sig.starts_with("HARNESS/") {
            // the harness could not do what it set out to do: inconclusive, never a verdict
            if self.harness_errors.len() < 20 {
                self.harness_errors.push(format!("{}: {}", f.sig, f.what));
            }
            return;
        }
        if let Some(what) = self.known.lookup(&f.sig) {
            let e = self.known_hits.entry(f.sig.clone()).or_insert((0, what));
            e.0 += 1;
            return;
        }
        // keep at most 3 per signature, 20 overall
        let same = self.violations.iter().filter(|v| v.sig == f.sig).count();
        if same < 3 && self.violations.len() < 20 {
            self.violations.push(Violation {
                sig: f.sig,
                what: f.what,
                sub: self.sub.clone(),
                case,
            });
        }
    }

    /// Run an oracle on an enumerated case; on failure record it.
    pub fn check<C: Serialize>(&mut self, case: &C, f: impl FnOnce(&mut Acc) -> R) -> bool {
        let sub_name = self.sub.clone();
        watch_enter(|| serde_json::to_value(case).unwrap_or(Value::Null));
        let r = crate::util::catch(|| f(self));
        watch_leave();
        let r = match r {
            Ok(r) => r,
            Err(loc) => match classify_panic(&sub_name, &loc) {
                Ok(fail) => Err(fail),
                Err(loc) => std::panic::panic_any(format!("harness panic at {loc}")),
            },
        };
        match r {
            Ok(()) => true,
            Err(fail) => {
                let v = serde_json::to_value(case).unwrap_or(Value::Null);
                self.fail(fail, v);
                false
            }
        }
    }

    /// Is this signature a listed known finding (so generators may avoid re-reporting)?
    pub fn is_known(&self, sig: &str) -> bool {
        self.known.lookup(sig).is_some()
    }

    /// Proptest-driven exploration with shrinking.  `f` is the oracle; it is
    /// re-run while shrinking with counting switched off.
    pub fn drive<C, S>(&mut self, label: &str, cases: u32, strat: S, f: impl Fn(&C, &mut Acc) -> R)
    where
        C: Debug + Clone + Serialize,
        S: Strategy<Value = C>,
    {
        let seed = mix(self.seed, fnv(format!("{}#{}", self.sub, label).as_bytes()));
        let mut seed_bytes = [0u8; 32];
        for (i, ch) in seed_bytes.chunks_mut(8).enumerate() {
            ch.copy_from_slice(&mix(seed, i as u64).to_le_bytes());
        }
        let _ = seed_bytes;
        let cfg = Config {
            cases,
            failure_persistence: None,
            rng_seed: RngSeed::Fixed(seed),
            max_shrink_iters: 2000,
            max_global_rejects: 65536,
            ..Config::default()
        };
        let mut runner = TestRunner::new(cfg);
        let failed = AtomicBool::new(false);
        // first failure as observed (kept in case the failure depends on library randomness
        // that the harness cannot script, so the shrunk case may not fail again)
        let first: std::cell::RefCell<Option<(Fail, Value)>> = std::cell::RefCell::new(None);
        let cell = std::cell::RefCell::new(&mut *self);
        let case_no = std::cell::Cell::new(0u64);
        // at most ~400 perturbations per sub-check, at least one case in eight for small sub-checks
        let stride = (cases as u64 / 400).max(8);
        let res = runner.run(&strat, |case| {
            let mut g = cell.borrow_mut();
            let acc: &mut Acc = &mut g;
            if failed.load(Ordering::Relaxed) {
                acc.counting = false;
            }
            let known = acc.known.clone();
            let sub_name = acc.sub.clone();
            // history dimension: one case in `stride` (and every re-run while shrinking) is preceded by
            // a fixed set of FAILING library operations on this thread (see perturb.rs)
            let k = case_no.get();
            case_no.set(k + 1);
            if k % stride == 3 || failed.load(Ordering::Relaxed) {
                crate::perturb::rejected_everywhere();
                if acc.counting {
                    acc.class("history:after-rejected-operations-on-this-thread");
                }
            }
            watch_enter(|| json!({"label": label, "input": serde_json::to_value(&case).unwrap_or(Value::Null)}));
            let outcome = guarded(&sub_name, &f, &case, acc);
            watch_leave();
            match outcome {
                Ok(()) => Ok(()),
                Err(fail) => {
                    if let Some(what) = known.lookup(&fail.sig) {
                        // tolerated: count and continue the search behind it
                        if acc.counting {
                            let e = acc.known_hits.entry(fail.sig.clone()).or_insert((0, what));
                            e.0 += 1;
                        }
                        Ok(())
                    } else {
                        if !failed.swap(true, Ordering::Relaxed) {
                            *first.borrow_mut() =
                                Some((fail.clone(), serde_json::to_value(&case).unwrap_or(Value::Null)));
                        }
                        acc.counting = false;
                        Err(TestCaseError::fail(fail.sig))
                    }
                }
            }
        });
        drop(cell);
        self.counting = true;
        match res {
            Ok(()) => {}
            Err(TestError::Fail(_, minimal)) => {
                self.counting = false;
                let sub_name = self.sub.clone();
                crate::perturb::rejected_everywhere();
                let mut r = guarded(&sub_name, &f, &minimal, self);
                let mut tries = 0;
                while r.is_ok() && tries < 300 {
                    crate::perturb::rejected_everywhere();
                    r = guarded(&sub_name, &f, &minimal, self);
                    tries += 1;
                }
                self.counting = true;
                match r {
                    Err(fl) => {
                        let v = json!({"label": label, "nondeterministic": tries > 0, "input": serde_json::to_value(&minimal).unwrap_or(Value::Null)});
                        self.fail(fl, v);
                    }
                    Ok(()) => {
                        // not reproducible from the inputs alone: report the failure as first observed
                        if let Some((fl, case)) = first.borrow_mut().take() {
                            let v = json!({"label": label, "nondeterministic": true, "input": case});
                            self.fail(Fail::new(fl.sig, format!("{} [depends on library randomness; observed once, not reproduced in 300 re-runs of the shrunk case]", fl.what)), v);
                        } else {
                            self.harness_errors.push(format!("{}#{label}: failure vanished", self.sub));
                        }
                    }
                }
            }
            Err(TestError::Abort(why)) => {
                self.harness_errors
                    .push(format!("{}#{label}: proptest aborted: {why}", self.sub));
            }
        }
    }
}

// ---------------------------------------------------------------------------
// Non-return supervision (properties whose statement is that a call RETURNS: C04 "returns Ok or Err for
// every input", C16 "if the random source reports failure the operation returns an error").
//
// A time limit is never a verdict: a sub-check that exceeds its wall-clock budget is reported as
// inconclusive (exit 2).  A case on which the code under test demonstrably does not return is
// different, and is decided like this: the child process publishes the case it is executing; a
// supervisor thread watches the CPU time of the executing thread.  When ONE case has consumed
// `nonreturn_cpu_s()` seconds of CPU (legitimate cases of these sub-checks take microseconds to
// milliseconds; the costliest budgeted KDF case well under a second), the same case is executed in
// a fresh process (the control).  Only if the control too consumes that much CPU without returning
// is the case reported (`<Cxx>/<sub>/does-not-return`); if the control returns, or anything is
// unclear, the run is inconclusive.

pub const NONRETURN_IS_VIOLATION: &[&str] = &["C04", "C16"];

pub fn nonreturn_cpu_s() -> u64 {
    std::env::var("PV_NONRETURN_CPU_S").ok().and_then(|s| s.parse().ok()).unwrap_or(60)
}

struct WatchCase {
    seq: u64,
    tid: u32,
    json: String,
}
static WATCH_ON: AtomicBool = AtomicBool::new(false);
static WATCH_SEQ: std::sync::atomic::AtomicU64 = std::sync::atomic::AtomicU64::new(0);
static WATCH: std::sync::Mutex<Option<WatchCase>> = std::sync::Mutex::new(None);

fn watch_enter(make: impl FnOnce() -> Value) {
    if WATCH_ON.load(Ordering::Relaxed) {
        let w = WatchCase { seq: WATCH_SEQ.fetch_add(1, Ordering::Relaxed), tid: crate::util::my_tid(), json: make().to_string() };
        *WATCH.lock().unwrap() = Some(w);
    }
}
fn watch_leave() {
    if WATCH_ON.load(Ordering::Relaxed) {
        *WATCH.lock().unwrap() = None;
    }
}

pub enum Control {
    Returned(f64),
    Spins(f64),
    Unclear(String),
}

/// Execute one saved case of a sub-check in a fresh process and watch its CPU time.
pub fn run_case_control(prop: &str, sub: &str, case_json: &str) -> Control {
    use std::io::Write;
    let Ok(exe) = std::env::current_exe() else { return Control::Unclear("no executable".into()) };
    let t0 = std::time::Instant::now();
    let ch = std::process::Command::new(exe).args(["case-control", prop, sub]).env("PV_CHILD", "1").stdin(std::process::Stdio::piped()).stdout(std::process::Stdio::null()).stderr(std::process::Stdio::null()).spawn();
    let Ok(mut ch) = ch else { return Control::Unclear("cannot spawn the control".into()) };
    if let Some(mut si) = ch.stdin.take() {
        let _ = si.write_all(case_json.as_bytes());
    }
    let limit_ns = nonreturn_cpu_s() * 1_000_000_000;
    loop {
        match ch.try_wait() {
            Ok(Some(st)) => {
                return if st.success() { Control::Returned(t0.elapsed().as_secs_f64()) } else { Control::Unclear(format!("the control ended with {st}")) };
            }
            Ok(None) => {
                let cpu = crate::util::process_cpu(ch.id()).unwrap_or(0);
                if cpu >= limit_ns {
                    let _ = ch.kill();
                    let _ = ch.wait();
                    return Control::Spins(cpu as f64 / 1e9);
                }
                if t0.elapsed().as_secs() > 20 * nonreturn_cpu_s() {
                    let _ = ch.kill();
                    let _ = ch.wait();
                    return Control::Unclear(format!("the control neither returned nor consumed {}s of CPU in {}s", nonreturn_cpu_s(), 20 * nonreturn_cpu_s()));
                }
                std::thread::sleep(std::time::Duration::from_millis(100));
            }
            Err(e) => return Control::Unclear(format!("{e}")),
        }
    }
}

/// Entry point of `pv case-control <prop> <sub>` (case JSON on stdin): run the case, return.
pub fn case_control_main(def: PropertyDef, sub_name: &str, case_json: &str, verif_dir: &str) -> i32 {
    let Ok(case) = serde_json::from_str::<Value>(case_json) else { return 2 };
    let known = Arc::new(Known::load(&format!("{verif_dir}/known_findings.json")));
    for sc in def.subs {
        if sc.name == sub_name {
            let mut acc = Acc::new(&sc.name, Tier::Quick, 0, known);
            crate::rng::set_seeded(1);
            let _ = std::panic::catch_unwind(std::panic::AssertUnwindSafe(|| (sc.replay)(&case, &mut acc)));
            return 0;
        }
    }
    2
}

fn spawn_nonreturn_supervisor(prop: &'static str, sub: String) {
    WATCH_ON.store(true, Ordering::SeqCst);
    std::thread::spawn(move || {
        let limit_ns = nonreturn_cpu_s() * 1_000_000_000;
        let mut tracked: Option<(u64, u64)> = None; // (seq, cpu at first sight)
        loop {
            std::thread::sleep(std::time::Duration::from_millis(500));
            let cur = WATCH.lock().unwrap().as_ref().map(|w| (w.seq, w.tid));
            let Some((seq, tid)) = cur else {
                tracked = None;
                continue;
            };
            let Some((cpu, _)) = crate::util::thread_cpu(tid) else { continue };
            match tracked {
                Some((s, c0)) if s == seq => {
                    if cpu.saturating_sub(c0) >= limit_ns {
                        let json = WATCH.lock().unwrap().as_ref().filter(|w| w.seq == seq).map(|w| w.json.clone());
                        let Some(json) = json else { continue };
                        let line = match run_case_control(prop, &sub, &json) {
                            Control::Spins(c) => {
                                let mut case: Value = serde_json::from_str(&json).unwrap_or(Value::Null);
                                if let Some(o) = case.as_object_mut() {
                                    o.insert("nonreturn".into(), Value::Bool(true));
                                } else {
                                    case = json!({"nonreturn": true, "case": case});
                                }
                                json!({"kind": "violation", "sig": format!("{prop}/{sub}/does-not-return"), "what": format!("one case has not returned after {}s of CPU time in the sub-check's process, and again not after {c:.0}s of CPU time when executed alone in a fresh process (other cases of this sub-check take micro- to milliseconds)", nonreturn_cpu_s()), "case": case})
                            }
                            Control::Returned(t) => json!({"kind": "unclear", "what": format!("{sub}: a case consumed {}s of CPU without returning, but returned after {t:.2}s when executed alone in a fresh process", nonreturn_cpu_s())}),
                            Control::Unclear(w) => json!({"kind": "unclear", "what": format!("{sub}: a case consumed {}s of CPU without returning; control: {w}", nonreturn_cpu_s())}),
                        };
                        println!("NONRETURN {line}");
                        use std::io::Write;
                        let _ = std::io::stdout().flush();
                        std::process::exit(0);
                    }
                }
                _ => tracked = Some((seq, cpu)),
            }
        }
    });
}

/// A panic while an oracle runs.  Harness code lives under /verif/harness: a panic located there
/// is the harness's own (reported as a harness error, exit 2).  A panic located anywhere else -
/// /repo, a dependency the library called, or the standard library on the library's behalf - means
/// a library operation did not return: that breaks every property that promises a result.
pub fn classify_panic(sub: &str, loc: &str) -> Result<Fail, String> {
    let prop = sub.chars().take(3).collect::<String>().to_uppercase();
    if let Some(i) = loc.find("LIBRARY-REFUSED-VALID-INPUT: ") {
        let msg = &loc[i + "LIBRARY-REFUSED-VALID-INPUT: ".len()..];
        let what: String = msg.split(" was rejected").next().unwrap_or("").chars().map(|c| if c.is_ascii_alphanumeric() { c } else { '-' }).collect();
        return Ok(Fail::new(format!("{prop}/valid-input-rejected/{what}"), format!("the library refused an input that is valid by construction: {msg}")));
    }
    if loc.contains("/verif/harness/") || loc.starts_with("src/") {
        return Err(loc.to_string());
    }
    Ok(Fail::new(format!("{prop}/panic/{}", crate::util::panic_site(loc)), format!("a library operation panicked instead of returning: {loc}")))
}

/// run an oracle, turning a library panic into a failure of the case
fn guarded<C>(sub: &str, f: &impl Fn(&C, &mut Acc) -> R, case: &C, acc: &mut Acc) -> R {
    match crate::util::catch(|| f(case, acc)) {
        Ok(r) => r,
        Err(loc) => match classify_panic(sub, &loc) {
            Ok(fail) => Err(fail),
            Err(loc) => std::panic::panic_any(format!("harness panic at {loc}")),
        },
    }
}

/// Generate one value from a strategy with a fixed seed (used by enumerating sub-checks
/// that need seeded material but drive their own loops).
pub fn sample_values<S: Strategy>(strat: &S, seed: u64, n: usize) -> Vec<S::Value> {
    let cfg = Config {
        failure_persistence: None,
        rng_seed: RngSeed::Fixed(seed),
        ..Config::default()
    };
    let mut runner = TestRunner::new(cfg);
    let mut out = Vec::with_capacity(n);
    for _ in 0..n {
        out.push(strat.new_tree(&mut runner).expect("strategy").current());
    }
    out
}

/// Committed list of known / fixed findings.
#[derive(Default, Debug)]
pub struct Known {
    entries: Vec<(String, String, String, String)>, // property, signature, status, what
}

impl Known {
    pub fn load(path: &str) -> Known {
        let mut k = Known::default();
        if let Ok(s) = std::fs::read_to_string(path) {
            if let Ok(v) = serde_json::from_str::<Value>(&s) {
                if let Some(arr) = v.get("findings").and_then(|x| x.as_array()) {
                    for e in arr {
                        let g = |n: &str| e.get(n).and_then(|x| x.as_str()).unwrap_or("").to_string();
                        k.entries.push((g("property"), g("signature"), g("status"), g("what")));
                    }
                }
            }
        }
        k
    }
    /// Some(what) iff `sig` is listed with status "known".  "fixed" entries suppress nothing.
    pub fn lookup(&self, sig: &str) -> Option<String> {
        self.entries
            .iter()
            .find(|e| e.2 == "known" && e.1 == sig)
            .map(|e| e.3.clone())
    }
}

pub type RunFn = Box<dyn Fn(&mut Acc) + Send + Sync>;
pub type ReplayFn = Box<dyn Fn(&Value, &mut Acc) -> R + Send + Sync>;

pub struct SubCheck {
    pub name: String,
    /// relative cost hint for scheduling (bigger first)
    pub weight: u32,
    pub run: RunFn,
    pub replay: ReplayFn,
    /// run in a child process, so that an abort / segfault / stack overflow of the code under
    /// test is observed (and reported as a violation) instead of killing the whole check
    pub isolate: bool,
}

impl SubCheck {
    /// proptest-driven sub-check: `cases` per tier, strategy factory, oracle.
    pub fn prop<C, S>(
        name: impl Into<String>,
        weight: u32,
        cases: (u32, u32),
        strat: impl Fn(Tier) -> S + Send + Sync + 'static,
        f: impl Fn(&C, &mut Acc) -> R + Send + Sync + Clone + 'static,
    ) -> SubCheck
    where
        C: Debug + Clone + Serialize + DeserializeOwned + 'static,
        S: Strategy<Value = C> + 'static,
    {
        let f2 = f.clone();
        SubCheck {
            isolate: false,
            name: name.into(),
            weight,
            run: Box::new(move |acc: &mut Acc| {
                // quick case counts in the property tables are multiplied by 3 (fixed work, not a time quota)
                let n = acc.tier.pick(cases.0.saturating_mul(3), cases.1);
                let s = strat(acc.tier);
                acc.drive("main", n, s, &f);
            }),
            replay: Box::new(move |v: &Value, acc: &mut Acc| {
                let input = v.get("input").cloned().unwrap_or(v.clone());
                let c: C = serde_json::from_value(input)
                    .map_err(|e| Fail::new("HARNESS/replay-decode", format!("{e}")))?;
                // a case may only fail after rejected operations on the thread: replay with that history
                crate::perturb::rejected_everywhere();
                f2(&c, acc)
            }),
        }
    }

    pub fn prop_exact<C, S>(
        name: impl Into<String>,
        weight: u32,
        cases: (u32, u32),
        strat: impl Fn(Tier) -> S + Send + Sync + 'static,
        f: impl Fn(&C, &mut Acc) -> R + Send + Sync + Clone + 'static,
    ) -> SubCheck
    where
        C: Debug + Clone + Serialize + DeserializeOwned + 'static,
        S: Strategy<Value = C> + 'static,
    {
        let f2 = f.clone();
        SubCheck {
            isolate: false,
            name: name.into(),
            weight,
            run: Box::new(move |acc: &mut Acc| {
                // exact case counts (expensive cases)
                let n = acc.tier.pick(cases.0, cases.1);
                let s = strat(acc.tier);
                acc.drive("main", n, s, &f);
            }),
            replay: Box::new(move |v: &Value, acc: &mut Acc| {
                let input = v.get("input").cloned().unwrap_or(v.clone());
                let c: C = serde_json::from_value(input)
                    .map_err(|e| Fail::new("HARNESS/replay-decode", format!("{e}")))?;
                // a case may only fail after rejected operations on the thread: replay with that history
                crate::perturb::rejected_everywhere();
                f2(&c, acc)
            }),
        }
    }

    pub fn custom(
        name: impl Into<String>,
        weight: u32,
        run: impl Fn(&mut Acc) + Send + Sync + 'static,
        replay: impl Fn(&Value, &mut Acc) -> R + Send + Sync + 'static,
    ) -> SubCheck {
        SubCheck {
            isolate: false,
            name: name.into(),
            weight,
            run: Box::new(run),
            replay: Box::new(replay),
        }
    }

    pub fn isolated(mut self) -> SubCheck {
        self.isolate = true;
        self
    }
}

/// Serialisable form of an accumulator (child process -> parent).
#[derive(Serialize, serde::Deserialize, Default)]
pub struct AccWire {
    pub evals: u64,
    pub nontrivial: Vec<u64>,
    pub classes: BTreeMap<String, u64>,
    pub samples: Vec<Value>,
    pub violations: Vec<(String, String, String, Value)>,
    pub known_hits: BTreeMap<String, (u64, String)>,
    pub notes: Vec<String>,
    pub exhaustive: Vec<String>,
    pub harness_errors: Vec<String>,
}

impl Acc {
    pub fn to_wire(&self) -> AccWire {
        AccWire {
            evals: self.evals,
            nontrivial: self.nontrivial.iter().copied().collect(),
            classes: self.classes.clone(),
            samples: self.samples.clone(),
            violations: self.violations.iter().map(|v| (v.sig.clone(), v.what.clone(), v.sub.clone(), v.case.clone())).collect(),
            known_hits: self.known_hits.clone(),
            notes: self.notes.clone(),
            exhaustive: self.exhaustive.clone(),
            harness_errors: self.harness_errors.clone(),
        }
    }
    pub fn absorb(&mut self, w: AccWire) {
        self.evals += w.evals;
        self.nontrivial.extend(w.nontrivial);
        for (k, v) in w.classes {
            *self.classes.entry(k).or_insert(0) += v;
        }
        self.samples.extend(w.samples);
        for (sig, what, sub, case) in w.violations {
            self.violations.push(Violation { sig, what, sub, case });
        }
        for (k, v) in w.known_hits {
            let e = self.known_hits.entry(k).or_insert((0, v.1));
            e.0 += v.0;
        }
        self.notes.extend(w.notes);
        self.exhaustive.extend(w.exhaustive);
        self.harness_errors.extend(w.harness_errors);
    }
}

/// Run one sub-check in a child `pv child ...` process and merge what it reports.
fn run_isolated(prop: &str, sub: &SubCheck, acc: &mut Acc) {
    use std::os::unix::process::ExitStatusExt;
    let exe = match std::env::current_exe() {
        Ok(e) => e,
        Err(e) => {
            acc.harness_errors.push(format!("{}: cannot find own executable: {e}", sub.name));
            return;
        }
    };
    let out = std::process::Command::new(exe)
        .args(["child", prop, &sub.name, acc.tier.name(), &acc.seed.to_string()])
        .env("PV_CHILD", "1")
        .output();
    let out = match out {
        Ok(o) => o,
        Err(e) => {
            acc.harness_errors.push(format!("{}: cannot spawn child: {e}", sub.name));
            return;
        }
    };
    let stdout = String::from_utf8_lossy(&out.stdout);
    let mut got = false;
    for line in stdout.lines() {
        if let Some(j) = line.strip_prefix("NONRETURN ") {
            if let Ok(v) = serde_json::from_str::<Value>(j) {
                got = true;
                let what = v.get("what").and_then(|x| x.as_str()).unwrap_or("").to_string();
                if v.get("kind").and_then(|x| x.as_str()) == Some("violation") {
                    acc.fail(Fail::new(v.get("sig").and_then(|x| x.as_str()).unwrap_or("?/does-not-return"), what), v.get("case").cloned().unwrap_or(Value::Null));
                } else {
                    acc.harness_errors.push(what);
                }
            }
        }
        if let Some(j) = line.strip_prefix("ACC ") {
            if let Ok(w) = serde_json::from_str::<AccWire>(j) {
                acc.absorb(w);
                got = true;
            }
        }
    }
    if !out.status.success() || !got {
        let stderr = String::from_utf8_lossy(&out.stderr);
        let tail: String = stderr.lines().rev().take(12).collect::<Vec<_>>().into_iter().rev().collect::<Vec<_>>().join(" | ");
        let progress = stdout.lines().rev().find(|l| l.starts_with("PROGRESS ")).unwrap_or("").to_string();
        let how = match (out.status.signal(), out.status.code()) {
            (Some(s), _) => format!("signal-{s}"),
            (None, Some(c)) => format!("exit-{c}"),
            _ => "unknown".into(),
        };
        // memory exhaustion / kill are infrastructure, not verdicts
        if out.status.signal() == Some(9) {
            acc.harness_errors.push(format!("{}: child killed (SIGKILL, out of memory?)", sub.name));
            return;
        }
        acc.fail(
            Fail::new(
                format!("{prop}/process-crash/{}/{how}", sub.name),
                format!("the process running this sub-check died ({how}) instead of returning Ok/Err; last progress: {progress}; stderr tail: {tail}"),
            ),
            json!({"child_crash": true, "progress": progress}),
        );
    }
}

/// Entry point of `pv child <prop> <sub> <tier> <seed>`.
pub fn child_main(def: PropertyDef, sub_name: &str, tier: Tier, seed: u64, verif_dir: &str) -> i32 {
    let known = Arc::new(Known::load(&format!("{verif_dir}/known_findings.json")));
    for sub in def.subs {
        if sub.name == sub_name {
            let mut acc = Acc::new(&sub.name, tier, seed, known);
            crate::rng::set_seeded(mix(seed, fnv(sub.name.as_bytes())));
            if NONRETURN_IS_VIOLATION.contains(&def.id) {
                spawn_nonreturn_supervisor(def.id, sub.name.clone());
            }
            let r = std::panic::catch_unwind(std::panic::AssertUnwindSafe(|| (sub.run)(&mut acc)));
            if let Err(p) = r {
                let msg = crate::util::panic_message(&p);
                let loc = crate::util::last_panic_loc().unwrap_or_else(|| msg.clone());
                match classify_panic(&sub.name, &loc) {
                    Ok(fail) if !msg.starts_with("harness panic at") => acc.fail(fail, json!({"note": "panic outside a replayable case; re-run the sub-check", "sub": sub.name})),
                    _ => acc.harness_errors.push(format!("{}: sub-check panicked outside an oracle: {msg}", sub.name)),
                }
            }
            println!("ACC {}", serde_json::to_string(&acc.to_wire()).unwrap());
            return 0;
        }
    }
    println!("no such sub-check {sub_name}");
    2
}

pub struct PropertyDef {
    pub id: &'static str,
    pub level: &'static str,
    pub rule: &'static str,
    pub assumptions: Vec<&'static str>,
    pub subs: Vec<SubCheck>,
}

/// Run all sub-checks of a property (in parallel), merge, write evidence, print verdict lines.
/// Returns the process exit code.
pub fn run_property(def: PropertyDef, tier: Tier, seed: u64, verif_dir: &str, only: Option<&str>) -> i32 {
    let t0 = std::time::Instant::now();
    let known = Arc::new(Known::load(&format!("{verif_dir}/known_findings.json")));
    let mut subs: Vec<SubCheck> = def.subs;
    if let Some(o) = only {
        subs.retain(|s| s.name.contains(o));
    }
    subs.sort_by(|a, b| b.weight.cmp(&a.weight).then(a.name.cmp(&b.name)));
    let n_threads = std::env::var("VERIF_JOBS")
        .ok()
        .and_then(|s| s.parse::<usize>().ok())
        .unwrap_or(14)
        .max(1);
    let prop_id = def.id;
    let queue = std::sync::Mutex::new(subs.iter().collect::<Vec<_>>().into_iter());
    let results = std::sync::Mutex::new(Vec::<(String, Acc, f64)>::new());
    std::thread::scope(|sc| {
        for _ in 0..n_threads.min(subs.len().max(1)) {
            sc.spawn(|| {
                loop {
                    let next = { queue.lock().unwrap().next() };
                    let Some(sub) = next else { break };
                    let mut acc = Acc::new(&sub.name, tier, seed, known.clone());
                    let st = std::time::Instant::now();
                    crate::rng::set_seeded(mix(seed, fnv(sub.name.as_bytes())));
                    if sub.isolate && std::env::var_os("PV_CHILD").is_none() {
                        run_isolated(prop_id, sub, &mut acc);
                    } else {
                        let r = std::panic::catch_unwind(std::panic::AssertUnwindSafe(|| (sub.run)(&mut acc)));
                        if let Err(p) = r {
                            let msg = crate::util::panic_message(&p);
                            let loc = crate::util::last_panic_loc().unwrap_or_else(|| msg.clone());
                            match classify_panic(&sub.name, &loc) {
                                Ok(fail) if !msg.starts_with("harness panic at") => {
                                    acc.fail(fail, json!({"note": "panic outside a replayable case; re-run the sub-check", "sub": sub.name}));
                                }
                                _ => acc.harness_errors.push(format!("{}: sub-check panicked outside an oracle: {msg}", sub.name)),
                            }
                        }
                    }
                    crate::rng::set_passthrough();
                    results
                        .lock()
                        .unwrap()
                        .push((sub.name.clone(), acc, st.elapsed().as_secs_f64()));
                }
            });
        }
    });
    let mut results = results.into_inner().unwrap();
    results.sort_by(|a, b| a.0.cmp(&b.0));

    // merge
    let mut evals = 0u64;
    let mut nontrivial: HashSet<u64> = HashSet::new();
    let mut classes: BTreeMap<String, u64> = BTreeMap::new();
    let mut samples = Vec::new();
    let mut violations = Vec::new();
    let mut known_hits: BTreeMap<String, (u64, String)> = BTreeMap::new();
    let mut notes = Vec::new();
    let mut exhaustive = Vec::new();
    let mut harness_errors = Vec::new();
    let mut per_sub = Vec::new();
    for (name, acc, secs) in results {
        evals += acc.evals;
        per_sub.push(json!({"sub": name, "evaluations": acc.evals, "distinct_nontrivial": acc.nontrivial.len(), "wall_s": (secs*100.0).round()/100.0}));
        nontrivial.extend(acc.nontrivial.iter());
        for (k, v) in acc.classes {
            *classes.entry(format!("{}:{}", short(&name), k)).or_insert(0) += v;
        }
        samples.extend(acc.samples);
        violations.extend(acc.violations);
        for (k, v) in acc.known_hits {
            let e = known_hits.entry(k).or_insert((0, v.1));
            e.0 += v.0;
        }
        notes.extend(acc.notes);
        exhaustive.extend(acc.exhaustive);
        harness_errors.extend(acc.harness_errors);
    }
    // cap the number of samples in the evidence file
    let total_samples = samples.len();
    if samples.len() > 24 {
        let step = samples.len() as f64 / 24.0;
        samples = (0..24).map(|i| samples[(i as f64 * step) as usize].clone()).collect();
    }

    // one root cause usually fails many cases: keep at most two replay files per signature
    let total_violations = violations.len();
    {
        let mut seen: BTreeMap<String, u32> = BTreeMap::new();
        violations.retain(|v| {
            let n = seen.entry(v.sig.clone()).or_insert(0);
            *n += 1;
            *n <= 2
        });
    }
    // write replay files
    let mut viol_lines = Vec::new();
    for v in &violations {
        let dir = format!("{verif_dir}/replays/{}", def.id);
        let _ = std::fs::create_dir_all(&dir);
        let body = json!({"property": def.id, "signature": v.sig, "what": v.what, "sub": v.sub, "case": v.case});
        let h = fnv(serde_json::to_string(&body).unwrap().as_bytes());
        let safe: String = v
            .sig
            .chars()
            .map(|c| if c.is_ascii_alphanumeric() || c == '-' { c } else { '_' })
            .collect();
        let path = format!("{dir}/{}-{:016x}.json", safe, h);
        let _ = std::fs::write(&path, serde_json::to_string_pretty(&body).unwrap());
        viol_lines.push((path, v.clone()));
    }

    let wall = t0.elapsed().as_secs_f64();
    let evidence = json!({
        "property_id": def.id,
        "tier": tier.name(),
        "seed": seed,
        "level": def.level,
        "coverage": {
            "evaluations": evals,
            "distinct_nontrivial": nontrivial.len(),
            "rule": def.rule,
            "samples": samples,
            "samples_total_recorded": total_samples,
            "class_histogram": classes,
            "per_sub_check": per_sub,
            "exhaustive_subspaces": exhaustive,
            "exhaustive": false,
            "known_findings_tolerated": known_hits.iter().map(|(k,v)| json!({"signature": k, "hits": v.0})).collect::<Vec<_>>(),
            "notes": notes,
            "harness_errors": harness_errors,
        },
        "assumptions": def.assumptions,
        "wall_s": (wall*100.0).round()/100.0,
        "violations": violations.len(),
        "violating_cases_before_deduplication": total_violations,
    });
    let _ = std::fs::create_dir_all(format!("{verif_dir}/evidence"));
    let _ = std::fs::write(
        format!("{verif_dir}/evidence/{}.json", def.id),
        serde_json::to_string_pretty(&evidence).unwrap(),
    );

    for (sig, (n, what)) in &known_hits {
        println!("KNOWN-FINDING: property={} {} [{}; {} hit(s) this run]", def.id, what, sig, n);
    }
    for (path, v) in &viol_lines {
        println!("VIOLATION property={} replay={}", def.id, path);
        println!("  signature: {}", v.sig);
        println!("  what: {}", v.what);
    }
    println!(
        "{} {}: {} evaluations, {} distinct non-trivial, {} violation(s), {} known-finding signature(s), {:.1}s",
        def.id,
        tier.name(),
        evals,
        nontrivial.len(),
        violations.len(),
        known_hits.len(),
        wall
    );
    if !violations.is_empty() {
        return 1;
    }
    if !harness_errors.is_empty() {
        for e in &harness_errors {
            println!("INCONCLUSIVE harness error: {e}");
        }
        return 2;
    }
    0
}

fn short(name: &str) -> &str {
    name
}

/// Re-execute one saved case.
pub fn replay_file(defs: Vec<PropertyDef>, path: &str, verif_dir: &str) -> i32 {
    let Ok(s) = std::fs::read_to_string(path) else {
        println!("INCONCLUSIVE cannot read {path}");
        return 2;
    };
    let Ok(v) = serde_json::from_str::<Value>(&s) else {
        println!("INCONCLUSIVE cannot parse {path}");
        return 2;
    };
    let prop = v.get("property").and_then(|x| x.as_str()).unwrap_or("");
    let sub = v.get("sub").and_then(|x| x.as_str()).unwrap_or("");
    let case = v.get("case").cloned().unwrap_or(Value::Null);
    let known = Arc::new(Known::load(&format!("{verif_dir}/known_findings.json")));
    for d in defs {
        if d.id != prop {
            continue;
        }
        for sc in d.subs {
            if sc.name == sub && case.get("child_crash").and_then(|x| x.as_bool()).unwrap_or(false) {
                // the recorded failure is a dead child process: run the sub-check again in a child
                let mut acc = Acc::new(&sc.name, Tier::Quick, 20261002, known.clone());
                run_isolated(d.id, &sc, &mut acc);
                if let Some(vv) = acc.violations.first() {
                    println!("VIOLATION property={prop} replay={path}");
                    println!("  signature: {}", vv.sig);
                    println!("  what: {}", vv.what);
                    return 1;
                }
                println!("replay {path}: the sub-check ran to completion in a child process");
                return 0;
            }
            if sc.name == sub && case.get("nonreturn").and_then(|x| x.as_bool()).unwrap_or(false) {
                // the recorded failure is a case that does not return: execute it in a fresh process
                return match run_case_control(d.id, &sc.name, &case.to_string()) {
                    Control::Spins(c) => {
                        println!("VIOLATION property={prop} replay={path}");
                        println!("  signature: {prop}/{}/does-not-return", sc.name);
                        println!("  what: the case has not returned after {c:.0}s of CPU time in a fresh process");
                        1
                    }
                    Control::Returned(t) => {
                        println!("replay {path}: the case returned after {t:.2}s in a fresh process");
                        0
                    }
                    Control::Unclear(w) => {
                        println!("INCONCLUSIVE {w}");
                        2
                    }
                };
            }
            if sc.name == sub {
                let mut acc = Acc::new(&sc.name, Tier::Quick, 0, known.clone());
                crate::rng::set_seeded(1);
                let tries = if case.get("nondeterministic").and_then(|x| x.as_bool()).unwrap_or(false) { 3000 } else { 1 };
                let r = std::panic::catch_unwind(std::panic::AssertUnwindSafe(|| {
                    let mut last = Ok(());
                    for _ in 0..tries {
                        last = (sc.replay)(&case, &mut acc);
                        if last.is_err() || !acc.violations.is_empty() {
                            break;
                        }
                    }
                    last
                }));
                crate::rng::set_passthrough();
                match r {
                    Ok(Ok(())) => {
                        if let Some(vv) = acc.violations.first() {
                            println!("VIOLATION property={prop} replay={path}");
                            println!("  signature: {}", vv.sig);
                            println!("  what: {}", vv.what);
                            return 1;
                        }
                        println!("replay {path}: property held on this case");
                        return 0;
                    }
                    Ok(Err(f)) => {
                        if f.sig.starts_with("HARNESS/") {
                            println!("INCONCLUSIVE {}: {}", f.sig, f.what);
                            return 2;
                        }
                        if let Some(what) = known.lookup(&f.sig) {
                            println!("KNOWN-FINDING: property={prop} {what} [{}]", f.sig);
                            return 0;
                        }
                        println!("VIOLATION property={prop} replay={path}");
                        println!("  signature: {}", f.sig);
                        println!("  what: {}", f.what);
                        return 1;
                    }
                    Err(p) => {
                        println!("INCONCLUSIVE replay panicked in harness: {}", crate::util::panic_message(&p));
                        return 2;
                    }
                }
            }
        }
    }
    println!("INCONCLUSIVE no sub-check {sub} for property {prop}");
    2
}
