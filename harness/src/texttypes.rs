//! Table of every FromStr/Display pair of paseto-core instantiated at every back end, with
//! library-produced valid strings of each kind.  Shared by C04, C09 and C10.

use std::fmt::Display;
use std::str::FromStr;

use paseto_core::PasetoError;
use paseto_core::key::{HasKey, Key, KeyType};
use paseto_core::paserk::{KeyId, KeyText, PasswordWrappedKey, PieWrappedKey, SealedKey};
use paseto_core::tokens::{SealedToken, UnsealedToken};
use paseto_core::version::{Local, PkePublic, PkeSecret, Public, Secret};
use serde::Serialize;
use serde::de::DeserializeOwned;

use crate::backends::*;
use crate::refmodel::Ver;

/// Outcome of offering a string to one parser.
pub struct Parsed {
    /// Display of the parsed value
    pub text: String,
    /// serde_json serialisation of the parsed value (None for types without serde)
    pub json: Option<String>,
}

pub struct TextType {
    pub backend: &'static str,
    pub ver: Ver,
    /// token.local token.public key.local key.public key.secret key.pke-public key.pke-secret
    /// keytext.local keytext.public keytext.secret id.lid id.pid id.sid pie.local pie.secret pw.local pw.secret seal
    pub kind: &'static str,
    pub header: String,
    /// parse validates only syntax (header + base64 segments), not the decoded contents
    pub syntax_only: bool,
    /// decoded body must have exactly this many bytes (ids)
    pub exact_len: Option<usize>,
    pub is_token: bool,
    pub parse: Box<dyn Fn(&str) -> Result<Parsed, PasetoError> + Send + Sync>,
    /// parse through serde_json (string literal); None for types without serde
    pub serde_parse: Option<Box<dyn Fn(&str) -> Result<Parsed, String> + Send + Sync>>,
}

fn via<T>(s: &str) -> Result<Parsed, PasetoError>
where
    T: FromStr<Err = PasetoError> + Display + Serialize,
{
    let v: T = s.parse()?;
    Ok(Parsed { text: v.to_string(), json: serde_json::to_string(&v).ok() })
}

fn via_serde<T>(s: &str) -> Result<Parsed, String>
where
    T: DeserializeOwned + Display + Serialize,
{
    // every route by which a deserialiser can hand the string over: borrowed from the input text,
    // transient (the JSON spelling contains an escape), owned (from a Value), streamed (from a reader)
    let lit = serde_json::to_string(s).map_err(|e| e.to_string())?;
    let borrowed: Result<T, String> = serde_json::from_str(&lit).map_err(|e| e.to_string());
    let escaped_lit = match s.chars().next() {
        Some(c) if c.is_ascii() && !c.is_ascii_control() => format!("\"\\u{:04x}{}", c as u32, &lit[1 + c.len_utf8()..]),
        _ => lit.clone(),
    };
    let transient: Result<T, String> = serde_json::from_str(&escaped_lit).map_err(|e| e.to_string());
    let owned: Result<T, String> = serde_json::from_value(serde_json::Value::String(s.to_string())).map_err(|e| e.to_string());
    let streamed: Result<T, String> = serde_json::from_reader(lit.as_bytes()).map_err(|e| e.to_string());
    let texts: Vec<Option<String>> = [&borrowed, &transient, &owned, &streamed].iter().map(|r| r.as_ref().ok().map(|v| v.to_string())).collect();
    if texts.iter().any(|t| *t != texts[0]) {
        return Err(format!("SERDE-ROUTES-DISAGREE borrowed/transient/owned/streamed = {:?}", texts.iter().map(|t| t.is_some()).collect::<Vec<_>>()));
    }
    let v = borrowed?;
    Ok(Parsed { text: v.to_string(), json: serde_json::to_string(&v).ok() })
}

fn via_key<VV: HasKey<K>, K: KeyType>(s: &str) -> Result<Parsed, PasetoError> {
    let k: Key<VV, K> = s.parse()?;
    Ok(Parsed { text: k.expose_key().to_string(), json: None })
}

macro_rules! tt {
    ($out:expr, $B:ty, $kind:expr, $header:expr, $syntax:expr, $len:expr, $tok:expr, $T:ty) => {
        $out.push(TextType {
            backend: <$B>::NAME,
            ver: <$B>::VER,
            kind: $kind,
            header: $header,
            syntax_only: $syntax,
            exact_len: $len,
            is_token: $tok,
            parse: Box::new(|s| via::<$T>(s)),
            serde_parse: Some(Box::new(|s| via_serde::<$T>(s))),
        })
    };
}

macro_rules! tk {
    ($out:expr, $B:ty, $kind:expr, $header:expr, $K:ty) => {
        $out.push(TextType {
            backend: <$B>::NAME,
            ver: <$B>::VER,
            kind: $kind,
            header: $header,
            syntax_only: false,
            exact_len: None,
            is_token: false,
            parse: Box::new(|s| via_key::<V<$B>, $K>(s)),
            serde_parse: None,
        })
    };
}

pub fn types_for<B: Backend>(out: &mut Vec<TextType>) {
    let v = B::VER.v();
    let k = B::VER.k();
    tt!(out, B, "token.local", format!("{v}.local."), true, None, true, SealedToken<V<B>, Local, Raw, Vec<u8>>);
    tt!(out, B, "token.public", format!("{v}.public."), true, None, true, SealedToken<V<B>, Public, Raw, Vec<u8>>);
    // the same token types under a payload encoding with a non-empty suffix
    tt!(out, B, "token.local+suffix", format!("{v}.x1.local."), true, None, true, SealedToken<V<B>, Local, RawS, Vec<u8>>);
    tt!(out, B, "token.public+suffix", format!("{v}.x1.public."), true, None, true, SealedToken<V<B>, Public, RawS, Vec<u8>>);
    // ... and with a typed JSON footer: the footer must then be JSON for the token to parse (by design),
    // but an accepted text still re-serialises to itself, whatever the spelling of its footer
    tt!(out, B, "token.local+json-footer", format!("{v}.local."), false, None, true, SealedToken<V<B>, Local, Raw, paseto_json::Json<serde_json::Value>>);
    tt!(out, B, "token.public+json-footer", format!("{v}.public."), false, None, true, SealedToken<V<B>, Public, Raw, paseto_json::Json<serde_json::Value>>);
    tt!(out, B, "keytext.local", format!("{k}.local."), true, None, false, KeyText<V<B>, Local>);
    tt!(out, B, "keytext.public", format!("{k}.public."), true, None, false, KeyText<V<B>, Public>);
    tt!(out, B, "keytext.secret", format!("{k}.secret."), true, None, false, KeyText<V<B>, Secret>);
    tk!(out, B, "key.local", format!("{k}.local."), Local);
    tk!(out, B, "key.public", format!("{k}.public."), Public);
    tk!(out, B, "key.secret", format!("{k}.secret."), Secret);
    tk!(out, B, "key.pke-public", format!("{k}.public."), PkePublic);
    tk!(out, B, "key.pke-secret", format!("{k}.secret."), PkeSecret);
    tt!(out, B, "id.lid", format!("{k}.lid."), true, Some(33), false, KeyId<V<B>, Local>);
    tt!(out, B, "id.pid", format!("{k}.pid."), true, Some(33), false, KeyId<V<B>, Public>);
    tt!(out, B, "id.sid", format!("{k}.sid."), true, Some(33), false, KeyId<V<B>, Secret>);
    // the key-sealing (PKE) key kinds share the text headers of the signing kinds
    tt!(out, B, "id.pke-pid", format!("{k}.pid."), true, Some(33), false, KeyId<V<B>, PkePublic>);
    tt!(out, B, "id.pke-sid", format!("{k}.sid."), true, Some(33), false, KeyId<V<B>, PkeSecret>);
    tt!(out, B, "keytext.pke-public", format!("{k}.public."), true, None, false, KeyText<V<B>, PkePublic>);
    tt!(out, B, "keytext.pke-secret", format!("{k}.secret."), true, None, false, KeyText<V<B>, PkeSecret>);
    tt!(out, B, "pie.local", format!("{k}.local-wrap.pie."), true, None, false, PieWrappedKey<V<B>, Local>);
    tt!(out, B, "pie.secret", format!("{k}.secret-wrap.pie."), true, None, false, PieWrappedKey<V<B>, Secret>);
    tt!(out, B, "pw.local", format!("{k}.local-pw."), true, None, false, PasswordWrappedKey<V<B>, Local>);
    tt!(out, B, "pw.secret", format!("{k}.secret-pw."), true, None, false, PasswordWrappedKey<V<B>, Secret>);
    tt!(out, B, "seal", format!("{k}.seal."), true, None, false, SealedKey<V<B>>);
}

pub fn all_types() -> Vec<TextType> {
    let mut out = Vec::new();
    crate::for_backends!(B => types_for::<B>(&mut out));
    out
}

/// Semantically valid strings of every kind, produced by the library on back end B.
/// Returns (kind, string).  `kind` uses the names of `TextType::kind` ("key.*" strings are
/// listed under their keytext kind as well, the text form being the same).
pub fn valid_strings<B: Backend>(seed: &KeySeed) -> Vec<(&'static str, String)> {
    let mut out: Vec<(&'static str, String)> = Vec::new();
    let lk = local_key::<B>(seed);
    let sk = secret_key::<B>(seed);
    let pk = sk.public_key();
    let other = KeySeed::from_u64(crate::engine::hash_of(seed) ^ 0x0123);
    let wk = local_key::<B>(&other);
    let msg = crate::rng::det_bytes(crate::engine::hash_of(seed), 0x7e57, (seed.bytes[0] % 40) as usize);
    let footer = if seed.bytes[1] % 2 == 0 { Vec::new() } else { crate::rng::det_bytes(crate::engine::hash_of(seed), 0xf007, 1 + (seed.bytes[2] % 20) as usize) };
    let aad: &[u8] = if B::VER.has_assertion() && seed.bytes[3] % 2 == 0 { b"assert" } else { b"" };
    if let Ok(t) = UnsealedToken::<V<B>, Local, Raw>::new(Raw(msg.clone())).with_footer(footer.clone()).seal(&lk, aad) {
        out.push(("token.local", t.to_string()));
    }
    if let Ok(t) = UnsealedToken::<V<B>, Public, Raw>::new(Raw(msg.clone())).with_footer(footer.clone()).seal(&sk, aad) {
        out.push(("token.public", t.to_string()));
    }
    if let Ok(t) = UnsealedToken::<V<B>, Local, RawS>::new(RawS(msg.clone())).with_footer(footer.clone()).seal(&lk, aad) {
        out.push(("token.local+suffix", t.to_string()));
    }
    if let Ok(t) = UnsealedToken::<V<B>, Public, RawS>::new(RawS(msg.clone())).with_footer(footer.clone()).seal(&sk, aad) {
        out.push(("token.public+suffix", t.to_string()));
    }
    let lt = lk.expose_key().to_string();
    let st = sk.expose_key().to_string();
    let pt = pk.to_string();
    out.push(("key.local", lt.clone()));
    out.push(("key.secret", st.clone()));
    out.push(("key.public", pt.clone()));
    out.push(("id.lid", lk.id().to_string()));
    out.push(("id.sid", sk.id().to_string()));
    out.push(("id.pid", pk.id().to_string()));
    if let Ok(w) = lk.clone().wrap_pie(&wk) {
        out.push(("pie.local", w.to_string()));
    }
    if let Ok(w) = sk.clone().wrap_pie(&wk) {
        out.push(("pie.secret", w.to_string()));
    }
    let params = pw_params::<B>(&cheapest_params(B::VER));
    if let Ok(w) = lk.clone().password_wrap_with_params(b"correct horse", &params) {
        out.push(("pw.local", w.to_string()));
    }
    if let Ok(w) = sk.clone().password_wrap_with_params(b"correct horse", &params) {
        out.push(("pw.secret", w.to_string()));
    }
    let (_, ppk, psk_raw, ppk_raw) = pke_pair::<B>(seed);
    if let Ok(s) = lk.clone().seal(&ppk) {
        out.push(("seal", s.to_string()));
    }
    let (psk, _, _, _) = pke_pair::<B>(seed);
    out.push(("id.pke-pid", ppk.id().to_string()));
    out.push(("id.pke-sid", psk.id().to_string()));
    if B::VER == Ver::V1 {
        // v1 PKE keys are distinct (RSA-4096) keys with the same text headers
        out.push(("key.pke-secret", KeyText::<V<B>, PkeSecret>::from_raw_bytes(&psk_raw).to_string()));
        out.push(("key.pke-public", KeyText::<V<B>, PkePublic>::from_raw_bytes(&ppk_raw).to_string()));
    }
    out
}

/// Same text form: which source kinds a target kind must accept (same version assumed).
pub fn kind_compatible(source: &str, target: &str, ver: Ver) -> Option<bool> {
    let canon = |k: &str| -> &str {
        match k {
            "keytext.local" | "key.local" => "local",
            "keytext.public" | "key.public" | "key.pke-public" | "keytext.pke-public" => "public",
            "keytext.secret" | "key.secret" | "key.pke-secret" | "keytext.pke-secret" => "secret",
            "id.pke-pid" => "id.pid",
            "id.pke-sid" => "id.sid",
            o => o,
        }
        .to_string()
        .leak()
    };
    let (s, t) = (canon(source), canon(target));
    if s != t {
        return Some(false);
    }
    // same header.  Typed key parsers also validate the bytes:
    if ver == Ver::V1 {
        let pke_s = source.contains("pke");
        let pke_t = target.contains("pke");
        if target.starts_with("key.") && (s == "public" || s == "secret") && pke_s != pke_t {
            // RSA-2048 signing keys vs RSA-4096 sealing keys: the other size must be refused
            return Some(false);
        }
    }
    Some(true)
}
