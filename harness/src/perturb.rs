//! History dimension for every check: a fixed set of library operations that FAIL (rejected tokens,
//! wrong keys, malformed strings, failing encoders) on every back end, run on the current thread
//! before a share of the generated cases.  A property that holds "for every input" must hold
//! whatever was attempted on the thread before; state left behind by an error path (scratch
//! buffers, error queues, caches) shows up as a failure of the next, unrelated case.
//!
//! The failing inputs are built once per thread; a perturbation then costs well under a millisecond.

use std::cell::RefCell;

use paseto_core::paserk::{PasswordWrappedKey, PieWrappedKey, SealedKey};
use paseto_core::tokens::{SealedToken, UnsealedToken};
use paseto_core::validation::NoValidation;
use paseto_core::version::{Local, Public, Secret};

use crate::backends::*;

struct Prepared {
    backend: &'static str,
    run: Box<dyn Fn()>,
}

thread_local! {
    static PREPARED: RefCell<Option<Vec<Prepared>>> = const { RefCell::new(None) };
    static BUSY: RefCell<bool> = const { RefCell::new(false) };
}

fn prepare_for<B: Backend>(out: &mut Vec<Prepared>) {
    let ks = KeySeed::from_u64(0x9e70);
    let other = KeySeed::from_u64(0x9e71);
    let msg = vec![0xa5u8; 200];
    let sk = secret_key::<B>(&ks);
    let lk = local_key::<B>(&ks);
    let wrong_pk = secret_key::<B>(&other).public_key();
    let wrong_lk = local_key::<B>(&other);
    let signed = UnsealedToken::<V<B>, Public, Raw>::new(Raw(msg.clone())).with_footer(b"kid".to_vec()).seal(&sk, &[]).map(|t| t.to_string()).unwrap_or_default();
    let encrypted = UnsealedToken::<V<B>, Local, Raw>::new(Raw(msg.clone())).with_footer(b"kid".to_vec()).seal(&lk, &[]).map(|t| t.to_string()).unwrap_or_default();
    let pie = sk.clone().wrap_pie(&lk).map(|w| w.to_string()).unwrap_or_default();
    let pw = lk.clone().password_wrap_with_params(b"right", &pw_params::<B>(&cheapest_params(B::VER))).map(|w| w.to_string()).unwrap_or_default();
    let (pke_sk, pke_pk, _, _) = pke_pair::<B>(&ks);
    let sealed = lk.clone().seal(&pke_pk).map(|s| s.to_string()).unwrap_or_default();
    // corrupt the last-but-five character of the sealed key so that its tag fails
    let sealed_bad: String = {
        let mut v: Vec<char> = sealed.chars().collect();
        if v.len() > 8 {
            let i = v.len() - 6;
            v[i] = if v[i] == 'A' { 'B' } else { 'A' };
        }
        v.into_iter().collect()
    };
    let h = B::VER.v();
    // each failing operation is its own step: the steps run in rotating order so that every one of
    // them is, in turn, the LAST thing that happened before the case that follows
    let mut steps: Vec<Box<dyn Fn()>> = Vec::new();
    macro_rules! step {
        ($body:expr) => {
            steps.push(Box::new($body));
        };
    }
    {
        let (signed, wrong_pk) = (signed.clone(), wrong_pk.clone());
        step!(move || {
            let _ = signed.parse::<SealedToken<V<B>, Public, Raw, Vec<u8>>>().and_then(|t| t.unseal(&wrong_pk, &[], &NoValidation::dangerous_no_validation()));
        });
    }
    {
        let (encrypted, wrong_lk) = (encrypted.clone(), wrong_lk.clone());
        step!(move || {
            let _ = encrypted.parse::<SealedToken<V<B>, Local, Raw, Vec<u8>>>().and_then(|t| t.unseal(&wrong_lk, &[], &NoValidation::dangerous_no_validation()));
        });
    }
    {
        let (signed, pk, lk) = (signed.clone(), sk.public_key(), lk.clone());
        step!(move || {
            if B::VER.has_assertion() {
                let _ = signed.parse::<SealedToken<V<B>, Public, Raw, Vec<u8>>>().and_then(|t| t.unseal(&pk, b"other assertion", &NoValidation::dangerous_no_validation()));
            } else {
                // versions without implicit assertions refuse one when sealing
                let _ = UnsealedToken::<V<B>, Local, Raw>::new(Raw(b"x".to_vec())).seal(&lk, b"assertion");
            }
        });
    }
    {
        let (pie, wrong_lk) = (pie.clone(), wrong_lk.clone());
        step!(move || {
            let _ = pie.parse::<PieWrappedKey<V<B>, Secret>>().and_then(|w| w.unwrap(&wrong_lk));
        });
    }
    {
        let pw = pw.clone();
        step!(move || {
            let _ = pw.parse::<PasswordWrappedKey<V<B>, Local>>().and_then(|w| w.unwrap(b"wrong"));
        });
    }
    if B::VER != crate::refmodel::Ver::V1 {
        // (v1: an RSA-4096 private operation per perturbation would dominate every check)
        step!(move || {
            let _ = sealed_bad.parse::<SealedKey<V<B>>>().and_then(|s| s.unseal(&pke_sk));
        });
    }
    {
        let lk = lk.clone();
        step!(move || {
            let _ = format!("{h}.public.!!!!").parse::<SealedToken<V<B>, Public, Raw, Vec<u8>>>();
            let _ = format!("{h}.local.AAAA").parse::<SealedToken<V<B>, Local, Raw, Vec<u8>>>().and_then(|t| t.unseal(&lk, &[], &NoValidation::dangerous_no_validation()));
        });
    }
    {
        // malformed and well-formed-but-invalid key material of every kind
        let pk_raw = key_bytes(&sk.public_key());
        step!(move || {
            let _ = key_from_bytes::<V<B>, Secret>(&[0u8; 7]);
            let _ = key_from_bytes::<V<B>, Secret>(&vec![0xffu8; key_bytes_len_secret::<B>()]);
            let _ = key_from_bytes::<V<B>, Secret>(&vec![0u8; key_bytes_len_secret::<B>()]);
            // a public key of the right shape that is not a point: same length, body perturbed
            for d in 1u8..=6 {
                let mut bad = pk_raw.clone();
                let n = bad.len();
                if n > 4 && B::VER != crate::refmodel::Ver::V1 {
                    bad[n - 1] = bad[n - 1].wrapping_add(d);
                    bad[n / 2] ^= d;
                    let _ = key_from_bytes::<V<B>, Public>(&bad);
                }
            }
        });
    }
    let counter = std::cell::Cell::new(0usize);
    out.push(Prepared {
        backend: B::NAME,
        run: Box::new(move || {
            let n = steps.len();
            let start = counter.get() % n;
            counter.set(counter.get() + 1);
            for i in 0..n {
                (steps[(start + 1 + i) % n])();
            }
        }),
    });
}

fn key_bytes_len_secret<B: Backend>() -> usize {
    match B::VER {
        crate::refmodel::Ver::V3 => 48,
        crate::refmodel::Ver::V1 => 64,
        _ => 64,
    }
}

fn prepare_json(out: &mut Vec<Prepared>) {
    use paseto_core::encodings::{Footer, Payload};
    use paseto_json::{Json, RegisteredClaims};
    out.push(Prepared {
        backend: "json",
        run: Box::new(|| {
            let mut m = std::collections::BTreeMap::new();
            m.insert((1u8, 2u8), 3u8);
            let mut w = Vec::new();
            let _ = Footer::encode(&Json(m.clone()), &mut w);
            let mut w2 = Vec::new();
            let _ = Payload::encode(Json(m), &mut w2);
            let _ = <Json<serde_json::Value> as Payload>::decode(b"{\"a\":");
            let _ = RegisteredClaims::decode(b"{\"exp\":\"not a time\"}");
        }),
    });
}

/// Run the failing operations on this thread.  Re-entrancy safe (the preparation itself calls
/// library code) and independent of the per-case seeded RNG position only in what it *checks*:
/// it checks nothing, it only leaves whatever the error paths leave.
pub fn rejected_everywhere() {
    rejected(None)
}

/// The failing operations of one back end only (used where a check wants the failure to be the
/// operation immediately before the one it examines).
pub fn rejected_on(backend: &'static str) {
    rejected(Some(backend))
}

fn rejected(only: Option<&'static str>) {
    if BUSY.with(|b| std::mem::replace(&mut *b.borrow_mut(), true)) {
        return;
    }
    let _ = crate::util::catch(|| {
        PREPARED.with(|p| {
            if p.borrow().is_none() {
                let mut v = Vec::new();
                crate::for_backends!(B => prepare_for::<B>(&mut v));
                prepare_json(&mut v);
                *p.borrow_mut() = Some(v);
            }
            for x in p.borrow().as_ref().unwrap() {
                if only.map(|o| o == x.backend).unwrap_or(true) {
                    (x.run)();
                }
            }
        });
    });
    BUSY.with(|b| *b.borrow_mut() = false);
}

/// Build and run the history without swallowing panics; prints the back ends covered.
pub fn self_test() {
    let mut v = Vec::new();
    crate::for_backends!(B => prepare_for::<B>(&mut v));
    prepare_json(&mut v);
    for x in &v {
        (x.run)();
        println!("perturb: {} ok", x.backend);
    }
}
