//! Generators.  Byte strings are described by small specs (length, fill, seed) so cases stay
//! readable, shrink by length, and 1 MiB payloads do not bloat replay files.

use proptest::prelude::*;
use serde::{Deserialize, Serialize};

use crate::backends::KeySeed;
use crate::engine::Tier;

#[derive(Clone, Debug, Serialize, Deserialize, PartialEq, Eq, Hash)]
pub struct BytesSpec {
    pub len: u32,
    /// 0 random, 1 all-zero, 2 all-ones, 3 JSON object text, 4 ASCII dots and base64 chars
    pub fill: u8,
    pub seed: u32,
}

impl BytesSpec {
    pub fn empty() -> Self {
        BytesSpec { len: 0, fill: 1, seed: 0 }
    }
    pub fn bytes(&self) -> Vec<u8> {
        let n = self.len as usize;
        match self.fill {
            1 => vec![0u8; n],
            2 => vec![0xffu8; n],
            3 if n >= 11 => {
                // {"data":"aaaa"} padded to exactly n bytes
                let mut v = b"{\"data\":\"".to_vec();
                let body = crate::rng::det_bytes(self.seed as u64, 3, n - 11);
                v.extend(body.iter().map(|b| b"abcdefghijklmnopqrstuvwxyz0123456789 -_.:"[(*b % 41) as usize]));
                v.extend_from_slice(b"\"}");
                v
            }
            4 => crate::rng::det_bytes(self.seed as u64, 4, n)
                .iter()
                .map(|b| b".AZaz09-_=+/ \n"[(*b % 14) as usize])
                .collect(),
            _ => crate::rng::det_bytes(self.seed as u64, 0, n),
        }
    }
    pub fn is_empty(&self) -> bool {
        self.len == 0
    }
}

fn fill() -> impl Strategy<Value = u8> {
    prop_oneof![6 => Just(0u8), 1 => Just(1u8), 1 => Just(2u8), 2 => Just(3u8), 1 => Just(4u8)]
}

/// lengths at cipher/hash block boundaries
fn boundary_len(max: u32) -> impl Strategy<Value = u32> {
    (prop_oneof![Just(16u32), Just(64u32), Just(128u32)], 1u32..=64, 0u32..=4).prop_map(move |(b, k, d)| {
        let base = b * k;
        (base + d).saturating_sub(2).min(max)
    })
}

/// payload lengths: every small length, block boundaries up to 4 KiB, powers of two +-1 up to `max`
pub fn payload_len(max: u32) -> impl Strategy<Value = u32> {
    let pow = (5u32..=20, 0u32..=2).prop_map(move |(e, d)| ((1u32 << e) + d).saturating_sub(1).min(max));
    prop_oneof![
        10 => 0u32..=300,
        4 => boundary_len(4096.min(max)),
        1 => pow,
    ]
}

pub fn payload(tier: Tier) -> impl Strategy<Value = BytesSpec> {
    let max = tier.pick(64 * 1024, 1 << 20);
    (payload_len(max), fill(), any::<u32>()).prop_map(|(len, fill, seed)| BytesSpec { len, fill, seed })
}

pub fn small_payload() -> impl Strategy<Value = BytesSpec> {
    (0u32..=200, fill(), any::<u32>()).prop_map(|(len, fill, seed)| BytesSpec { len, fill, seed })
}

/// footers: empty half of the time, else short bytes (any content incl. '.' and non-UTF-8)
pub fn footer() -> impl Strategy<Value = BytesSpec> {
    prop_oneof![
        4 => Just(BytesSpec::empty()),
        5 => (1u32..=80, fill(), any::<u32>()).prop_map(|(len, fill, seed)| BytesSpec { len, fill, seed }),
        1 => (81u32..=1000, fill(), any::<u32>()).prop_map(|(len, fill, seed)| BytesSpec { len, fill, seed }),
        // long footers / assertions: around the powers of two up to 64 KiB (size limits live there)
        1 => ((10u32..=16, 0u32..=2).prop_map(|(e, d)| (1u32 << e) + d - 1), fill(), any::<u32>()).prop_map(|(len, fill, seed)| BytesSpec { len, fill, seed }),
    ]
}

/// non-empty byte string
pub fn nonempty(max: u32) -> impl Strategy<Value = BytesSpec> {
    (1u32..=max, fill(), any::<u32>()).prop_map(|(len, fill, seed)| BytesSpec { len, fill, seed })
}

pub fn assertion(supported: bool) -> BoxedStrategy<BytesSpec> {
    if supported { footer().boxed() } else { Just(BytesSpec::empty()).boxed() }
}

pub fn key_seed() -> impl Strategy<Value = KeySeed> {
    any::<u64>().prop_map(KeySeed::from_u64)
}

/// passwords: any bytes including empty
pub fn password() -> impl Strategy<Value = BytesSpec> {
    prop_oneof![
        1 => Just(BytesSpec::empty()),
        8 => (1u32..=64, fill(), any::<u32>()).prop_map(|(len, fill, seed)| BytesSpec { len, fill, seed }),
        1 => (65u32..=300, fill(), any::<u32>()).prop_map(|(len, fill, seed)| BytesSpec { len, fill, seed }),
        // lengths at the block / digest sizes of the MACs and KDFs that consume a password or key
        // (HMAC-SHA384 block 128 and digest 48, BLAKE2b key 64 / block 128, SHA-256/512 sizes)
        2 => (prop::sample::select(vec![31u32, 32, 33, 47, 48, 49, 63, 64, 65, 95, 96, 97, 111, 112, 127, 128, 129, 255, 256, 257, 1023, 1024, 1025, 4096, 65535, 65536, 65537]), fill(), any::<u32>()).prop_map(|(len, fill, seed)| BytesSpec { len, fill, seed }),
    ]
}

/// Map an index monotonically into 0..len (never `%`, so shrinking converges).
pub fn idx(i: u16, len: usize) -> usize {
    if len == 0 {
        return 0;
    }
    ((i as usize) * len) >> 16
}
