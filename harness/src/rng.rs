//! RNG-as-input: the getrandom 0.3 custom backend.
//!
//! Every `getrandom::fill` made by paseto-v1/v2/v3/v4 lands here.  Per thread the
//! source is one of: OS passthrough, a seeded deterministic stream, a scripted
//! list of draws (falling back to the seeded stream), or a failing source that
//! reports an error at the k-th draw after filling part of the buffer.

use std::cell::RefCell;

use sha2::{Digest, Sha512};

#[derive(Clone, Debug)]
pub struct Draw {
    pub len: usize,
    pub bytes: Vec<u8>,
    pub failed: bool,
}

#[derive(Clone, Debug)]
enum Mode {
    Passthrough,
    Seeded,
}

struct State {
    mode: Mode,
    seed: u64,
    counter: u64,
    /// scripted draws, consumed front to back; a scripted entry must match the requested length
    script: Vec<Vec<u8>>,
    script_pos: usize,
    /// fail the draw with this index (0-based, counted since `begin_op`), after filling `fill_num/2` of the buffer
    fail_at: Option<(usize, u8)>,
    /// which error the failing draw reports (see `error_of_kind`) and whether every later draw of the operation fails too
    fail_kind: u8,
    fail_persist: bool,
    /// fill the first draw of the operation (whatever its length) with this byte
    first_fill: Option<u8>,
    draws_in_op: usize,
    log: Option<Vec<Draw>>,
}

thread_local! {
    static STATE: RefCell<State> = const { RefCell::new(State {
        mode: Mode::Passthrough, seed: 0, counter: 0, script: Vec::new(), script_pos: 0,
        fail_at: None, fail_kind: 0, fail_persist: false, first_fill: None, draws_in_op: 0, log: None,
    }) };
}

pub fn set_passthrough() {
    STATE.with(|s| {
        let mut s = s.borrow_mut();
        s.mode = Mode::Passthrough;
        s.script.clear();
        s.script_pos = 0;
        s.fail_at = None;
        s.fail_kind = 0;
        s.fail_persist = false;
        s.log = None;
    });
}

pub fn set_seeded(seed: u64) {
    STATE.with(|s| {
        let mut s = s.borrow_mut();
        s.mode = Mode::Seeded;
        s.seed = seed;
        s.counter = 0;
        s.script.clear();
        s.script_pos = 0;
        s.fail_at = None;
        s.fail_kind = 0;
        s.fail_persist = false;
        s.log = None;
    });
}

/// Re-key the seeded stream for one case, so a case is a pure function of (seed, case id).
pub fn reseed_case(case_id: u64) {
    STATE.with(|s| {
        let mut s = s.borrow_mut();
        if let Mode::Seeded = s.mode {
            s.counter = case_id.wrapping_mul(0x1_0000_0000);
        }
    });
}

/// Supply the bytes of the next draws.  Cleared by `end_op`.
pub fn script(draws: Vec<Vec<u8>>) {
    STATE.with(|s| {
        let mut s = s.borrow_mut();
        s.script = draws;
        s.script_pos = 0;
    });
}

/// The first draw of the current operation returns `byte` repeated, whatever length is requested.
pub fn script_first_any_len(byte: u8) {
    STATE.with(|s| s.borrow_mut().first_fill = Some(byte));
}

/// Begin a logged operation: resets the per-operation draw index, starts logging.
pub fn begin_op() {
    STATE.with(|s| {
        let mut s = s.borrow_mut();
        s.draws_in_op = 0;
        s.log = Some(Vec::new());
    });
}

/// Fail draw number `k` of the current operation after filling `fill` halves (0,1,2) of the buffer.
pub fn fail_at(k: usize, fill: u8) {
    STATE.with(|s| s.borrow_mut().fail_at = Some((k, fill)));
}

/// As `fail_at`, choosing the error reported (`error_of_kind`) and whether the source stays broken
/// for the rest of the operation (every draw with index >= k fails).
pub fn fail_at_with(k: usize, fill: u8, kind: u8, persist: bool) {
    STATE.with(|s| {
        let mut s = s.borrow_mut();
        s.fail_at = Some((k, fill));
        s.fail_kind = kind;
        s.fail_persist = persist;
    });
}

pub const ERROR_KINDS: u8 = 5;

/// The errors a getrandom source can report: the crate's internal ones, a custom back end's, and
/// what the Linux back end returns when the system call fails (-errno).
pub fn error_of_kind(kind: u8) -> getrandom::Error {
    match kind % ERROR_KINDS {
        0 => getrandom::Error::UNEXPECTED,
        1 => getrandom::Error::new_custom(7),
        2 => os_error(5),  // EIO
        3 => os_error(11), // EAGAIN
        _ => getrandom::Error::UNSUPPORTED,
    }
}

/// getrandom keeps the constructor for OS errors private; `Error` is a one-field struct around a
/// non-zero i32 holding -errno.  Built by transmutation and verified through the public accessor;
/// if the representation ever changes this falls back to UNEXPECTED.
fn os_error(errno: i32) -> getrandom::Error {
    const _: () = assert!(std::mem::size_of::<getrandom::Error>() == std::mem::size_of::<i32>());
    let e: getrandom::Error = unsafe { std::mem::transmute::<i32, getrandom::Error>(-errno) };
    if e.raw_os_error() == Some(errno) { e } else { getrandom::Error::UNEXPECTED }
}

/// End the operation; returns the draw log and clears script and fault.
pub fn end_op() -> Vec<Draw> {
    STATE.with(|s| {
        let mut s = s.borrow_mut();
        s.script.clear();
        s.script_pos = 0;
        s.fail_at = None;
        s.fail_kind = 0;
        s.fail_persist = false;
        s.first_fill = None;
        s.log.take().unwrap_or_default()
    })
}

fn os_fill(dest: &mut [u8]) -> bool {
    let mut off = 0;
    while off < dest.len() {
        let r = unsafe { libc::getrandom(dest[off..].as_mut_ptr().cast(), dest.len() - off, 0) };
        if r <= 0 {
            return false;
        }
        off += r as usize;
    }
    true
}

fn stream_fill(seed: u64, counter: &mut u64, dest: &mut [u8]) {
    let mut off = 0;
    while off < dest.len() {
        let mut h = Sha512::new();
        h.update(b"pv-rng-stream");
        h.update(seed.to_le_bytes());
        h.update(counter.to_le_bytes());
        *counter = counter.wrapping_add(1);
        let block = h.finalize();
        let n = (dest.len() - off).min(64);
        dest[off..off + n].copy_from_slice(&block[..n]);
        off += n;
    }
}

/// Deterministic bytes for harness use (not through getrandom).
pub fn det_bytes(seed: u64, tag: u64, n: usize) -> Vec<u8> {
    let mut v = vec![0u8; n];
    let mut c = tag.wrapping_mul(0x9e3779b97f4a7c15);
    stream_fill(seed, &mut c, &mut v);
    v
}

#[unsafe(no_mangle)]
unsafe extern "Rust" fn __getrandom_v03_custom(dest: *mut u8, len: usize) -> Result<(), getrandom::Error> {
    let buf = unsafe { std::slice::from_raw_parts_mut(dest, len) };
    STATE.with(|s| {
        // try_borrow: a draw made while we hold the state (never happens by construction)
        let Ok(mut s) = s.try_borrow_mut() else {
            return if os_fill(buf) { Ok(()) } else { Err(getrandom::Error::UNEXPECTED) };
        };
        let idx = s.draws_in_op;
        s.draws_in_op += 1;

        // 1. produce the bytes the draw would have had
        let mut scripted = false;
        if idx == 0 {
            if let Some(b) = s.first_fill {
                buf.fill(b);
                scripted = true;
            }
        }
        if s.script_pos < s.script.len() && s.script[s.script_pos].len() == len {
            let pos = s.script_pos;
            buf.copy_from_slice(&s.script[pos]);
            s.script_pos += 1;
            scripted = true;
        }
        if !scripted {
            match s.mode {
                Mode::Passthrough => {
                    if !os_fill(buf) {
                        return Err(getrandom::Error::UNEXPECTED);
                    }
                }
                Mode::Seeded => {
                    let seed = s.seed;
                    let mut c = s.counter;
                    stream_fill(seed, &mut c, buf);
                    s.counter = c;
                }
            }
        }

        // 2. injected failure
        if let Some((k, fill)) = s.fail_at {
            if k == idx || (s.fail_persist && idx > k) {
                let keep = match fill {
                    0 => 0,
                    1 => len / 2,
                    _ => len,
                };
                // bytes beyond `keep` stay as the caller initialised them
                // (we restore zero there: callers pass zero-initialised buffers; keeping
                // our bytes would hide "partially filled" misuse)
                for b in &mut buf[keep..] {
                    *b = 0;
                }
                if let Some(log) = s.log.as_mut() {
                    log.push(Draw { len, bytes: buf.to_vec(), failed: true });
                }
                return Err(error_of_kind(s.fail_kind));
            }
        }
        if let Some(log) = s.log.as_mut() {
            log.push(Draw { len, bytes: buf.to_vec(), failed: false });
        }
        Ok(())
    })
}
