//! Committed pool of RSA keys (PKCS#1 DER, hex).  RSA-4096 generation costs seconds, so quick
//! tiers draw v1 keys from this pool; `pv genkeys` regenerates it.

use std::sync::OnceLock;

struct Pool {
    rsa2048: Vec<Vec<u8>>,
    rsa4096: Vec<Vec<u8>>,
}

fn pool() -> &'static Pool {
    static P: OnceLock<Pool> = OnceLock::new();
    P.get_or_init(|| {
        let v: serde_json::Value = serde_json::from_str(include_str!("../data/rsa_pool.json")).expect("pool json");
        let get = |k: &str| -> Vec<Vec<u8>> {
            v[k].as_array()
                .map(|a| a.iter().map(|x| hex::decode(x.as_str().unwrap()).unwrap()).collect())
                .unwrap_or_default()
        };
        Pool { rsa2048: get("rsa2048"), rsa4096: get("rsa4096") }
    })
}

pub fn rsa2048(i: usize) -> Vec<u8> {
    let p = pool();
    p.rsa2048[i % p.rsa2048.len()].clone()
}
pub fn rsa4096(i: usize) -> Vec<u8> {
    let p = pool();
    p.rsa4096[i % p.rsa4096.len()].clone()
}
pub fn n2048() -> usize {
    pool().rsa2048.len()
}
pub fn n4096() -> usize {
    pool().rsa4096.len()
}

/// Generate a fresh pool (OS randomness; run once, result committed).
pub fn generate(n2048: usize, n4096: usize) -> String {
    use rsa::pkcs1::EncodeRsaPrivateKey;
    let mut rng = rsa::rand_core::OsRng;
    let mut a = Vec::new();
    let mut b = Vec::new();
    for _ in 0..n2048 {
        let k = rsa::RsaPrivateKey::new(&mut rng, 2048).unwrap();
        a.push(hex::encode(k.to_pkcs1_der().unwrap().as_bytes()));
    }
    for _ in 0..n4096 {
        let k = rsa::RsaPrivateKey::new(&mut rng, 4096).unwrap();
        b.push(hex::encode(k.to_pkcs1_der().unwrap().as_bytes()));
    }
    serde_json::to_string_pretty(&serde_json::json!({"rsa2048": a, "rsa4096": b})).unwrap()
}
