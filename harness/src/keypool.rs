//! Committed pool of RSA keys (PKCS#1 DER, hex).  RSA-4096 generation costs seconds, so quick
//! tiers draw v1 keys from this pool; `pv genkeys` regenerates it.

use std::sync::OnceLock;

struct Pool {
    rsa2048: Vec<Vec<u8>>,
    rsa4096: Vec<Vec<u8>>,
    /// keys whose modulus size is NOT one the formats allow: (bits, PKCS#1 DER)
    odd: Vec<(usize, Vec<u8>)>,
}

fn pool() -> &'static Pool {
    static P: OnceLock<Pool> = OnceLock::new();
    P.get_or_init(|| {
        let v: serde_json::Value = serde_json::from_str(include_str!("../data/rsa_pool.json")).expect("pool json");
        let get = |k: &str| -> Vec<Vec<u8>> {
            v[k].as_array()
                .map(|a| a.iter().map(|x| hex::decode(x.as_str().unwrap()).unwrap()).collect())
                .unwrap_or_default()
        };
        let odd = v["odd"]
            .as_array()
            .map(|a| a.iter().map(|x| (x["bits"].as_u64().unwrap() as usize, hex::decode(x["der"].as_str().unwrap()).unwrap())).collect())
            .unwrap_or_default();
        Pool { rsa2048: get("rsa2048"), rsa4096: get("rsa4096"), odd }
    })
}

pub fn rsa2048(i: usize) -> Vec<u8> {
    let p = pool();
    p.rsa2048[i % p.rsa2048.len()].clone()
}
pub fn rsa4096(i: usize) -> Vec<u8> {
    let p = pool();
    p.rsa4096[i % p.rsa4096.len()].clone()
}
/// RSA keys of wrong modulus sizes (2047, 2049, 2040, 2056, 1024, 3072, 4095, 4088 bits)
pub fn odd_sizes() -> Vec<(usize, Vec<u8>)> {
    pool().odd.clone()
}
pub fn n2048() -> usize {
    pool().rsa2048.len()
}
pub fn n4096() -> usize {
    pool().rsa4096.len()
}

/// Generate a fresh pool (OS randomness; run once, result committed).
pub fn generate(n2048: usize, n4096: usize) -> String {
    use rsa::pkcs1::EncodeRsaPrivateKey;
    let mut rng = rsa::rand_core::OsRng;
    let mut a = Vec::new();
    let mut b = Vec::new();
    for _ in 0..n2048 {
        let k = rsa::RsaPrivateKey::new(&mut rng, 2048).unwrap();
        a.push(hex::encode(k.to_pkcs1_der().unwrap().as_bytes()));
    }
    for _ in 0..n4096 {
        let k = rsa::RsaPrivateKey::new(&mut rng, 4096).unwrap();
        b.push(hex::encode(k.to_pkcs1_der().unwrap().as_bytes()));
    }
    let mut odd = Vec::new();
    for bits in [2047usize, 2047, 2049, 2040, 2056, 1024, 3072, 4095, 4088] {
        let k = rsa::RsaPrivateKey::new(&mut rng, bits).unwrap();
        odd.push(serde_json::json!({"bits": bits, "der": hex::encode(k.to_pkcs1_der().unwrap().as_bytes())}));
    }
    serde_json::to_string_pretty(&serde_json::json!({"rsa2048": a, "rsa4096": b, "odd": odd})).unwrap()
}

/// Add the odd-size keys to an existing pool file (keeps the 2048/4096 keys).
pub fn add_odd(existing: &str) -> String {
    use rsa::pkcs1::EncodeRsaPrivateKey;
    use rsa::traits::PublicKeyParts;
    let mut v: serde_json::Value = serde_json::from_str(existing).unwrap();
    let mut rng = rsa::rand_core::OsRng;
    let mut odd = Vec::new();
    for bits in [2047usize, 2047, 2049, 2040, 2056, 1024, 3072, 4095, 4088] {
        let k = rsa::RsaPrivateKey::new(&mut rng, bits).unwrap();
        assert_eq!(k.n().bits(), bits);
        odd.push(serde_json::json!({"bits": bits, "der": hex::encode(k.to_pkcs1_der().unwrap().as_bytes())}));
    }
    v["odd"] = serde_json::Value::Array(odd);
    serde_json::to_string_pretty(&v).unwrap()
}

/// Append valid keys with public exponents other than 65537 (3, 17, 257) to both pools:
/// "any honestly generated key" is not only F4 keys.
pub fn add_exponents(existing: &str) -> String {
    use rsa::pkcs1::EncodeRsaPrivateKey;
    use rsa::traits::PublicKeyParts;
    let mut v: serde_json::Value = serde_json::from_str(existing).unwrap();
    let mut rng = rsa::rand_core::OsRng;
    for (name, bits) in [("rsa2048", 2048usize), ("rsa4096", 4096)] {
        for e in [3u32, 17, 257] {
            let k = rsa::RsaPrivateKey::new_with_exp(&mut rng, bits, &rsa::BigUint::from(e)).unwrap();
            assert_eq!(k.n().bits(), bits);
            v[name].as_array_mut().unwrap().push(serde_json::Value::String(hex::encode(k.to_pkcs1_der().unwrap().as_bytes())));
        }
    }
    serde_json::to_string_pretty(&v).unwrap()
}
