//! Committed pool of RSA keys (PKCS#1 DER, hex).  RSA-4096 generation costs seconds, so quick
//! tiers draw v1 keys from this pool; `pv genkeys` regenerates it.

use std::sync::OnceLock;

struct Pool {
    rsa2048: Vec<Vec<u8>>,
    rsa4096: Vec<Vec<u8>>,
    /// keys whose modulus size is NOT one the formats allow: (bits, PKCS#1 DER)
    odd: Vec<(usize, Vec<u8>)>,
}

fn pool() -> &'static Pool {
    static P: OnceLock<Pool> = OnceLock::new();
    P.get_or_init(|| {
        let v: serde_json::Value = serde_json::from_str(include_str!("../data/rsa_pool.json")).expect("pool json");
        let get = |k: &str| -> Vec<Vec<u8>> {
            v[k].as_array()
                .map(|a| a.iter().map(|x| hex::decode(x.as_str().unwrap()).unwrap()).collect())
                .unwrap_or_default()
        };
        let odd = v["odd"]
            .as_array()
            .map(|a| a.iter().map(|x| (x["bits"].as_u64().unwrap() as usize, hex::decode(x["der"].as_str().unwrap()).unwrap())).collect())
            .unwrap_or_default();
        Pool { rsa2048: get("rsa2048"), rsa4096: get("rsa4096"), odd }
    })
}

pub fn rsa2048(i: usize) -> Vec<u8> {
    let p = pool();
    p.rsa2048[i % p.rsa2048.len()].clone()
}
pub fn rsa4096(i: usize) -> Vec<u8> {
    let p = pool();
    p.rsa4096[i % p.rsa4096.len()].clone()
}
/// RSA keys of wrong modulus sizes (2047, 2049, 2040, 2056, 1024, 3072, 4095, 4088 bits)
pub fn odd_sizes() -> Vec<(usize, Vec<u8>)> {
    pool().odd.clone()
}
pub fn n2048() -> usize {
    pool().rsa2048.len()
}
pub fn n4096() -> usize {
    pool().rsa4096.len()
}

/// Generate a fresh pool (OS randomness; run once, result committed).
pub fn generate(n2048: usize, n4096: usize) -> String {
    use rsa::pkcs1::EncodeRsaPrivateKey;
    let mut rng = rsa::rand_core::OsRng;
    let mut a = Vec::new();
    let mut b = Vec::new();
    for _ in 0..n2048 {
        let k = rsa::RsaPrivateKey::new(&mut rng, 2048).unwrap();
        a.push(hex::encode(k.to_pkcs1_der().unwrap().as_bytes()));
    }
    for _ in 0..n4096 {
        let k = rsa::RsaPrivateKey::new(&mut rng, 4096).unwrap();
        b.push(hex::encode(k.to_pkcs1_der().unwrap().as_bytes()));
    }
    let mut odd = Vec::new();
    for bits in [2047usize, 2047, 2049, 2040, 2056, 1024, 3072, 4095, 4088] {
        let k = rsa::RsaPrivateKey::new(&mut rng, bits).unwrap();
        odd.push(serde_json::json!({"bits": bits, "der": hex::encode(k.to_pkcs1_der().unwrap().as_bytes())}));
    }
    serde_json::to_string_pretty(&serde_json::json!({"rsa2048": a, "rsa4096": b, "odd": odd})).unwrap()
}

/// Add the odd-size keys to an existing pool file (keeps the 2048/4096 keys).
pub fn add_odd(existing: &str) -> String {
    use rsa::pkcs1::EncodeRsaPrivateKey;
    use rsa::traits::PublicKeyParts;
    let mut v: serde_json::Value = serde_json::from_str(existing).unwrap();
    let mut rng = rsa::rand_core::OsRng;
    let mut odd = Vec::new();
    for bits in [2047usize, 2047, 2049, 2040, 2056, 1024, 3072, 4095, 4088] {
        let k = rsa::RsaPrivateKey::new(&mut rng, bits).unwrap();
        assert_eq!(k.n().bits(), bits);
        odd.push(serde_json::json!({"bits": bits, "der": hex::encode(k.to_pkcs1_der().unwrap().as_bytes())}));
    }
    v["odd"] = serde_json::Value::Array(odd);
    serde_json::to_string_pretty(&v).unwrap()
}

/// Append valid keys with public exponents other than 65537 (3, 17, 257) to both pools:
/// "any honestly generated key" is not only F4 keys.
pub fn add_exponents(existing: &str) -> String {
    use rsa::pkcs1::EncodeRsaPrivateKey;
    use rsa::traits::PublicKeyParts;
    let mut v: serde_json::Value = serde_json::from_str(existing).unwrap();
    let mut rng = rsa::rand_core::OsRng;
    for (name, bits) in [("rsa2048", 2048usize), ("rsa4096", 4096)] {
        for e in [3u32, 17, 257] {
            let k = rsa::RsaPrivateKey::new_with_exp(&mut rng, bits, &rsa::BigUint::from(e)).unwrap();
            assert_eq!(k.n().bits(), bits);
            v[name].as_array_mut().unwrap().push(serde_json::Value::String(hex::encode(k.to_pkcs1_der().unwrap().as_bytes())));
        }
    }
    serde_json::to_string_pretty(&v).unwrap()
}

/// Append honestly shaped keys whose PRIMES have particular low / high bytes (a prime that is 1
/// modulo 256, 255 modulo 256, or starts with 0xff): one key in 64 that an honest generator
/// produces has such a prime; the pool holds some on purpose.
pub fn add_prime_shapes(existing: &str) -> String {
    use num_bigint_dig::prime::probably_prime;
    use rsa::BigUint;
    use rsa::pkcs1::EncodeRsaPrivateKey;
    use rsa::traits::PublicKeyParts;
    let mut v: serde_json::Value = serde_json::from_str(existing).unwrap();
    let prime = |bits: usize, low: Option<u8>, high_ff: bool, tag: u64| -> BigUint {
        let mut bytes = crate::rng::det_bytes(0x5eed_0000 + bits as u64, tag, bits / 8);
        let mut os = vec![0u8; bits / 8];
        let _ = unsafe { libc::getrandom(os.as_mut_ptr().cast(), os.len(), 0) };
        for (a, b) in bytes.iter_mut().zip(os) {
            *a ^= b;
        }
        bytes[0] |= 0xc0;
        if high_ff {
            bytes[0] = 0xff;
        }
        let n = bytes.len();
        bytes[n - 1] = low.unwrap_or(bytes[n - 1] | 1);
        let mut c = BigUint::from_bytes_be(&bytes);
        let step = BigUint::from(if low.is_some() { 256u32 } else { 2 });
        let e = BigUint::from(65537u32);
        let one = BigUint::from(1u8);
        loop {
            if probably_prime(&c, 20) && gcd(&(&c - &one), &e) == one {
                return c;
            }
            c += &step;
        }
    };
    for (name, bits) in [("rsa2048", 2048usize), ("rsa4096", 4096)] {
        for (i, (pl, ql, ph)) in [(Some(0x01u8), None, false), (None, Some(0x01u8), false), (Some(0xff), Some(0x01), false), (Some(0x01), Some(0x01), true)].into_iter().enumerate() {
            let k = loop {
                let p = prime(bits / 2, pl, ph, i as u64 * 2);
                let q = prime(bits / 2, ql, false, i as u64 * 2 + 1);
                if p == q {
                    continue;
                }
                let n = &p * &q;
                if n.bits() != bits {
                    continue;
                }
                let e = BigUint::from(65537u32);
                let one = BigUint::from(1u8);
                let Some(d) = mod_inverse(&e, &lcm(&(&p - &one), &(&q - &one))) else { continue };
                let Ok(k) = rsa::RsaPrivateKey::from_components(n, e, d, vec![p, q]) else { continue };
                if k.validate().is_ok() {
                    break k;
                }
            };
            assert_eq!(k.n().bits(), bits);
            v[name].as_array_mut().unwrap().push(serde_json::Value::String(hex::encode(k.to_pkcs1_der().unwrap().as_bytes())));
        }
    }
    serde_json::to_string_pretty(&v).unwrap()
}

// ---------------------------------------------------------------------------
// structurally odd RSA private keys: well-formed PKCS#1 DER whose numbers are not what an
// honest generator produces.  Whether a decoder accepts them is its business; what it must not
// do is panic, now or later when the accepted key is displayed, identified or used.

fn der_len(n: usize, out: &mut Vec<u8>) {
    if n < 128 {
        out.push(n as u8);
    } else {
        let b = n.to_be_bytes();
        let skip = b.iter().take_while(|x| **x == 0).count();
        out.push(0x80 | (b.len() - skip) as u8);
        out.extend_from_slice(&b[skip..]);
    }
}

fn der_uint(v: &rsa::BigUint, out: &mut Vec<u8>) {
    let mut b = v.to_bytes_be();
    if b.is_empty() {
        b.push(0);
    }
    if b[0] & 0x80 != 0 {
        b.insert(0, 0);
    }
    out.push(0x02);
    der_len(b.len(), out);
    out.extend_from_slice(&b);
}

/// PrivateKeyInfo ::= SEQUENCE { version 0, AlgorithmIdentifier { rsaEncryption, NULL }, OCTET STRING { RSAPrivateKey } }
pub fn pkcs8_wrap(pkcs1_der: &[u8]) -> Vec<u8> {
    let mut body = vec![0x02, 0x01, 0x00];
    body.extend_from_slice(&[0x30, 0x0d, 0x06, 0x09, 0x2a, 0x86, 0x48, 0x86, 0xf7, 0x0d, 0x01, 0x01, 0x01, 0x05, 0x00]);
    body.push(0x04);
    der_len(pkcs1_der.len(), &mut body);
    body.extend_from_slice(pkcs1_der);
    let mut out = vec![0x30];
    der_len(body.len(), &mut out);
    out.extend_from_slice(&body);
    out
}

/// RSAPrivateKey ::= SEQUENCE { version 0, n, e, d, p, q, dP, dQ, qInv }
pub fn pkcs1_private_der(n: &rsa::BigUint, e: &rsa::BigUint, d: &rsa::BigUint, p: &rsa::BigUint, q: &rsa::BigUint, dp: &rsa::BigUint, dq: &rsa::BigUint, qinv: &rsa::BigUint) -> Vec<u8> {
    let mut body = Vec::new();
    der_uint(&rsa::BigUint::from(0u8), &mut body);
    for v in [n, e, d, p, q, dp, dq, qinv] {
        der_uint(v, &mut body);
    }
    let mut out = vec![0x30];
    der_len(body.len(), &mut out);
    out.extend_from_slice(&body);
    out
}

/// (shape name, PKCS#1 DER) derived from pool key `i` of the given modulus size (2048 / 4096)
pub fn odd_private_keys(bits: usize, i: usize) -> Vec<(String, Vec<u8>)> {
    use rsa::pkcs1::DecodeRsaPrivateKey;
    use rsa::traits::{PrivateKeyParts, PublicKeyParts};
    use rsa::BigUint;
    let der = if bits == 2048 { rsa2048(i) } else { rsa4096(i) };
    let Ok(k) = rsa::RsaPrivateKey::from_pkcs1_der(&der) else { return Vec::new() };
    let (n, e, d) = (k.n().clone(), k.e().clone(), k.d().clone());
    let (p, q) = (k.primes()[0].clone(), k.primes()[1].clone());
    let one = BigUint::from(1u8);
    let zero = BigUint::from(0u8);
    let three = BigUint::from(3u8);
    let dp = &d % (&p - &one);
    let dq = &d % (&q - &one);
    // modular inverse by Fermat is not available for composite moduli: use the pool key's own qInv
    let qinv = k.crt_coefficient().unwrap_or_else(|| one.clone());
    let mut out: Vec<(String, Vec<u8>)> = Vec::new();
    let mut add = |name: &str, n: &BigUint, e: &BigUint, d: &BigUint, p: &BigUint, q: &BigUint| {
        let dp = if p > &one { d % (p - &one) } else { zero.clone() };
        let dq = if q > &one { d % (q - &one) } else { zero.clone() };
        out.push((format!("rsa-odd#{name}"), pkcs1_private_der(n, e, d, p, q, &dp, &dq, &qinv)));
    };
    let _ = (&dp, &dq);
    // a "prime" equal to 1 (n = 1 * q)
    add("prime1-is-one", &q_times(&one, &n), &e, &d, &one, &n);
    add("prime2-is-one", &n, &e, &d, &n, &one);
    add("prime-is-zero", &n, &e, &d, &zero, &q);
    // both "primes" equal (n = p^2, padded to the right size by using p of the other half)
    add("primes-equal", &(&p * &p), &e, &d, &p, &p);
    // composite "primes" sharing a factor: p' = 3a, q' = 3b with n' = p' q' of the original size
    {
        let a = &p / &three;
        let b = &q / &three;
        let p2 = &a * &three;
        let q2 = &b * &three;
        let n2 = &p2 * &q2;
        // d with d*e = 1 mod lcm(p2-1, q2-1) when it exists
        let l = lcm(&(&p2 - &one), &(&q2 - &one));
        if let Some(d2) = mod_inverse(&e, &l) {
            add("primes-share-a-factor", &n2, &e, &d2, &p2, &q2);
        }
        add("primes-share-a-factor-d-unrelated", &n2, &e, &d, &p2, &q2);
    }
    // primes that do not multiply to n; exponents at the edges
    add("primes-do-not-multiply-to-n", &n, &e, &d, &p, &(&q + BigUint::from(2u8)));
    add("d-is-zero", &n, &e, &zero, &p, &q);
    add("d-is-one", &n, &e, &one, &p, &q);
    add("e-is-zero", &n, &zero, &d, &p, &q);
    add("e-is-one", &n, &one, &d, &p, &q);
    add("e-is-even", &n, &BigUint::from(65536u32), &d, &p, &q);
    add("e-is-huge", &n, &(&n - &one), &d, &p, &q);
    add("n-is-even", &(&n + &one), &e, &d, &p, &q);
    add("n-is-zero", &zero, &e, &d, &p, &q);
    add("primes-swapped", &n, &e, &d, &q, &p);
    out
}

fn q_times(a: &rsa::BigUint, b: &rsa::BigUint) -> rsa::BigUint {
    a * b
}

fn gcd(a: &rsa::BigUint, b: &rsa::BigUint) -> rsa::BigUint {
    let (mut a, mut b) = (a.clone(), b.clone());
    let zero = rsa::BigUint::from(0u8);
    while b != zero {
        let t = &a % &b;
        a = b;
        b = t;
    }
    a
}

fn lcm(a: &rsa::BigUint, b: &rsa::BigUint) -> rsa::BigUint {
    a / gcd(a, b) * b
}

/// extended Euclid on non-negative big integers (signed bookkeeping by hand)
fn mod_inverse(a: &rsa::BigUint, m: &rsa::BigUint) -> Option<rsa::BigUint> {
    use rsa::BigUint;
    let zero = BigUint::from(0u8);
    let one = BigUint::from(1u8);
    if gcd(a, m) != one {
        return None;
    }
    // (old_r, r), (old_s, s) with signs
    let (mut old_r, mut r) = (a % m, m.clone());
    let (mut old_s, mut s) = ((one.clone(), false), (zero.clone(), false)); // (magnitude, negative)
    while r != zero {
        let qt = &old_r / &r;
        let nr = &old_r - &qt * &r;
        old_r = std::mem::replace(&mut r, nr);
        // ns = old_s - qt * s
        let prod = (&qt * &s.0, s.1);
        let ns = match (old_s.1, prod.1) {
            (false, true) => (&old_s.0 + &prod.0, false),
            (true, false) => (&old_s.0 + &prod.0, true),
            (neg, _) => {
                if old_s.0 >= prod.0 { (&old_s.0 - &prod.0, neg) } else { (&prod.0 - &old_s.0, !neg) }
            }
        };
        old_s = std::mem::replace(&mut s, ns);
    }
    let inv = if old_s.1 { m - (&old_s.0 % m) } else { &old_s.0 % m };
    Some(inv % m)
}

/// SubjectPublicKeyInfo for an RSA key with arbitrary (n, e)
pub fn spki_der(n: &rsa::BigUint, e: &rsa::BigUint) -> Vec<u8> {
    let mut rsapub = Vec::new();
    der_uint(n, &mut rsapub);
    der_uint(e, &mut rsapub);
    let mut seq = vec![0x30];
    der_len(rsapub.len(), &mut seq);
    seq.extend_from_slice(&rsapub);
    let mut bits = vec![0x03];
    der_len(seq.len() + 1, &mut bits);
    bits.push(0);
    bits.extend_from_slice(&seq);
    // AlgorithmIdentifier { rsaEncryption, NULL }
    let alg: [u8; 15] = [0x30, 0x0d, 0x06, 0x09, 0x2a, 0x86, 0x48, 0x86, 0xf7, 0x0d, 0x01, 0x01, 0x01, 0x05, 0x00];
    let mut body = alg.to_vec();
    body.extend_from_slice(&bits);
    let mut out = vec![0x30];
    der_len(body.len(), &mut out);
    out.extend_from_slice(&body);
    out
}

/// structurally odd RSA public keys derived from pool key `i`
pub fn odd_public_keys(bits: usize, i: usize) -> Vec<(String, Vec<u8>)> {
    use rsa::pkcs1::DecodeRsaPrivateKey;
    use rsa::traits::PublicKeyParts;
    use rsa::BigUint;
    let der = if bits == 2048 { rsa2048(i) } else { rsa4096(i) };
    let Ok(k) = rsa::RsaPrivateKey::from_pkcs1_der(&der) else { return Vec::new() };
    let n = k.n().clone();
    let one = BigUint::from(1u8);
    let mut out = Vec::new();
    for (name, nn, ee) in [
        ("e-is-zero", n.clone(), BigUint::from(0u8)),
        ("e-is-one", n.clone(), one.clone()),
        ("e-is-two", n.clone(), BigUint::from(2u8)),
        ("e-is-even", n.clone(), BigUint::from(65536u32)),
        ("e-is-2^33+1", n.clone(), (BigUint::from(1u8) << 33) + &one),
        ("e-is-n-1", n.clone(), &n - &one),
        ("e-is-larger-than-n", n.clone(), &n + BigUint::from(2u8)),
        ("n-is-even", &n + &one, BigUint::from(65537u32)),
        ("n-is-zero", BigUint::from(0u8), BigUint::from(65537u32)),
        ("n-is-one", one.clone(), BigUint::from(65537u32)),
        ("n-is-a-power-of-two", BigUint::from(1u8) << (bits - 1), BigUint::from(65537u32)),
        ("n-is-all-ones", (BigUint::from(1u8) << bits) - &one, BigUint::from(65537u32)),
    ] {
        out.push((format!("rsa-odd-public#{name}"), spki_der(&nn, &ee)));
    }
    out
}
