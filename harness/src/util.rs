//! Small helpers: panic capture, hex, and the model's own strict base64url codec.

use std::any::Any;
use std::cell::RefCell;

pub fn panic_message(p: &Box<dyn Any + Send>) -> String {
    if let Some(s) = p.downcast_ref::<&str>() {
        s.to_string()
    } else if let Some(s) = p.downcast_ref::<String>() {
        s.clone()
    } else {
        "<non-string panic payload>".to_string()
    }
}

thread_local! {
    static LAST_PANIC_LOC: RefCell<Option<String>> = const { RefCell::new(None) };
}

/// Install a panic hook that records the location of the panic per thread and stays quiet.
pub fn install_quiet_panic_hook() {
    std::panic::set_hook(Box::new(|info| {
        let loc = info
            .location()
            .map(|l| format!("{}:{}", l.file(), l.line()))
            .unwrap_or_else(|| "<unknown>".into());
        let msg = if let Some(s) = info.payload().downcast_ref::<&str>() {
            s.to_string()
        } else if let Some(s) = info.payload().downcast_ref::<String>() {
            s.clone()
        } else {
            String::new()
        };
        LAST_PANIC_LOC.with(|l| *l.borrow_mut() = Some(format!("{loc}: {msg}")));
        if std::env::var_os("PV_SHOW_PANICS").is_some() {
            eprintln!("panic at {loc}: {msg}");
        }
    }));
}

/// location and message of the most recent panic on this thread (cleared by `catch`)
pub fn last_panic_loc() -> Option<String> {
    LAST_PANIC_LOC.with(|l| l.borrow().clone())
}

/// Run `f`, turning a panic into Err(location: message).
pub fn catch<T>(f: impl FnOnce() -> T) -> Result<T, String> {
    LAST_PANIC_LOC.with(|l| *l.borrow_mut() = None);
    match std::panic::catch_unwind(std::panic::AssertUnwindSafe(f)) {
        Ok(v) => Ok(v),
        Err(p) => {
            let loc = LAST_PANIC_LOC.with(|l| l.borrow_mut().take());
            Err(loc.unwrap_or_else(|| panic_message(&p)))
        }
    }
}

/// Strip the absolute prefix from a panic location so signatures are stable.
pub fn panic_site(loc: &str) -> String {
    // "/repo/paseto-v3-aws-lc/src/lc/mod.rs:341: compressed point ..." -> "paseto-v3-aws-lc/src/lc/mod.rs:341"
    let first = loc.split(": ").next().unwrap_or(loc);
    let s = first.trim_start_matches("/repo/");
    if let Some(i) = s.find("/registry/src/") {
        let rest = &s[i + "/registry/src/".len()..];
        return rest.splitn(2, '/').nth(1).unwrap_or(rest).to_string();
    }
    s.to_string()
}

pub fn hx(b: &[u8]) -> String {
    if b.len() <= 48 {
        hex::encode(b)
    } else {
        format!("{}..({} bytes)", hex::encode(&b[..24]), b.len())
    }
}

pub mod hexser {
    use serde::{Deserialize, Deserializer, Serializer};
    pub fn serialize<S: Serializer>(v: &Vec<u8>, s: S) -> Result<S::Ok, S::Error> {
        s.serialize_str(&hex::encode(v))
    }
    pub fn deserialize<'de, D: Deserializer<'de>>(d: D) -> Result<Vec<u8>, D::Error> {
        let s = String::deserialize(d)?;
        hex::decode(s).map_err(serde::de::Error::custom)
    }
}

// ---------------------------------------------------------------------------
// The model's base64url (RFC 4648 §5, no padding), table driven and strict.
// Shares no code with paseto-core's constant-time codec.

const ALPHABET: &[u8; 64] = b"ABCDEFGHIJKLMNOPQRSTUVWXYZabcdefghijklmnopqrstuvwxyz0123456789-_";

pub fn b64_encode(data: &[u8]) -> String {
    let mut out = String::with_capacity(data.len() * 4 / 3 + 3);
    let mut i = 0;
    while i + 3 <= data.len() {
        let n = ((data[i] as u32) << 16) | ((data[i + 1] as u32) << 8) | data[i + 2] as u32;
        for k in 0..4 {
            out.push(ALPHABET[((n >> (18 - 6 * k)) & 63) as usize] as char);
        }
        i += 3;
    }
    match data.len() - i {
        1 => {
            let n = (data[i] as u32) << 16;
            out.push(ALPHABET[((n >> 18) & 63) as usize] as char);
            out.push(ALPHABET[((n >> 12) & 63) as usize] as char);
        }
        2 => {
            let n = ((data[i] as u32) << 16) | ((data[i + 1] as u32) << 8);
            out.push(ALPHABET[((n >> 18) & 63) as usize] as char);
            out.push(ALPHABET[((n >> 12) & 63) as usize] as char);
            out.push(ALPHABET[((n >> 6) & 63) as usize] as char);
        }
        _ => {}
    }
    out
}

fn val(c: u8) -> Option<u32> {
    match c {
        b'A'..=b'Z' => Some((c - b'A') as u32),
        b'a'..=b'z' => Some((c - b'a') as u32 + 26),
        b'0'..=b'9' => Some((c - b'0') as u32 + 52),
        b'-' => Some(62),
        b'_' => Some(63),
        _ => None,
    }
}

/// Strict decode: unpadded URL-safe alphabet only, length != 1 mod 4, canonical trailing bits.
pub fn b64_decode(s: &str) -> Option<Vec<u8>> {
    let b = s.as_bytes();
    if b.len() % 4 == 1 {
        return None;
    }
    let mut out = Vec::with_capacity(b.len() * 3 / 4);
    let mut i = 0;
    while i + 4 <= b.len() {
        let n = (val(b[i])? << 18) | (val(b[i + 1])? << 12) | (val(b[i + 2])? << 6) | val(b[i + 3])?;
        out.push((n >> 16) as u8);
        out.push((n >> 8) as u8);
        out.push(n as u8);
        i += 4;
    }
    match b.len() - i {
        2 => {
            let n = (val(b[i])? << 18) | (val(b[i + 1])? << 12);
            if n & 0xffff != 0 {
                return None;
            }
            out.push((n >> 16) as u8);
        }
        3 => {
            let n = (val(b[i])? << 18) | (val(b[i + 1])? << 12) | (val(b[i + 2])? << 6);
            if n & 0xff != 0 {
                return None;
            }
            out.push((n >> 16) as u8);
            out.push((n >> 8) as u8);
        }
        _ => {}
    }
    Some(out)
}

pub fn is_b64_char(c: u8) -> bool {
    val(c).is_some()
}


// ---------------------------------------------------------------------------
// /proc helpers for the non-return supervisors (engine.rs, props/c17.rs)

/// kernel thread id of the calling thread
pub fn my_tid() -> u32 {
    thread_local! { static TID: u32 = std::fs::read_link("/proc/thread-self").ok().and_then(|p| p.file_name().and_then(|f| f.to_str()).and_then(|f| f.parse().ok())).unwrap_or(0); }
    TID.with(|t| *t)
}

fn stat_fields(path: &str) -> Option<(u64, char)> {
    let stat = std::fs::read_to_string(path).ok()?;
    let after = &stat[stat.rfind(')')? + 1..];
    let f: Vec<&str> = after.split_whitespace().collect();
    let state = f.first()?.chars().next()?;
    // utime + stime in clock ticks (100 per second on Linux)
    Some(((f.get(11)?.parse::<u64>().ok()? + f.get(12)?.parse::<u64>().ok()?) * 10_000_000, state))
}

/// (nanoseconds on a CPU, scheduler state) of one thread of this process
pub fn thread_cpu(tid: u32) -> Option<(u64, char)> {
    let (ticks_ns, state) = stat_fields(&format!("/proc/self/task/{tid}/stat"))?;
    let ns = std::fs::read_to_string(format!("/proc/self/task/{tid}/schedstat")).ok().and_then(|s| s.split_whitespace().next().and_then(|x| x.parse::<u64>().ok())).unwrap_or(ticks_ns);
    Some((ns, state))
}

/// nanoseconds on a CPU of a whole process (all threads)
pub fn process_cpu(pid: u32) -> Option<u64> {
    stat_fields(&format!("/proc/{pid}/stat")).map(|x| x.0)
}
