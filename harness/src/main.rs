#![allow(dead_code)]
use pv::{c19, engine, keypool, props, selftest, util};

fn main() {
    let args: Vec<String> = std::env::args().collect();
    util::install_quiet_panic_hook();
    let _ = libsodium_rs::ensure_init();
    match args.get(1).map(|s| s.as_str()) {
        Some("selftest") => {
            let t = std::time::Instant::now();
            let (n, errs) = selftest::run(true);
            for e in &errs { println!("MODEL-MISMATCH {e}"); }
            println!("selftest: {n} vectors, {} mismatches, {:.2}s", errs.len(), t.elapsed().as_secs_f64());
            std::process::exit(if errs.is_empty() {0} else {2});
        }
        Some("run") => {
            let id = args.get(2).cloned().unwrap_or_default();
            let tier = match args.get(3).map(|s| s.as_str()) {
                Some("thorough") => engine::Tier::Thorough,
                _ => engine::Tier::Quick,
            };
            let seed: u64 = std::env::var("VERIF_SEED").ok().and_then(|s| s.parse().ok()).unwrap_or(20261002);
            let only = std::env::var("PV_ONLY").ok();
            let verif_dir = std::env::var("VERIF_DIR").unwrap_or_else(|_| "/verif".into());
            // the model must reproduce the upstream vectors before anything is judged
            let (n, errs) = selftest::run(false);
            if !errs.is_empty() {
                for e in &errs { println!("INCONCLUSIVE reference model self-test failed: {e}"); }
                std::process::exit(2);
            }
            let _ = n;
            let Some(def) = props::def(&id) else {
                println!("INCONCLUSIVE unknown property {id}");
                std::process::exit(2);
            };
            std::process::exit(engine::run_property(def, tier, seed, &verif_dir, only.as_deref()));
        }
        Some("child") => {
            let id = args.get(2).cloned().unwrap_or_default();
            let sub = args.get(3).cloned().unwrap_or_default();
            let tier = if args.get(4).map(|s| s.as_str()) == Some("thorough") { engine::Tier::Thorough } else { engine::Tier::Quick };
            let seed: u64 = args.get(5).and_then(|s| s.parse().ok()).unwrap_or(1);
            let verif_dir = std::env::var("VERIF_DIR").unwrap_or_else(|_| "/verif".into());
            let Some(def) = props::def(&id) else { std::process::exit(2) };
            std::process::exit(engine::child_main(def, &sub, tier, seed, &verif_dir));
        }
        Some("replay") => {
            let path = args.get(2).cloned().unwrap_or_default();
            let verif_dir = std::env::var("VERIF_DIR").unwrap_or_else(|_| "/verif".into());
            let defs = props::ALL.iter().filter_map(|id| props::def(id)).collect();
            std::process::exit(engine::replay_file(defs, &path, &verif_dir));
        }
        Some("c19-fixtures") => {
            let v: u8 = args.get(2).and_then(|s| s.parse().ok()).unwrap_or(4);
            let seed: u64 = args.get(3).and_then(|s| s.parse().ok()).unwrap_or(1);
            println!("{}", serde_json::to_string(&c19::fixtures(v, seed)).unwrap());
        }
        Some("c19-accept") => {
            // args: <fixtures.json> ; stdin: probe output
            let fx: serde_json::Value = serde_json::from_str(&std::fs::read_to_string(args.get(2).cloned().unwrap_or_default()).unwrap_or_default()).unwrap_or_default();
            let mut input = String::new();
            use std::io::Read;
            let _ = std::io::stdin().read_to_string(&mut input);
            let mut bad = 0;
            for (kind, r) in c19::accept(&fx, &input) {
                match r {
                    Ok(()) => println!("ACCEPT {kind}"),
                    Err(e) => { bad += 1; println!("REFUSE {kind} {e}"); }
                }
            }
            std::process::exit(if bad == 0 { 0 } else { 1 });
        }
        Some("fuzz-seeds") => {
            // write the seed corpus for the libFuzzer targets
            let dir = args.get(2).cloned().unwrap_or_default();
            for t in ["parse_str", "unseal_edit"] {
                let _ = std::fs::create_dir_all(format!("{dir}/{t}"));
            }
            for (name, bytes) in props::c04::fuzz_seeds() {
                let _ = std::fs::write(format!("{dir}/parse_str/{name}"), &bytes);
            }
            let _ = std::fs::create_dir_all(format!("{dir}/key_bytes"));
            let _ = std::fs::write(format!("{dir}/key_bytes/seed32"), [0u8; 34]);
            let _ = std::fs::create_dir_all(format!("{dir}/b64_diff"));
            let _ = std::fs::write(format!("{dir}/b64_diff/seed"), b"q83vEjRWeJA");
            let _ = std::fs::write(format!("{dir}/unseal_edit/seed"), [0u8; 16]);
        }
        Some("genkeys-odd") => {
            let path = concat!(env!("CARGO_MANIFEST_DIR"), "/data/rsa_pool.json");
            let out = keypool::add_odd(&std::fs::read_to_string(path).unwrap());
            std::fs::write(path, out).unwrap();
        }
        Some("ts-probe") => {
            // one-off exploration: hostile timestamp spellings through RegisteredClaims::decode
            use paseto_core::encodings::Payload;
            let cands = ["9999-12-31T23:59:60Z", "+010000-01-01T00:00:00Z", "-000001-01-01T00:00:00Z", "0000-01-01T00:00:00+23:59", "2039-01-01T00:00:00.1234567891Z", "2039-01-01t00:00:00z", "2039-01-01 00:00:00Z", "2039-01-01T00:00:00+24:00", "2039-01-01T00:00:00Z[UTC]", "2039-01-01T00:00:00+01:00[Europe/Paris]", "2039-01-01T00:00:00", "2039-01-01", "2039-02-30T00:00:00Z", "2039-01-01T24:00:00Z", "2039-01-01T00:00:00-00:00", "2039-01-01T00:00:00+00:00:30", "2039-01-01T00:00:00,5Z", "20390101T000000Z", "2039-W01-1T00:00:00Z", "9999-12-31T23:59:59.999999999+00:00", "9999-12-31T23:59:59-01:00", "-009999-01-02T01:59:59Z", "0000-01-01T00:00:00Z", "", " 2039-01-01T00:00:00Z", "2039-01-01T00:00:00Z ", "2039-01-01T00:00:00.Z", "2039-1-1T0:0:0Z", "2039-01-01T00:00Z", "1e3"];
            for c in cands {
                let doc = format!("{{\"exp\":{}}}", serde_json::to_string(c).unwrap());
                let r = pv::util::catch(|| paseto_json::RegisteredClaims::decode(doc.as_bytes()).map(|x| x.exp.map(|t| t.as_nanosecond())));
                println!("{c:45} -> {:?}", r.map(|x| x.map_err(|e| format!("{e}").chars().take(50).collect::<String>())));
            }
        }
        Some("case-control") => {
            use std::io::Read;
            let mut input = String::new();
            let _ = std::io::stdin().read_to_string(&mut input);
            let id = args.get(2).cloned().unwrap_or_default();
            let sub = args.get(3).cloned().unwrap_or_default();
            let verif_dir = std::env::var("VERIF_DIR").unwrap_or_else(|_| "/verif".into());
            let Some(def) = props::def(&id) else { std::process::exit(2) };
            std::process::exit(engine::case_control_main(def, &sub, &input, &verif_dir));
        }
        Some("c17-control") => {
            use std::io::Read;
            let mut input = String::new();
            let _ = std::io::stdin().read_to_string(&mut input);
            let _ = libsodium_rs::ensure_init();
            std::process::exit(pv::props::c17::control_main(args.get(2).map(|s| s.as_str()).unwrap_or(""), &input));
        }
        Some("perturb-test") => {
            // run the failing-operation history once, loudly (no catch), and report what it contains
            pv::perturb::self_test();
        }
        Some("genkeys-primes") => {
            let path = concat!(env!("CARGO_MANIFEST_DIR"), "/data/rsa_pool.json");
            let out = keypool::add_prime_shapes(&std::fs::read_to_string(path).unwrap());
            std::fs::write(path, out).unwrap();
        }
        Some("genkeys-exp") => {
            let path = concat!(env!("CARGO_MANIFEST_DIR"), "/data/rsa_pool.json");
            let out = keypool::add_exponents(&std::fs::read_to_string(path).unwrap());
            std::fs::write(path, out).unwrap();
        }
        Some("genkeys") => {
            let out = keypool::generate(8, 4);
            std::fs::write(concat!(env!("CARGO_MANIFEST_DIR"), "/data/rsa_pool.json"), out).unwrap();
        }
        _ => { eprintln!("usage: pv selftest | run <Cxx> <quick|thorough> | replay <file>"); std::process::exit(2); }
    }
}
