#![allow(dead_code)]
mod engine;
mod refmodel;
mod rng;
mod selftest;
mod util;

fn main() {
    let args: Vec<String> = std::env::args().collect();
    util::install_quiet_panic_hook();
    let _ = libsodium_rs::ensure_init();
    match args.get(1).map(|s| s.as_str()) {
        Some("selftest") => {
            let t = std::time::Instant::now();
            let (n, errs) = selftest::run(true);
            for e in &errs { println!("MODEL-MISMATCH {e}"); }
            println!("selftest: {n} vectors, {} mismatches, {:.2}s", errs.len(), t.elapsed().as_secs_f64());
            std::process::exit(if errs.is_empty() {0} else {2});
        }
        _ => { eprintln!("usage: pv selftest | run <Cxx> <quick|thorough> | replay <file>"); std::process::exit(2); }
    }
}
