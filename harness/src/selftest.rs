//! Validates the reference model against the upstream PASETO/PASERK vectors
//! (a committed copy under harness/data/vectors, embedded at compile time).
//! A model bug therefore shows up as a harness failure (exit 2), never as a verdict.

use serde_json::Value;

use crate::refmodel::*;

macro_rules! vecs {
    ($($name:literal),* $(,)?) => {
        &[ $( ($name, include_str!(concat!("../data/vectors/", $name))) ),* ]
    };
}

pub const VECTORS: &[(&str, &str)] = vecs![
    "v1.json", "v2.json", "v3.json", "v4.json",
    "k1.lid.json", "k1.pid.json", "k1.sid.json", "k2.lid.json", "k2.pid.json", "k2.sid.json",
    "k3.lid.json", "k3.pid.json", "k3.sid.json", "k4.lid.json", "k4.pid.json", "k4.sid.json",
    "k1.local.json", "k1.public.json", "k1.secret.json", "k2.local.json", "k2.public.json", "k2.secret.json",
    "k3.local.json", "k3.public.json", "k3.secret.json", "k4.local.json", "k4.public.json", "k4.secret.json",
    "k1.local-wrap.pie.json", "k1.secret-wrap.pie.json", "k2.local-wrap.pie.json", "k2.secret-wrap.pie.json",
    "k3.local-wrap.pie.json", "k3.secret-wrap.pie.json", "k4.local-wrap.pie.json", "k4.secret-wrap.pie.json",
    "k1.local-pw.json", "k1.secret-pw.json", "k2.local-pw.json", "k2.secret-pw.json",
    "k3.local-pw.json", "k3.secret-pw.json", "k4.local-pw.json", "k4.secret-pw.json",
    "k1.seal.json", "k2.seal.json", "k3.seal.json", "k4.seal.json",
];

pub fn vector_file(name: &str) -> Value {
    let s = VECTORS.iter().find(|(n, _)| *n == name).expect("vector file").1;
    serde_json::from_str(s).expect("vector json")
}

fn ver_of(name: &str) -> Ver {
    match name.as_bytes()[1] {
        b'1' => Ver::V1,
        b'2' => Ver::V2,
        b'3' => Ver::V3,
        _ => Ver::V4,
    }
}

fn s<'a>(t: &'a Value, k: &str) -> &'a str {
    t.get(k).and_then(|x| x.as_str()).unwrap_or("")
}

/// key material in vectors is hex, or PEM for v1 asymmetric keys -> raw/DER bytes
pub fn key_bytes(v: &str) -> Vec<u8> {
    if v.starts_with("-----BEGIN") {
        pem_to_der(v.as_bytes())
    } else {
        hex::decode(v).unwrap_or_default()
    }
}

/// wrapped plaintext: the literal text for PEM keys, else hex
fn raw_or_hex(v: &str) -> Vec<u8> {
    if v.starts_with("-----BEGIN") { v.as_bytes().to_vec() } else { hex::decode(v).unwrap_or_default() }
}

fn expect_fail(t: &Value) -> bool {
    t.get("expect-fail").and_then(|x| x.as_bool()).unwrap_or(false)
}

/// Returns (vectors checked, list of model disagreements).
pub fn run(heavy: bool) -> (usize, Vec<String>) {
    let mut n = 0usize;
    let mut errs = Vec::new();
    let mut bad = |name: &str, why: String| errs.push(format!("{name}: {why}"));

    // AES-CTR hand-written counter vs aws-lc incl. wrap-around
    for iv in [[0u8; 16], [0xff; 16], {
        let mut x = [0u8; 16];
        x[8..].fill(0xff);
        x
    }] {
        let key = [7u8; 32];
        let data = vec![0x5a; 100];
        if aes256ctr(&key, &iv, &data) != aes256ctr_awslc(&key, &iv, &data) {
            bad("aes-ctr", format!("hand-written CTR disagrees with aws-lc for iv {}", hex::encode(iv)));
        }
        n += 1;
    }

    for (file, _) in VECTORS {
        let ver = ver_of(file);
        let doc = vector_file(file);
        let tests = doc.get("tests").and_then(|x| x.as_array()).cloned().unwrap_or_default();
        for t in &tests {
            let name = s(t, "name").to_string();
            if expect_fail(t) {
                continue;
            }
            n += 1;
            let kind = file.trim_end_matches(".json");
            if kind.len() == 2 {
                // token vectors
                let token = s(t, "token");
                let f = s(t, "footer").as_bytes();
                let i = s(t, "implicit-assertion").as_bytes();
                let m = s(t, "payload").as_bytes();
                if t.get("nonce").is_some() {
                    let key = key_bytes(s(t, "key"));
                    let draw = hex::decode(s(t, "nonce")).unwrap();
                    match local_encrypt(ver, &key, &draw, m, f, i) {
                        Ok(tok) if tok == token => {}
                        Ok(tok) => bad(&name, format!("model token {tok} != vector {token}")),
                        Err(e) => bad(&name, e),
                    }
                    match local_decrypt(ver, &key, token, i) {
                        Ok((mm, ff)) if mm == m && ff == f => {}
                        other => bad(&name, format!("model decrypt: {other:?}")),
                    }
                } else {
                    let pk = key_bytes(s(t, "public-key"));
                    let sk = key_bytes(s(t, "secret-key"));
                    let (mm, sig, ff) = match public_split(ver, token) {
                        Ok(x) => x,
                        Err(e) => {
                            bad(&name, e);
                            continue;
                        }
                    };
                    if mm != m || ff != f {
                        bad(&name, "split mismatch".into());
                    }
                    let pre = public_preauth(ver, &pk, m, f, i).unwrap();
                    match ver {
                        Ver::V2 | Ver::V4 => {
                            let sig2 = ed25519_sign(&sk, &pre).unwrap();
                            if sig2[..] != sig[..] {
                                bad(&name, "Ed25519 signature differs".into());
                            }
                            if !ed25519_verify(&pk, &pre, &sig) {
                                bad(&name, "Ed25519 verify failed".into());
                            }
                        }
                        Ver::V3 => {
                            if !p384_verify_awslc(&pk, &pre, &sig) || !p384_verify_rc(&pk, &pre, &sig) {
                                bad(&name, "ECDSA verify failed".into());
                            }
                            for hs in [false, true] {
                                let s2 = p384_sign_rc(&sk, &pre, hs).unwrap();
                                if !p384_verify_awslc(&pk, &pre, &s2) || !p384_verify_rc(&pk, &pre, &s2) {
                                    bad(&name, format!("own ECDSA signature (high_s={hs}) does not verify"));
                                }
                            }
                            let s3 = p384_sign_awslc(&sk, &pre).unwrap();
                            if !p384_verify_rc(&pk, &pre, &s3) {
                                bad(&name, "aws-lc ECDSA signature does not verify".into());
                            }
                            if p384_public(&sk).unwrap()[..] != pk[..] {
                                bad(&name, "p384 public key derivation".into());
                            }
                        }
                        Ver::V1 => {
                            let rp = rsa_pub_from_spki(&pk).unwrap();
                            if !rsa_pss_verify_awslc(&rp.pkcs1_der, &pre, &sig) {
                                bad(&name, "RSA-PSS verify failed".into());
                            }
                            let s2 = rsa_pss_sign_awslc(&sk, &pre).unwrap();
                            if !rsa_pss_verify_awslc(&rp.pkcs1_der, &pre, &s2) {
                                bad(&name, "own RSA-PSS signature does not verify".into());
                            }
                        }
                    }
                }
                continue;
            }
            let sub = &kind[3..];
            let paserk = s(t, "paserk");
            match sub {
                "local" | "public" | "secret" => {
                    let key = key_bytes(s(t, "key"));
                    let txt = key_text(ver, sub, &key);
                    if txt != paserk {
                        bad(&name, format!("key text {txt} != {paserk}"));
                    }
                }
                "lid" | "pid" | "sid" => {
                    let key = key_bytes(s(t, "key"));
                    let k = match sub {
                        "lid" => "local",
                        "pid" => "public",
                        _ => "secret",
                    };
                    let id = key_id(ver, sub, &key_text(ver, k, &key));
                    if id != paserk {
                        bad(&name, format!("id {id} != {paserk}"));
                    }
                }
                "local-wrap.pie" | "secret-wrap.pie" => {
                    let k = sub.split('-').next().unwrap();
                    let wk = key_bytes(s(t, "wrapping-key"));
                    let un = raw_or_hex(s(t, "unwrapped"));
                    let plain = match pie_unwrap(ver, k, &wk, paserk) {
                        Ok(x) if pem_to_der(&x) == pem_to_der(&un) => x,
                        other => {
                            bad(&name, format!("pie unwrap {:?}", other.map(|x| crate::util::hx(&x))));
                            continue;
                        }
                    };
                    // re-wrap with the embedded nonce
                    let h = format!("{}.{}-wrap.pie.", ver.k(), k);
                    let blob = crate::util::b64_decode(&paserk[h.len()..]).unwrap();
                    let tl = if ver.nist() { 48 } else { 32 };
                    let nn: [u8; 32] = blob[tl..tl + 32].try_into().unwrap();
                    if pie_wrap(ver, k, &wk, &nn, &plain) != paserk {
                        bad(&name, "pie re-wrap differs".into());
                    }
                }
                "local-pw" | "secret-pw" => {
                    if !heavy {
                        if let Ok(p) = pbkw_split(ver, sub.split('-').next().unwrap(), paserk) {
                            if let PwParams::Argon2id { mem_bytes, .. } = p.params {
                                if mem_bytes > 8 << 20 {
                                    continue;
                                }
                            }
                        }
                    }
                    let k = sub.split('-').next().unwrap();
                    let pw = s(t, "password").as_bytes().to_vec();
                    let un = raw_or_hex(s(t, "unwrapped"));
                    let plain = match pbkw_unwrap(ver, k, &pw, paserk) {
                        Ok(x) if pem_to_der(&x) == pem_to_der(&un) => x,
                        other => {
                            bad(&name, format!("pbkw unwrap {:?}", other.map(|x| crate::util::hx(&x))));
                            continue;
                        }
                    };
                    let p = pbkw_split(ver, k, paserk).unwrap();
                    match pbkw_wrap(ver, k, &pw, &p.params, &p.salt, &p.nonce, &plain) {
                        Ok(x) if x == paserk => {}
                        other => bad(&name, format!("pbkw re-wrap differs {:?}", other.map(|x| x.len()))),
                    }
                }
                "seal" => {
                    let sk = key_bytes(s(t, "sealing-secret-key"));
                    let pk = key_bytes(s(t, "sealing-public-key"));
                    let un = key_bytes(s(t, "unsealed"));
                    let got = match ver {
                        Ver::V2 | Ver::V4 => pke_unseal_25519(ver, &sk, paserk),
                        Ver::V3 => pke_unseal_p384(&sk, paserk),
                        Ver::V1 => rsa_priv_from_pkcs1(&sk).and_then(|k| pke_unseal_rsa(&k, paserk)),
                    };
                    match got {
                        Ok(x) if x == un => {}
                        other => bad(&name, format!("unseal {:?}", other.map(|x| hex::encode(x)))),
                    }
                    // seal with own ephemeral and unseal again
                    let pdk: [u8; 32] = un.clone().try_into().unwrap();
                    let again = match ver {
                        Ver::V2 | Ver::V4 => pke_seal_25519(ver, &pk, &[9u8; 32], &pdk).and_then(|b| pke_unseal_25519(ver, &sk, &b)),
                        Ver::V3 => {
                            let mut esk = [0u8; 48];
                            esk[47] = 5;
                            pke_seal_p384(&pk, &esk, &pdk).and_then(|b| pke_unseal_p384(&sk, &b))
                        }
                        Ver::V1 => {
                            let mut r = vec![0x33u8; 512];
                            r[0] = 0x40;
                            let rp = rsa_pub_from_spki(&pk).unwrap();
                            let rs = rsa_priv_from_pkcs1(&sk).unwrap();
                            pke_seal_rsa(&rp, &r, &pdk).and_then(|b| pke_unseal_rsa(&rs, &b))
                        }
                    };
                    match again {
                        Ok(x) if x == un => {}
                        other => bad(&name, format!("model seal/unseal {:?}", other.map(|x| hex::encode(x)))),
                    }
                }
                _ => {}
            }
        }
    }
    (n, errs)
}
