#![allow(dead_code)]
//! The verification harness as a library (shared by the `pv` binary and the fuzz targets).
pub mod backends;
pub mod c19;
pub mod engine;
pub mod faults;
pub mod gens;
pub mod props;
pub mod keypool;
pub mod refmodel;
pub mod rng;
pub mod selftest;
pub mod texttypes;
pub mod util;
pub mod perturb;
