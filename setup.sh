#!/bin/bash
# MANIFEST.setup_cmd: offline build of the harness from /repo's working tree, then the
# reference model's self-test against the upstream vectors.
set -u
cd "$(dirname "$0")/harness" || exit 2
export CARGO_NET_OFFLINE=true
cargo build --release 2>&1 | tail -3
/verif/target/harness/release/pv selftest || exit 2
