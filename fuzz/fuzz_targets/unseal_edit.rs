#![no_main]
//! Fuzzer-chosen edit script applied to a valid library-produced string, then parse + use.
use arbitrary::Unstructured;
use libfuzzer_sys::fuzz_target;
use pv::props::c04;

fuzz_target!(|data: &[u8]| {
    let mut u = Unstructured::new(data);
    let Ok(backend) = u.arbitrary::<u8>() else { return };
    let Ok(base) = u.arbitrary::<u16>() else { return };
    let mut edits = Vec::new();
    while edits.len() < 6 {
        let Ok(kind) = u.arbitrary::<u8>() else { break };
        let (Ok(a), Ok(b)) = (u.arbitrary::<u16>(), u.arbitrary::<u8>()) else { break };
        edits.push((kind, a, b));
    }
    c04::fuzz_edited(backend, base, &edits);
});
