#![no_main]
//! Raw key bytes of every kind -> decoder -> use of the accepted key.
use libfuzzer_sys::fuzz_target;
use pv::props::c04;

fuzz_target!(|data: &[u8]| {
    if data.len() < 2 {
        return;
    }
    c04::fuzz_key_bytes(data[0], data[1], &data[2..]);
});
