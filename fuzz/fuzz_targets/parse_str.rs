#![no_main]
//! One string -> every FromStr of one back end -> follow-up operations on whatever parses.
use libfuzzer_sys::fuzz_target;
use pv::props::c04;

fuzz_target!(|data: &[u8]| {
    if data.is_empty() {
        return;
    }
    let Ok(s) = std::str::from_utf8(&data[1..]) else { return };
    c04::fuzz_string(data[0], s);
});
