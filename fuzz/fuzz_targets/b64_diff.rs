#![no_main]
//! Differential base64url: library decoder vs the strict reference decoder (C09).
use libfuzzer_sys::fuzz_target;
use pv::props::c09;

fuzz_target!(|data: &[u8]| {
    let Ok(s) = std::str::from_utf8(data) else { return };
    if let Err(f) = c09::b64_check_pub("", s) {
        panic!("{}: {}", f.sig, f.what);
    }
});
