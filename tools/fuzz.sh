#!/bin/bash
# usage: tools/fuzz.sh <property> <target> <runs-per-worker> <workers>
# Builds the cargo-fuzz targets (libFuzzer + AddressSanitizer, nightly) against /repo's current
# tree, runs one campaign from the seed corpus, and reports crashes as VIOLATION lines.
# exit 0 no crash, 1 crash (artifact copied to /verif/replays/<property>/), 2 infrastructure trouble.
set -u
PROP="$1"; TARGET="$2"; RUNS="$3"; WORKERS="$4"
VERIF_DIR="${VERIF_DIR:-/verif}"
SEED="${VERIF_SEED:-20261002}"; [ "$SEED" = "0" ] && SEED=1
export CARGO_NET_OFFLINE=true
BUILD_LOG="$VERIF_DIR/target/fuzz-build.log"
( cd "$VERIF_DIR/fuzz" && RUSTFLAGS='--cfg paseto_verif --cfg getrandom_backend="custom"' cargo +nightly fuzz build --fuzz-dir "$VERIF_DIR/fuzz" --target-dir "$VERIF_DIR/target/fuzz" "$TARGET" >"$BUILD_LOG" 2>&1 )
if [ $? -ne 0 ]; then echo "INCONCLUSIVE fuzz build failed (see $BUILD_LOG)"; tail -5 "$BUILD_LOG"; exit 2; fi
BIN="$VERIF_DIR/target/fuzz/x86_64-unknown-linux-gnu/release/$TARGET"
RUN="$VERIF_DIR/target/fuzz-run/$TARGET"
rm -rf "$RUN"; mkdir -p "$RUN/corpus" "$RUN/artifacts"
"$VERIF_DIR/target/harness/release/pv" fuzz-seeds "$RUN/seeds" >/dev/null 2>&1
cp -r "$RUN/seeds/$TARGET/." "$RUN/corpus/" 2>/dev/null
cd "$RUN"
"$BIN" corpus -runs="$RUNS" -seed="$SEED" -len_control=0 -max_len=2048 -rss_limit_mb=4096 -timeout=60 \
   -jobs="$WORKERS" -workers="$WORKERS" -artifact_prefix="$RUN/artifacts/" -print_final_stats=1 >"$RUN/driver.log" 2>&1
rc=$?
execs=$(grep -h "stat::number_of_executed_units" fuzz-*.log 2>/dev/null | awk '{s+=$2} END {print s+0}')
cov=$(grep -h "cov:" fuzz-*.log 2>/dev/null | sed -n 's/.*cov: \([0-9]*\).*/\1/p' | sort -n | tail -1)
echo "FUZZ $TARGET: $execs executions, $WORKERS workers, max cov ${cov:-?}, corpus $(ls corpus | wc -l)"
python3 - "$VERIF_DIR/evidence/$PROP.json" "$TARGET" "$execs" "${cov:-0}" <<'PY'
import json, sys
p, target, execs, cov = sys.argv[1], sys.argv[2], int(sys.argv[3] or 0), int(sys.argv[4] or 0)
try:
    e = json.load(open(p))
except Exception:
    sys.exit(0)
c = e["coverage"]
c.setdefault("fuzz_campaigns", []).append({"target": target, "engine": "libFuzzer + AddressSanitizer (cargo-fuzz, nightly)", "executions": execs, "max_edge_coverage": cov})
c["evaluations"] = c.get("evaluations", 0) + execs
json.dump(e, open(p, "w"), indent=1)
PY
crashes=$(ls "$RUN/artifacts" 2>/dev/null | grep -E "^(crash|leak|oom|timeout)-" || true)
if [ -n "$crashes" ]; then
  mkdir -p "$VERIF_DIR/replays/$PROP"
  status=0
  for a in $crashes; do
    case "$a" in
      oom-*|timeout-*) echo "INCONCLUSIVE fuzz $TARGET: $a (resource limit, not a verdict)"; [ $status -eq 0 ] && status=2 ;;
      *) dst="$VERIF_DIR/replays/$PROP/fuzz-$TARGET-$a"; cp "$RUN/artifacts/$a" "$dst"
         echo "VIOLATION property=$PROP replay=$dst"
         echo "  signature: $PROP/fuzz/$TARGET/$(grep -h -m1 -E "panicked at|ERROR: AddressSanitizer|ERROR: LeakSanitizer" fuzz-*.log | head -1 | cut -c1-160)"
         status=1 ;;
    esac
  done
  exit $status
fi
if [ $rc -ne 0 ]; then echo "INCONCLUSIVE fuzz driver exit $rc without artifact"; tail -3 "$RUN/driver.log"; exit 2; fi
exit 0
