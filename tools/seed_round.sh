#!/bin/bash
# usage: tools/seed_round.sh <suffix> [ids...]
# For every finished sub-agent worktree /tmp/wt/<Cxx><suffix> (it has seeded_patch.diff):
#   1. confirm the change (demo fails with it / passes without it, existing suite passes with it),
#   2. store patch + demo under /verif/seeded/<Cxx><suffix>/,
#   3. drill it against the property's own check (apply to /repo, run, restore).
# Prints one summary line per change.  Skips ids already stored unless FORCE=1.
set -u
SFX="$1"; shift
IDS="${@:-C01 C02 C03 C04 C05 C06 C07 C08 C09 C10 C11 C12 C13 C14 C15 C16 C17 C18 C19}"
for ID in $IDS; do
  WT="/tmp/wt/$ID$SFX"; DST="/verif/seeded/$ID$SFX"; low=$(echo "$ID" | tr 'A-Z' 'a-z')
  [ -f "$WT/seeded_patch.diff" ] || continue
  if [ -f "$DST/patch.diff" ] && [ "${FORCE:-0}" != 1 ]; then continue; fi
  cd "$WT" || continue
  git checkout -q -- . 2>/dev/null
  if ! git apply seeded_patch.diff 2>/dev/null; then echo "$ID$SFX: patch does not apply"; continue; fi
  RS=$(ls paseto-test/tests/demo_*.rs paseto-*/tests/demo_*.rs 2>/dev/null | head -1)
  SH=$(ls demo_*.sh 2>/dev/null | head -1)
  if [ -n "$SH" ]; then
    chmod +x "$SH"; JOBS=8 ./"$SH" >/tmp/wt/$ID$SFX.with.log 2>&1; w=$?
    git apply -R seeded_patch.diff; JOBS=8 ./"$SH" >/tmp/wt/$ID$SFX.without.log 2>&1; wo=$?
    git apply seeded_patch.diff
    demo="shell demo with=$w without=$wo"
    [ $w -ne 0 ] && [ $wo -eq 0 ] && okdemo=1 || okdemo=0
  elif [ -n "$RS" ]; then
    name=$(basename "$RS" .rs)
    w=$(cargo test -j 8 --offline -p paseto-test --test "$name" 2>&1 | grep -E "^test result" | head -1)
    git apply -R seeded_patch.diff
    wo=$(cargo test -j 8 --offline -p paseto-test --test "$name" 2>&1 | grep -E "^test result" | head -1)
    git apply seeded_patch.diff
    demo="with[$(echo "$w" | cut -c14-45)] without[$(echo "$wo" | cut -c14-45)]"
    echo "$w" | grep -q FAILED && echo "$wo" | grep -q "ok\." && okdemo=1 || okdemo=0
  else
    echo "$ID$SFX: no demo found"; continue
  fi
  suite=$(cargo nextest run --build-jobs 8 --workspace --no-fail-fast --offline -E "not binary(/demo_/)" 2>&1 | grep -E "Summary" | sed 's/.*Summary *\[[^]]*\] *//')
  mkdir -p "$DST"; cp seeded_patch.diff "$DST/patch.diff"
  [ -n "$RS" ] && cp "$RS" "$DST/"
  if [ -n "$SH" ]; then
    cp "$SH" "$DST/"
    for d in demo_*; do
      [ -d "$d" ] || continue
      find "$d" -type d -name "target*" -prune -exec rm -rf {} + 2>/dev/null
      find "$d" -name Cargo.lock -delete 2>/dev/null
      cp -r "$d" "$DST/"
    done
  fi
  dr=$(/verif/tools/drill.sh "$DST/patch.diff" "$ID" 2>&1)
  line=$(echo "$dr" | grep "^drill" | head -1 | sed 's/^drill [^ ]* //')
  sig=$(echo "$dr" | grep "signature:" | head -1 | sed 's/ *signature: //')
  echo "$ID$SFX: demo_ok=$okdemo {$demo} suite{$suite} own-check{$line} $sig"
done
