#!/bin/bash
# usage: tools/seed_verify.sh <suffix> <Cxx>
# Steps 1-2 of seed_round.sh for ONE finished sub-agent worktree /tmp/wt/<Cxx><suffix>, without
# touching /repo (so several can run side by side): confirm the change (demo fails with it /
# passes without it, existing suite passes with it) and store patch + demo under
# /verif/seeded/<Cxx><suffix>/.  The drill against the property's check is done separately
# (tools/drill.sh), one change at a time.
set -u
SFX="$1"; ID="$2"; J="${JOBS:-4}"
WT="/tmp/wt/$ID$SFX"; DST="/verif/seeded/$ID$SFX"
[ -f "$WT/seeded_patch.diff" ] || { echo "$ID$SFX: no seeded_patch.diff"; exit 0; }
cd "$WT" || exit 0
git checkout -q -- . 2>/dev/null
if ! git apply seeded_patch.diff 2>/dev/null; then echo "$ID$SFX: patch does not apply"; exit 0; fi
RS=$(ls paseto-test/tests/demo_*.rs paseto-*/tests/demo_*.rs 2>/dev/null | head -1)
SH=$(ls demo_*.sh 2>/dev/null | head -1)
if [ -n "$SH" ]; then
  chmod +x "$SH"; JOBS=$J ./"$SH" >/tmp/wt/$ID$SFX.with.log 2>&1; w=$?
  git apply -R seeded_patch.diff; JOBS=$J ./"$SH" >/tmp/wt/$ID$SFX.without.log 2>&1; wo=$?
  git apply seeded_patch.diff
  demo="shell demo with=$w without=$wo"
  [ $w -ne 0 ] && [ $wo -eq 0 ] && okdemo=1 || okdemo=0
elif [ -n "$RS" ]; then
  name=$(basename "$RS" .rs)
  w=$(timeout 1800 cargo test -j $J --offline -p paseto-test --test "$name" 2>&1 | grep -E "^test result" | head -1)
  git apply -R seeded_patch.diff
  wo=$(timeout 1800 cargo test -j $J --offline -p paseto-test --test "$name" 2>&1 | grep -E "^test result" | head -1)
  git apply seeded_patch.diff
  demo="with[$(echo "$w" | cut -c14-45)] without[$(echo "$wo" | cut -c14-45)]"
  echo "$w" | grep -q FAILED && echo "$wo" | grep -q "ok\." && okdemo=1 || okdemo=0
else
  echo "$ID$SFX: no demo found"; exit 0
fi
FILTER=(); [ -n "$RS" ] && FILTER=(-E "not binary(/demo_/)")
suite=$(timeout 1800 cargo nextest run --build-jobs $J --workspace --no-fail-fast --offline "${FILTER[@]}" 2>&1 | grep -E "Summary" | sed 's/.*Summary *\[[^]]*\] *//')
mkdir -p "$DST"; cp seeded_patch.diff "$DST/patch.diff"
[ -n "$RS" ] && cp "$RS" "$DST/"
if [ -n "$SH" ]; then
  cp "$SH" "$DST/"
  for d in demo_*; do
    [ -d "$d" ] || continue
    find "$d" -type d -name "target*" -prune -exec rm -rf {} + 2>/dev/null
    find "$d" -name Cargo.lock -delete 2>/dev/null
    cp -r "$d" "$DST/"
  done
fi
echo "$ID$SFX: demo_ok=$okdemo {$demo} suite{$suite}"
