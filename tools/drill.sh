#!/bin/bash
# usage: tools/drill.sh <patch.diff> <Cxx> [Cyy ...]   (tier via TIER=quick|thorough)
# Applies a seeded change to /repo, runs the named checks, and always restores /repo.
set -u
PATCH="$1"; shift
TIER="${TIER:-quick}"
cd /repo || exit 2
if ! git diff --quiet; then echo "drill: /repo has uncommitted changes"; exit 2; fi
if ! git apply --check "$PATCH" 2>/dev/null; then echo "drill: patch does not apply: $PATCH"; exit 2; fi
git apply "$PATCH"
# evidence written while a seeded change is applied is not evidence about /repo: keep the real files aside
EVBAK=$(mktemp -d /tmp/drill-evidence.XXXXXX); cp -a /verif/evidence/. "$EVBAK"/ 2>/dev/null
trap 'git -C /repo checkout -- . ; git -C /repo clean -fdq -- . ":!target" 2>/dev/null; cp -a "$EVBAK"/. /verif/evidence/ 2>/dev/null; rm -rf "$EVBAK"' EXIT
for id in "$@"; do
  out=$(cd /verif && VERIF_DIR=/verif ./check "$id" "$TIER" 2>&1)
  rc=$?
  nviol=$(echo "$out" | grep -c '^VIOLATION')
  echo "drill $(basename $(dirname "$PATCH"))/$(basename "$PATCH") $id $TIER: rc=$rc violations=$nviol"
  echo "$out" | grep -E "^(VIOLATION|  signature|INCONCLUSIVE)" | head -6
done
