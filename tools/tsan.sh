#!/bin/bash
# usage: tools/tsan.sh [runs]
# C17 thorough tier: rebuilds the harness against /repo's current tree with ThreadSanitizer
# (nightly, -Zbuild-std so std is instrumented too), runs the C17 plans `runs` times (different
# seeds derived from VERIF_SEED) and reports every data race whose stack passes through /repo code.
# Races without a /repo frame (inside the harness, or between uninstrumented C code) are counted but
# are not a verdict about the library.
# exit 0 no race in library code, 1 race (report copied to /verif/replays/C17/), 2 infrastructure trouble.
set -u
RUNS="${1:-3}"
VERIF_DIR="${VERIF_DIR:-/verif}"
SEED="${VERIF_SEED:-20261002}"
export CARGO_NET_OFFLINE=true
BUILD_LOG="$VERIF_DIR/target/tsan-build.log"
mkdir -p "$VERIF_DIR/target"
( cd "$VERIF_DIR/harness" && RUSTFLAGS='-Zsanitizer=thread --cfg paseto_verif --cfg getrandom_backend="custom"' \
    cargo +nightly build -Zbuild-std --target x86_64-unknown-linux-gnu --release --target-dir "$VERIF_DIR/target/tsan" >"$BUILD_LOG" 2>&1 )
if [ $? -ne 0 ]; then echo "INCONCLUSIVE ThreadSanitizer build failed (see $BUILD_LOG)"; tail -5 "$BUILD_LOG"; exit 2; fi
BIN="$VERIF_DIR/target/tsan/x86_64-unknown-linux-gnu/release/pv"
RUN="$VERIF_DIR/target/tsan-run"
rm -rf "$RUN"; mkdir -p "$RUN/logs"
cp "$VERIF_DIR/known_findings.json" "$RUN/" 2>/dev/null
plans=0; status=0
for i in $(seq 1 "$RUNS"); do
  s=$(( SEED + i * 7919 ))
  # exitcode=0: a report must not look like a crashed child to the engine; the verdict comes from the logs
  out=$(VERIF_DIR="$RUN" VERIF_SEED="$s" TSAN_OPTIONS="halt_on_error=0 exitcode=0 report_signal_unsafe=0 history_size=4 log_path=$RUN/logs/tsan" \
        timeout -k 10 1500 "$BIN" run C17 quick 2>&1)
  rc=$?
  line=$(echo "$out" | grep -E "^C17 quick:" | tail -1)
  echo "TSAN run $i (seed $s): rc=$rc ${line}"
  if [ $rc -ge 124 ]; then echo "INCONCLUSIVE ThreadSanitizer run $i hit the watchdog"; status=2; fi
  if [ $rc -eq 1 ]; then
    # the instrumented build found an ordinary C17 violation: pass its lines on
    echo "$out" | grep -E "^(VIOLATION|  signature|  what)" | sed "s#$RUN/replays#$VERIF_DIR/replays#"
    mkdir -p "$VERIF_DIR/replays/C17"; cp -r "$RUN/replays/C17/." "$VERIF_DIR/replays/C17/" 2>/dev/null
    status=1
  fi
  n=$(echo "$line" | sed -n 's/^C17 quick: \([0-9]*\) evaluations.*/\1/p'); plans=$(( plans + ${n:-0} ))
done
python3 - "$RUN/logs" "$VERIF_DIR" "$plans" "$RUNS" <<'PY'
import sys, os, re, json, hashlib, glob
logs, verif, evals, runs = sys.argv[1], sys.argv[2], int(sys.argv[3]), int(sys.argv[4])
reports = []
for f in sorted(glob.glob(os.path.join(logs, "tsan.*"))):
    txt = open(f, errors="replace").read()
    for r in re.split(r"(?m)^==================\n", txt):
        if "WARNING: ThreadSanitizer" in r:
            reports.append(r)
lib, other = {}, 0
for r in reports:
    frames = [l for l in r.splitlines() if re.match(r"\s+#\d+ ", l)]
    repo = [l for l in frames if "/repo/" in l]
    if not repo:
        other += 1
        continue
    # signature: kind + the innermost /repo frame of each of the two stacks
    kind = re.search(r"WARNING: ThreadSanitizer: ([^(\n]+)", r).group(1).strip()
    sites = sorted(set(re.sub(r".* (/repo/\S+?)(:\d+)?(:\d+)? .*", r"\1\2", l) for l in repo[:1] + repo[-1:]))
    sig = f"C17/tsan/{kind}/" + "+".join(s.replace("/repo/", "") for s in sites)
    lib.setdefault(sig, r)
rc = 0
os.makedirs(os.path.join(verif, "replays", "C17"), exist_ok=True)
for sig, r in lib.items():
    h = hashlib.sha1(sig.encode()).hexdigest()[:16]
    path = os.path.join(verif, "replays", "C17", f"tsan-{h}.txt")
    open(path, "w").write(f"# {sig}\n# replay: tools/tsan.sh re-runs the plans under ThreadSanitizer; a race is a property of the schedule, the report below is the witness\n" + r)
    print(f"VIOLATION property=C17 replay={path}")
    print(f"  signature: {sig}")
    rc = 1
print(f"TSAN: {runs} run(s), {evals} plan evaluations under ThreadSanitizer, {len(reports)} report(s), {len(lib)} distinct in library code, {other} without a library frame")
p = os.path.join(verif, "evidence", "C17.json")
try:
    e = json.load(open(p))
    c = e["coverage"]
    c["thread_sanitizer"] = {"engine": "rustc -Zsanitizer=thread, -Zbuild-std (nightly); aws-lc / libsodium C code is not instrumented", "runs": runs,
                             "evaluations": evals, "reports_total": len(reports), "distinct_reports_in_library_code": len(lib), "reports_without_library_frame": other}
    c["evaluations"] = c.get("evaluations", 0) + evals
    if lib:
        e["violations"] = e.get("violations", 0) + len(lib)
    json.dump(e, open(p, "w"), indent=1)
except Exception as ex:
    print("note: evidence not updated:", ex)
sys.exit(rc)
PY
prc=$?
[ $prc -eq 1 ] && status=1
exit $status
