#!/usr/bin/env python3
"""Regenerates /verif/MANIFEST.json from the table below (kept in one place so the manifest
stays valid and in step with what is built)."""
import json, os, sys

HERE = os.path.dirname(os.path.dirname(os.path.abspath(__file__)))

# id -> (engine, category, level text, level note, technique, design ref)
CHECKS = {
 "C01": ("pv-harness", "exploration",
         "Generated-input search (proptest, thousands of cases per back end and purpose, seeded library RNG, scripted draws, caller nonces, volume for the randomised signers) against a round-trip oracle plus the spec's payload length; bounded exploration, not proof.",
         "Trusts the harness's raw-bytes Payload, libsodium/aws-lc for key derivation of generated keys, and that aws-lc/libsodium internal RNG values not reached by volume behave like those reached.",
         "property-based testing (proptest): round-trip + spec-length oracle, RNG-as-input", "DESIGN.md §5 C01"),
 "C05": ("pv-harness", "exploration",
         "Generated-input search over wrap kinds, key kinds, passwords, KDF parameters and recipient pairs with a round-trip + fixed-length oracle; the rare RSA-KEM ciphertexts with leading zero bytes are constructed (scripted RNG draw r = c^d) rather than waited for; related inputs (a key wrapped under itself, the key's bytes as password) are drawn on purpose.",
         "Trusts the committed RSA key pool and the bounded KDF parameter ranges; aws-lc/libsodium internal randomness is not scripted.",
         "property-based testing (proptest): round-trip + fixed-length oracle, scripted RNG draws", "DESIGN.md §5 C05"),
 "C02": ("pv-harness", "fault_enumeration",
         "Fault enumeration: the complete mutation catalogue (every bit of small tokens, every truncation, boundary extensions and shifts, footer/assertion edits, key substitutions, header relabels) applied to proptest-sampled tokens of all six back ends and both purposes; every mutant must be rejected and the control accepted. Exhaustive per generated token for the listed mutation classes, sampled over tokens.",
         "Trusts FromStr as the entry path of mutants and the harness's byte-level reassembly (model base64).",
         "fault-injection enumeration over generated tokens (proptest-sampled), must-reject oracle with positive control", "DESIGN.md §5 C02"),
 "C06": ("pv-harness", "fault_enumeration",
         "Fault enumeration over library-produced PIE/PBKW/PKE blobs: every bit, every length change, header relabels, other keys/passwords/recipients; unwrap must fail for every mutant and the control must return the original key; paseto-v1: k1.seal blobs computed from public data alone (c >= n, every guess of r) never unseal.",
         "PBKW mutants whose mutated cost field exceeds the stated budget are skipped (counted); v1 k1.seal bits are sampled in the quick tier because each costs an RSA-4096 private operation. HMAC-equivalent passwords (zero-padding) are not 'other' passwords.",
         "fault-injection enumeration over generated wrapped keys, must-reject oracle with positive control", "DESIGN.md §5 C06"),
 "C12": ("pv-harness", "fault_enumeration",
         "The C02 mutant stream replayed on pairs of tokens (decodable / undecodable payload) with an instrumented payload decoder and validator: for every failing token neither runs, the error is never PayloadError and does not differ between the pair members; controls pin the decode-then-validate order.",
         "Error-kind equality is demanded only when the nonce and tag/signature windows of both pair members are byte-identical (a signature window that swallowed message bytes may legitimately parse differently). The accessor clause is decided by the generated compile probes of C18.",
         "fault-injection enumeration with invocation-recording Payload/Validate, metamorphic pair oracle", "DESIGN.md §5 C12"),
 "C03": ("pv-harness", "exploration",
         "Differential generated-input search against an independent reference model of PASETO v1-v4 (validated on every upstream vector at start-up): library token == model token byte for byte; model-built tokens (chosen nonces incl. counter-wrap blocks, independent high-S / random-k / PSS signers) unseal identically; sibling back ends accept each other. Counter wrap of derived v3 nonces is forced through the paseto_verif hook.",
         "Trusts the reference model (own PAE/base64/HKDF/AES-CTR composition over aws-lc-rs, libsodium and the bare aes block cipher) and the independent verifiers/signers of aws-lc-rs and RustCrypto.",
         "property-based differential testing (proptest) against a reference model + independent signers/verifiers", "DESIGN.md §5 C03, §3.3"),
 "C07": ("pv-harness", "exploration",
         "Differential generated-input search for PIE / PBKW / PKE: library blob == model blob recomputed from the embedded randomness (PKE recomputed with the recipient secret, or with scripted ephemeral randomness); model-built blobs with chosen nonces (incl. 0xff..ff counter blocks, forced derived IVs) unwrap to the same key on the back end and its sibling.",
         "Same trusted base as C03; Argon2id parallelism 1 only in model-checked cases.",
         "property-based differential testing (proptest) against a reference model, RNG-as-input, sibling differential", "DESIGN.md §5 C07, §3.3"),
 "C08": ("pv-harness", "exploration",
         "Generated keys of all five kinds round-trip through text and raw bytes, clones and re-parsed keys behave identically (sign/verify, encrypt/decrypt), public_key() equals an independent derivation; every byte-string length 0..128 and a catalogue of boundary shapes are offered to every key decoder against an independent acceptance oracle built on own big-integer curve arithmetic.",
         "Trusts libsodium / RustCrypto p384 for deriving reference public keys and the harness's curve-membership arithmetic; Ed25519 small-order points other than the identity are not constrained.",
         "property-based testing (proptest) + enumerated boundary shapes against an independent acceptance oracle", "DESIGN.md §5 C08"),
 "C13": ("pv-harness", "exploration",
         "Generated keys: id equals the reference digest of the canonical PASERK text (foreign hash library), stable across clone/serialise/parse/PEM-vs-DER/sibling; generated id strings accepted iff 33 bytes of strict base64url under the right header; Eq/Ord/Hash agree with the bytes.",
         "Trusts aws-lc SHA-384 / libsodium BLAKE2b as reference digests.",
         "property-based differential testing (proptest) against a reference digest", "DESIGN.md §5 C13"),
 "C15": ("pv-harness", "exploration",
         "Generated piece lists (0..8 pieces, 0..4 fragments, lengths 0..600): output equals the reference PAE, parses back to the same list (injectivity), streaming writers see the same bytes, boundary shifts always change the output; end to end on every back end no other split of footer || assertion is accepted for a sealed token.",
         "The back ends' private digest/MAC/signature writer adapters are driven through tokens whose pieces have every length 0..700, with and without a payload-encoding suffix, and compared with the reference MAC / signature over the reference PAE.",
         "property-based testing (proptest): reference encoder + inverse parser", "DESIGN.md §5 C15"),
 "C09": ("pv-harness", "exploration",
         "Exhaustive enumeration of the final base64 block (all ASCII strings of length <= 3, all length-4 strings over alphabet + hostile symbols, after 0/1/2 full blocks) and of every byte-sequence length 0..1200 plus the lengths around every multiple of 1024 up to 128 KiB, differentially against a strict table-driven reference codec; plus proptest over every FromStr/Display/serde triple of every back end with edit scripts and arbitrary strings against the strict grammar, with re-serialisation and serde-equivalence oracles.",
         "The sub-space of final blocks is enumerated completely; longer strings and the typed parsers are sampled.",
         "exhaustive enumeration + property-based differential testing (proptest) against a strict reference decoder/grammar", "DESIGN.md §5 C09"),
 "C10": ("pv-harness", "exploration",
         "Complete ordered-pair matrix of (back end, kind) parsers over library-produced strings of every kind with the expectation computed from the specification's header table; header rewriting of authenticated blobs must fail to unwrap.",
         "Source strings per kind are sampled (5 quick / 50 thorough per back end); the parser matrix itself is complete (24 parser types per back end incl. the PKE key-id and key-text instantiations).",
         "enumerated cross-acceptance matrix over generated values, header-table oracle", "DESIGN.md §5 C10"),
 "C11": ("pv-harness", "exploration",
         "Generated claims on and 1 ns beside every time boundary x generated validator expression trees (all combinators, depth <= 3) against an independent i128-nanosecond evaluator; end to end on every back end: unseal releases the claims iff the evaluator accepts, else ClaimsError.",
         "Trusts jiff's Timestamp construction from nanoseconds; Time::valid_now() is exercised with whole-day margins only.",
         "property-based testing (proptest) against an independent evaluator of generated validator expressions", "DESIGN.md §5 C11"),
 "C14": ("pv-harness", "exploration",
         "Generated RegisteredClaims round-trip field-wise (directly and flattened into a user struct); the wire form is checked with a generic JSON parser and an own strict RFC 3339 reader; generated JSON texts (extras, order, duplicates, nulls, wrong types, offsets, fractions) are decoded differentially against serde_json::Value with instants computed by the generator; Json<T> is compared with serde_json directly.",
         "Trusts serde_json::Value as the generic parser; leap seconds are not generated.",
         "property-based round-trip + differential testing (proptest) against a generic JSON parser", "DESIGN.md §5 C14"),
 "C04": ("pv-harness", "exploration",
         "Structured generated-input search offered to every parser of every back end with follow-up use of whatever parses, in child processes (panic = violation keyed by source location; dead process = violation); enumerates every decoded length 0..700 under every header and the key-shape catalogue; authentic tokens carrying hostile message / footer bytes are read through every typed payload / footer pair; a case that consumes 60 s of CPU without returning, and again when executed alone in a fresh process, is a violation (anything less clear is inconclusive); thorough adds coverage-guided libFuzzer + AddressSanitizer campaigns over the same entry function.",
         "PBKW inputs beyond the stated KDF budget are skipped (counted). aws-lc and libsodium are uninstrumented C in the quick tier; the fuzz build adds ASan to the Rust side and the FFI boundary.",
         "property-based testing (proptest) + enumeration in isolated child processes; coverage-guided fuzzing (libFuzzer+ASan) in the thorough tier", "DESIGN.md §5 C04"),
 "C16": ("pv-harness", "fault_enumeration",
         "Histories of identical operations with set-based uniqueness of every fresh field and (getrandom back ends) a draw log proving the field is the prescribed function of freshly drawn bytes; fault enumeration over every (operation kind x RNG draw index x partial fill x error kind {internal, custom, EIO, EAGAIN, unsupported} x {one draw, every draw from there on}): must return Err (a case that does not return at all is decided by CPU time and a control run in a fresh process), produce nothing, and leave the next operation working.",
         "aws-lc, libsodium and rsa::OsRng draw outside getrandom 0.3 and cannot be failed in-process: only the history part applies to them.",
         "stateful history checking + exhaustive RNG fault injection through a custom getrandom backend", "DESIGN.md §5 C16, §3.4"),
 "C17": ("pv-harness", "exploration",
         "Generated thread plans (1..16 real threads, mixed succeeding/failing operations, clone/drop overlap) against a sequential model, in child processes so crashes are observed; probes after every plan show failed operations did not alter the shared keys. Plans are supervised: an operation that has not returned for 60 s is classified through /proc (spinning / blocked) and re-run on fresh keys in a fresh process; only if it returns there is the non-return a violation, anything else is inconclusive (exit 2).",
         "Interleavings are sampled by the OS scheduler (stress, not enumeration). The thorough tier re-runs the plans in a ThreadSanitizer build (rustc -Zsanitizer=thread, -Zbuild-std): a race report with a frame in library code is a violation; aws-lc / libsodium C code is not instrumented.",
         "model-based stress testing of generated concurrent plans (proptest) with a sequential oracle; ThreadSanitizer build of the same plans in the thorough tier", "DESIGN.md §5 C17"),
 "C18": ("progs", "exploration",
         "A generated catalogue (about 3300 programs: key crate x token crate x purpose x key kind x operation, printing/serialising probes, field access, coercions, secret keys as footer / claims) with a type model predicting compile/reject, decided by rustc: every predicted-reject program must fail on its marked line, every well-typed twin must compile. The catalogue is enumerated completely.",
         "rustc is the ground truth; programs take the misused values as function parameters.",
         "generated-program testing: enumerated misuse catalogue with a type-model oracle, compiled with cargo check", "DESIGN.md §5 C18"),
 "C19": ("progs", "exploration",
         "Every distinct closure of each crate's feature flags is built with cargo check (exhaustive); generated probe crates on reduced builds replay full-build fixtures through every available operation and their output is accepted by the full build and the reference model, and their verdicts on a corpus of tokens, PASERK blobs and key texts (every key body under every header, parsed as every kind) equal the full build's (seeded closures quick, all closures thorough).",
         "cargo check decides 'builds'; the behaviour part samples closures in the quick tier. paseto-json with and without `claims` is compared differentially on a generated JSON corpus; paseto-core with/without `serde` is compiled only (it has no operation of its own that both builds share beyond what every back-end probe already exercises).",
         "configuration enumeration + generated probe programs, differential against the full build and the reference model", "DESIGN.md §5 C19"),
}

NOT_APPLICABLE = []  # filled while properties are still being built

def main():
    props = [json.loads(l)["id"] for l in open(os.path.join(HERE, "properties.jsonl"))]
    checks = []
    for pid in props:
        if pid not in CHECKS:
            continue
        eng, cat, text, note, tech, ref = CHECKS[pid]
        checks.append({
            "property_id": pid,
            "quick_cmd": f"./check {pid} quick",
            "thorough_cmd": f"./check {pid} thorough",
            "evidence_file": f"/verif/evidence/{pid}.json",
            "replay_cmd_template": f"./check {pid} --replay {{path}}",
            "engine": eng,
            "level_claimed": {"category": cat, "text": text, "design_ref": ref},
            "level_note": note,
            "technique": tech,
        })
    na = [x for x in NOT_APPLICABLE]
    for pid in props:
        if pid not in CHECKS and not any(x["property_id"] == pid for x in na):
            na.append({"property_id": pid, "reason": "check not built yet in this session (work in progress; see DESIGN.md for the planned generated-input check)"})
    hooks_commits = []
    hc = os.path.join(HERE, "hooks_commits.txt")
    if os.path.exists(hc):
        hooks_commits = [l.split()[0] for l in open(hc) if l.strip()]
    m = {
        "version": 1,
        "setup_cmd": "./setup.sh",
        "hooks": {
            "guard": "--cfg paseto_verif",
            "enable": "rustflags in /verif/harness/.cargo/config.toml and /verif/fuzz/.cargo/config.toml pass --cfg paseto_verif; every check builds /repo's crates as path dependencies with it",
            "baseline_off_cmd": "cd /repo && (cargo nextest run --workspace --no-fail-fast --offline || cargo test --workspace --no-fail-fast --offline)",
            "source_commits": hooks_commits,
            "add_only": True,
        },
        "engines": [
            {"name": "pv-harness", "path": "/verif/harness", "serves_properties": [p for p in props if p in CHECKS and CHECKS[p][0] == "pv-harness"],
             "kind_free_text": "Rust binary `pv`: proptest TestRunner + enumeration loops over an independent PASETO/PASERK reference model, getrandom custom backend (RNG-as-input), fault mutators, evidence/replay writer"},
            {"name": "progs", "path": "/verif/progs", "serves_properties": [p for p in props if p in CHECKS and CHECKS[p][0] == "progs"],
             "kind_free_text": "Python program generators (misuse catalogue, feature-closure enumeration) compiled with cargo check against /repo"},
            {"name": "fuzz", "path": "/verif/fuzz", "serves_properties": [p for p in props if p in CHECKS and "fuzz" in CHECKS[p][4]],
             "kind_free_text": "cargo-fuzz (libFuzzer + AddressSanitizer) targets used by thorough tiers"},
        ],
        "checks": checks,
        "not_applicable": na,
        "notes": "All checks rebuild from /repo's working tree. exit 2 = inconclusive (build failure, watchdog, harness error), never a verdict. known_findings.json lists known/fixed findings by exact signature.",
    }
    json.dump(m, open(os.path.join(HERE, "MANIFEST.json"), "w"), indent=1)
    print("MANIFEST.json written:", len(checks), "checks,", len(na), "not_applicable")

if __name__ == "__main__":
    main()
