#!/bin/bash
# usage: tools/runall.sh [quick|thorough] [ids...]   runs every check and prints one line each
TIER="${1:-quick}"; shift
IDS="${@:-C01 C02 C03 C04 C05 C06 C07 C08 C09 C10 C11 C12 C13 C14 C15 C16 C17 C18 C19}"
cd /verif
for id in $IDS; do
  s=$(date +%s.%N)
  out=$(./check $id $TIER 2>&1); rc=$?
  e=$(date +%s.%N)
  printf "%s rc=%d %.1fs  %s\n" "$id" "$rc" "$(echo "$e - $s" | bc)" "$(echo "$out" | grep -E "^$id " | tail -1)"
  if [ $rc -ne 0 ]; then echo "$out" | grep -E "^(VIOLATION|  signature|INCONCLUSIVE|KNOWN)" | head -8; fi
done
