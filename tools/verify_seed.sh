#!/bin/bash
# usage: tools/verify_seed.sh <Cxx> [suffix]   confirm a sub-agent's seeded change in its scratch worktree
#  - demo fails with the change, passes without it; existing suite passes with the change
set -u
ID="$1"; SFX="${2:-}"; WT="/tmp/wt/$ID$SFX"; low=$(echo "$ID" | tr 'A-Z' 'a-z')
cd "$WT" || exit 2
DEMO=$(ls paseto-test/tests/demo_*.rs paseto-*/tests/demo_*.rs 2>/dev/null | head -1)
[ -f seeded_patch.diff ] || { echo "no seeded_patch.diff"; exit 2; }
[ -n "$DEMO" ] || { echo "no demo"; exit 2; }
demo_name=$(basename "$DEMO" .rs)
# normalise: start from a clean library tree, then apply the patch
git checkout -q -- . 2>/dev/null
git apply seeded_patch.diff || { echo "patch does not apply"; exit 2; }
echo "== demo WITH change (expect failure)"
cargo test -j 8 --offline -p paseto-test --test "$demo_name" 2>&1 | grep -E "^test result|FAILED|panicked" | grep -E "^test result"
echo "== full suite WITH change (expect 395 passed)"
cargo nextest run --build-jobs 8 --workspace --no-fail-fast --offline -E "not binary($demo_name)" 2>&1 | grep -E "Summary|FAIL " | head -5
git apply -R seeded_patch.diff
echo "== demo WITHOUT change (expect ok)"
cargo test -j 8 --offline -p paseto-test --test "$demo_name" 2>&1 | grep -E "^test result|FAILED|panicked" | grep -E "^test result"
git apply seeded_patch.diff
mkdir -p /verif/seeded/$ID$SFX
cp seeded_patch.diff /verif/seeded/$ID$SFX/patch.diff
cp "$DEMO" /verif/seeded/$ID$SFX/
echo "stored in /verif/seeded/$ID$SFX"
