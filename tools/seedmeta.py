#!/usr/bin/env python3
"""Writes /verif/seeded/<id>/meta.json from the table below (kept here so it is easy to extend)."""
import json, os
VERIFY = "tools/verify_seed.sh <id> in the sub-agent's scratch worktree: demo test fails with the change, passes without it (git apply -R), existing suite 395/395 passed with the change (cargo nextest, demo excluded); then tools/drill.sh /verif/seeded/<id>/patch.diff <check> applied it to /repo, ran the check, and restored /repo"
SEEDS = {
 "C01": dict(property="C01", summary="paseto-v3-aws-lc Signature::from_bytes additionally requires BN_num_bytes(r)==BN_num_bytes(s)==48: tokens the library itself signed are rejected by verify() when r or s has a leading zero byte",
             needs="a value of the library's own ECDSA randomness (about 1 in 128 signatures); independent of payload and key", caught_by=["C01 quick (c01.roundtrip/paseto-v3-aws-lc/public: 4000 sign+verify round trips)"], missed_by_initially=[]),
 "C02": dict(property="C02", summary="SealedToken::unseal authenticates a re-encoding of the decoded footer value instead of the footer bytes received",
             needs="a structured footer type whose decoding is not injective (Json<T>) and a footer rewritten to different bytes with the same parse (whitespace, duplicate key, escape)", caught_by=["C02 quick after strengthening (c02.typed-footer/*: JSON and case/space-insensitive footers, same-value-different-bytes variants)"], missed_by_initially=["C02 as first built used only Vec<u8> footers, for which re-encoding is the identity"]),
 "C03": dict(property="C03", summary="paseto-v3 verify rejects valid high-S ECDSA signatures ('anti-malleability hardening')",
             needs="a conforming token signed by another implementation whose s > n/2 (about half of aws-lc's signatures); paseto-v3's own output is always low-S", caught_by=["C03 quick (spec-vs-impl with the independent high-S signer; sibling acceptance of aws-lc tokens)"], missed_by_initially=[]),
 "C05": dict(property="C05", summary="paseto-v1 seal_key hashes/MACs the unpadded RSA-KEM ciphertext but writes the padded one (two cooperating sites)",
             needs="an RSA-KEM ciphertext with a leading zero byte (about 1 in 256 seals)", caught_by=["C05 quick (c05.roundtrip/paseto-v1/pke with the scripted draw r = c^d aiming at a leading-zero ciphertext)", "C07 (blob differs from the model)"], missed_by_initially=[]),
 "C06": dict(property="C06", summary="paseto-v4 unseal_key masks bit 255 of the ephemeral public key before hashing/MACing it ('RFC 7748 compliance'): that bit is no longer authenticated",
             needs="exactly one of the 768 single-bit corruptions of a k4.seal blob (byte 63 bit 7)", caught_by=["C06 quick (exhaustive single-bit flips of every k4.seal blob)"], missed_by_initially=[]),
 "C07": dict(property="C07", summary="paseto-v4 PBKW rounds the Argon2 memory cost down to a multiple of 4*parallelism KiB before hashing",
             needs="a password-wrap memlimit whose KiB value is not a multiple of 4p (e.g. 9 KiB); defaults and vectors unaffected", caught_by=["C07 quick (random PBKW parameters within budget: library blob vs model, sibling unwrap)"], missed_by_initially=[]),
}
for sid, m in SEEDS.items():
    d = f"/verif/seeded/{sid}"
    if not os.path.isdir(d):
        continue
    m = dict(m)
    m["what_was_run"] = VERIFY.replace("<id>", sid).replace("<check>", m["property"])
    m["demo"] = [f for f in os.listdir(d) if f.startswith("demo_")]
    m["demo_cmd"] = f"copy the demo into paseto-test/tests/ of a worktree, then: cargo test --offline -p paseto-test --test {m['demo'][0][:-3] if m['demo'] else '?'}"
    json.dump(m, open(os.path.join(d, "meta.json"), "w"), indent=1)
print("meta written for", [s for s in SEEDS if os.path.isdir(f'/verif/seeded/{s}')])
