#!/usr/bin/env python3
"""Writes /verif/seeded/<id>/meta.json from the table below (kept here so it is easy to extend)."""
import json, os
VERIFY = "tools/verify_seed.sh <id> in the sub-agent's scratch worktree: demo test fails with the change, passes without it (git apply -R), existing suite 395/395 passed with the change (cargo nextest, demo excluded); then tools/drill.sh /verif/seeded/<id>/patch.diff <check> applied it to /repo, ran the check, and restored /repo"
SEEDS = {
 "C01": dict(property="C01", summary="paseto-v3-aws-lc Signature::from_bytes additionally requires BN_num_bytes(r)==BN_num_bytes(s)==48: tokens the library itself signed are rejected by verify() when r or s has a leading zero byte",
             needs="a value of the library's own ECDSA randomness (about 1 in 128 signatures); independent of payload and key", caught_by=["C01 quick (c01.roundtrip/paseto-v3-aws-lc/public: 4000 sign+verify round trips)"], missed_by_initially=[]),
 "C02": dict(property="C02", summary="SealedToken::unseal authenticates a re-encoding of the decoded footer value instead of the footer bytes received",
             needs="a structured footer type whose decoding is not injective (Json<T>) and a footer rewritten to different bytes with the same parse (whitespace, duplicate key, escape)", caught_by=["C02 quick after strengthening (c02.typed-footer/*: JSON and case/space-insensitive footers, same-value-different-bytes variants)"], missed_by_initially=["C02 as first built used only Vec<u8> footers, for which re-encoding is the identity"]),
 "C03": dict(property="C03", summary="paseto-v3 verify rejects valid high-S ECDSA signatures ('anti-malleability hardening')",
             needs="a conforming token signed by another implementation whose s > n/2 (about half of aws-lc's signatures); paseto-v3's own output is always low-S", caught_by=["C03 quick (spec-vs-impl with the independent high-S signer; sibling acceptance of aws-lc tokens)"], missed_by_initially=[]),
 "C05": dict(property="C05", summary="paseto-v1 seal_key hashes/MACs the unpadded RSA-KEM ciphertext but writes the padded one (two cooperating sites)",
             needs="an RSA-KEM ciphertext with a leading zero byte (about 1 in 256 seals)", caught_by=["C05 quick (c05.roundtrip/paseto-v1/pke with the scripted draw r = c^d aiming at a leading-zero ciphertext)", "C07 (blob differs from the model)"], missed_by_initially=[]),
 "C06": dict(property="C06", summary="paseto-v4 unseal_key masks bit 255 of the ephemeral public key before hashing/MACing it ('RFC 7748 compliance'): that bit is no longer authenticated",
             needs="exactly one of the 768 single-bit corruptions of a k4.seal blob (byte 63 bit 7)", caught_by=["C06 quick (exhaustive single-bit flips of every k4.seal blob)"], missed_by_initially=[]),
 "C07": dict(property="C07", summary="paseto-v4 PBKW rounds the Argon2 memory cost down to a multiple of 4*parallelism KiB before hashing",
             needs="a password-wrap memlimit whose KiB value is not a multiple of 4p (e.g. 9 KiB); defaults and vectors unaffected", caught_by=["C07 quick (random PBKW parameters within budget: library blob vs model, sibling unwrap)"], missed_by_initially=[]),
 "C04": dict(property="C04", summary="paseto-v4-sodium seal_key/unseal_key turn the fallible ed25519_pk_to_curve25519 conversion into expect(): sealing to an accepted public key that is on the curve but outside the prime-order subgroup panics",
             needs="a k4.public key that parses (on-curve) but is small-order or has a torsion component (e.g. 32 zero bytes), then LocalKey::seal to it", caught_by=["C04 quick (c04.sweep + c04.generated on paseto-v4-sodium: all-zero / all-ones key bytes of every length are offered to every decoder and accepted keys are used for seal-key)"], missed_by_initially=[]),
 "C08": dict(property="C08", summary="paseto-v1 key decoders check key.size() == 256 bytes instead of n.bits() == 2048: RSA moduli of 2041..2047 bits are accepted",
             needs="an RSA key whose modulus has its top bit clear but still fills 256 bytes (e.g. 2047 bits); the library never generates one", caught_by=["C08 quick after strengthening (odd-size RSA keys 2047/2049/2040/2056/1024/3072/4095/4088 bits added to the committed key pool and offered as DER and PEM to all four v1 decoders)"], missed_by_initially=["C08 as first built only offered 2048-bit keys to the 4096-bit decoders and vice versa"]),
 "C09": dict(property="C09", summary="base64::decode clamps the output to the destination buffer: key-id strings with trailing junk after the 44th character are accepted and re-serialise differently",
             needs="a KeyId string longer than 44 characters whose final block repeats the id's own final block (random junk matches with probability 2^-12..2^-24)", caught_by=["C09 quick (c09.types: edit scripts over canonical strings: DupSegment / Append on id strings)"], missed_by_initially=[]),
 "C10": dict(property="C10", summary="paseto-v4 HasKey<Local>::decode takes first_chunk::<32>() instead of requiring exactly 32 bytes: a 64-byte k4.secret body or 33-byte id passes for a local key",
             needs="key bytes LONGER than 32 offered to the local-key decoder of paseto-v4 (valid strings of other kinds are still rejected by header)", caught_by=["C10 quick after strengthening (c10.keybytes: serialised keys of every kind, ids, key||extra bytes and every length 0..128 offered to each decoder)", "C08 quick (length enumeration 0..128) already caught it"], missed_by_initially=["C10 as first built delegated the wrong-length clause to C08"]),
 "C11": dict(property="C11", summary="TimeWithLeeway compares whole seconds (duration_since(..).as_secs() > leeway): up to one second beyond the leeway edge is accepted",
             needs="exp in (now-l-1s, now-l) or nbf in (now+l, now+l+1s), e.g. now-l-1ns", caught_by=["C11 quick (boundary offsets leeway+-1ns against the i128 evaluator, validator and end-to-end)"], missed_by_initially=[]),
 "C12": dict(property="C12", summary="paseto-v4-sodium local unseal drops the minimum-length check and splits the tag with saturating_sub; libsodium's compare() over a zero-length tag reports equal: a 32-byte body authenticates under any key and reaches decoder and validator",
             needs="a v4.local token truncated to exactly 32 bytes on the libsodium back end", caught_by=["C12 quick (every truncation length with the recording decoder/validator)", "C02 (truncate-back mutant accepted)"], missed_by_initially=[]),
 "C13": dict(property="C13", summary="KeyId::from_str replaces the 'decoded length == 33' check by a ceiling-division block count: id bodies of 42/43 characters (31/32 bytes) are accepted, zero-extended, and re-serialise differently",
             needs="an id body exactly one or two bytes short", caught_by=["C13 quick (c13.idstrings: id bodies of 30..36 bytes)", "C09 quick"], missed_by_initially=[]),
 "C14": dict(property="C14", summary="the nbf duplicate guard in the RegisteredClaims visitor tests the iat slot: objects with iat before nbf are rejected, duplicate nbf accepted",
             needs="a JSON object whose member order differs from the library's own (iat before nbf)", caught_by=["C14 quick (c14.claims-text: generated member orders; rejects-valid-object)"], missed_by_initially=[]),
 "C15": dict(property="C15", summary="pre_auth_encode joins multi-fragment pieces in a 64-byte stack buffer (zip truncates) while the length prefix stays the full sum",
             needs="a piece given as >= 2 fragments totalling more than 64 bytes (the library only fragments the short header)", caught_by=["C15 quick (fragment lengths 0..600 x 0..4 fragments)"], missed_by_initially=[]),
 "C16": dict(property="C16", summary="paseto-v4 pw_wrap_key folds the two draws with Result::or: if exactly one of salt/nonce draws fails the error is swallowed and an all-zero salt or nonce is used",
             needs="an RNG failure at exactly one of the two draw indices of one password-wrap call (a persistently failing RNG is still reported)", caught_by=["C16 quick (c16.faults: every draw index x fill)"], missed_by_initially=[]),
 "C17": dict(property="C17", summary="paseto-v3-aws-lc VerifyingKey::from_point checks ERR_peek_error() instead of the setters' return codes: after any failed aws-lc operation on the same thread, clone()/public_key()/seal_key panic",
             needs="a failed operation (rejected token) followed by a clone / public_key() on the same thread without an intervening error-queue clear", caught_by=["C17 quick (plans mixing failing verifies with CloneUse/CloneDrop/PublicKey; catch_unwind per op)"], missed_by_initially=[]),
 "C18": dict(property="C18", summary="paseto-core gains serde Serialize/Deserialize for every Key<V,K> (feature serde), delegating to expose_key(): secret and local keys can be serialised without the explicit expose call",
             needs="a program handing a secret/local key to a serde serializer (Display/Debug probes alone do not see it)", caught_by=["C18 quick (catalogue class key-serde)"], missed_by_initially=[]),
 "C19": dict(property="C19", summary="paseto-v1 pie_wrap uses Mac::finalize_reset, which needs hmac's `reset` feature that only the pke feature enables",
             needs="a paseto-v1 feature selection containing pie-wrap but not pke", caught_by=["C19 quick (all 45 closures of paseto-v1 are checked)"], missed_by_initially=[]),
 "C01b": dict(property="C01", summary="paseto-v4 preauth_secret (signing side) writes the header piece as version, purpose, SUFFIX while verify and Display use version, SUFFIX, purpose",
             needs="a Payload type with a non-empty SUFFIX, purpose public, back end paseto-v4", caught_by=["C01 quick after strengthening (payload-encoding suffix dimension: RawS with SUFFIX \".x1\")"], missed_by_initially=["every harness payload type had SUFFIX \"\""]),
 "C02b": dict(property="C02", summary="paseto-v4-sodium preauth_public signs the constant b\"v4.public.\" instead of version+SUFFIX+purpose: the encoding suffix in the header is no longer authenticated",
             needs="two Payload types with different SUFFIX and a header rewritten from one to the other", caught_by=["C02 quick after strengthening (c02.encoding-relabel)"], missed_by_initially=["no suffix dimension"]),
 "C03b": dict(property="C03", summary="paseto-v2/v4 Clone for SecretKey goes through ExpandedSecretKey::from_bytes, which clamps the already reduced scalar again: a CLONED key signs with a different scalar",
             needs="signing with a clone of the secret key", caught_by=["C03 quick after strengthening (signing key variants: parsed / clone / clone of clone)", "C08 quick and C17 quick caught it as first built"], missed_by_initially=["C03 never cloned keys"]),
 "C04b": dict(property="C04", summary="TimeWithLeeway applies the leeway to the claim (exp + leeway, nbf - leeway) instead of to now: jiff's Timestamp arithmetic panics for claims within a leeway of the range edge",
             needs="an authentic token whose exp is within the leeway of Timestamp::MAX (a 'never expires' token) unsealed with a leeway validator", caught_by=["C04 quick after strengthening (c04.validators: claims anywhere in jiff's range, incl. MIN/MAX +- k*leeway)"], missed_by_initially=["C04 only used NoValidation; C11 kept claims near now"]),
 "C05b": dict(property="C05", summary="paseto-v3 pw_unwrap_key refuses more than 1,000,000 iterations ('DoS guard') while wrap accepts any count",
             needs="password-wrap parameters above one million PBKDF2 iterations", caught_by=["C05 quick after strengthening (pbkw-high-cost: one case per back end above 10^6 iterations / 64-192 MiB)"], missed_by_initially=["parameters were bounded at 10^4 iterations"]),
 "C06b": dict(property="C06", summary="paseto-v4-sodium unseal_key splits the blob from the back, leaving a variable-length tag compared with libsodium's min-length compare()",
             needs="a k4.seal blob with the tag truncated/removed or bytes inserted after the tag", caught_by=["C06 quick (truncate-front / extend at field boundaries)"], missed_by_initially=[]),
}
for sid, m in SEEDS.items():
    d = f"/verif/seeded/{sid}"
    if not os.path.isdir(d):
        continue
    m = dict(m)
    m["what_was_run"] = VERIFY.replace("<id>", sid).replace("<check>", m["property"])
    m["demo"] = [f for f in os.listdir(d) if f.startswith("demo_")]
    m["demo_cmd"] = f"copy the demo into paseto-test/tests/ of a worktree, then: cargo test --offline -p paseto-test --test {m['demo'][0][:-3] if m['demo'] else '?'}"
    json.dump(m, open(os.path.join(d, "meta.json"), "w"), indent=1)
print("meta written for", [s for s in SEEDS if os.path.isdir(f'/verif/seeded/{s}')])
